//! ToyField: a harness-local StarkField for the prime p = 40961 = 5 * 2^13 + 1 (generator 3, 2^13-th root of unity 243).
//! p^2 < 2^31, so TLC computes reference values with native integers; the repository's *generic* code (fft, polynom,
//! FRI folding, divisors, constraint evaluation, composition, DEEP, Merkle, coin, prover, verifier) runs over it unchanged.
//! Quadratic extension x^2 = x - 1, cubic extension x^3 = x + 4.
use core::fmt::{Debug, Display, Formatter};
use core::ops::{Add, AddAssign, Div, DivAssign, Mul, MulAssign, Neg, Sub, SubAssign};

use winter_math::{ExtensibleField, FieldElement, StarkField};
use winter_utils::{AsBytes, ByteReader, ByteWriter, Deserializable, DeserializationError, Randomizable, Serializable};

pub const P: u64 = 40961;

#[derive(Copy, Clone, Default, PartialEq, Eq)]
#[repr(transparent)]
pub struct Toy(pub u16);

impl Toy {
    pub const fn new(v: u64) -> Self {
        Toy((v % P) as u16)
    }
    pub fn v(self) -> u64 {
        self.0 as u64
    }
}
impl Debug for Toy {
    fn fmt(&self, f: &mut Formatter<'_>) -> core::fmt::Result {
        write!(f, "{}", self.0)
    }
}
impl Display for Toy {
    fn fmt(&self, f: &mut Formatter<'_>) -> core::fmt::Result {
        write!(f, "{}", self.0)
    }
}
impl Add for Toy {
    type Output = Self;
    fn add(self, r: Self) -> Self {
        Toy::new(self.v() + r.v())
    }
}
impl Sub for Toy {
    type Output = Self;
    fn sub(self, r: Self) -> Self {
        Toy::new(self.v() + P - r.v())
    }
}
impl Mul for Toy {
    type Output = Self;
    fn mul(self, r: Self) -> Self {
        Toy::new(self.v() * r.v())
    }
}
impl Div for Toy {
    type Output = Self;
    fn div(self, r: Self) -> Self {
        self * r.inv()
    }
}
impl Neg for Toy {
    type Output = Self;
    fn neg(self) -> Self {
        Toy::new(P - self.v())
    }
}
impl AddAssign for Toy {
    fn add_assign(&mut self, r: Self) {
        *self = *self + r
    }
}
impl SubAssign for Toy {
    fn sub_assign(&mut self, r: Self) {
        *self = *self - r
    }
}
impl MulAssign for Toy {
    fn mul_assign(&mut self, r: Self) {
        *self = *self * r
    }
}
impl DivAssign for Toy {
    fn div_assign(&mut self, r: Self) {
        *self = *self / r
    }
}
impl From<u8> for Toy {
    fn from(v: u8) -> Self {
        Toy::new(v as u64)
    }
}
impl From<u16> for Toy {
    fn from(v: u16) -> Self {
        Toy::new(v as u64)
    }
}
impl From<u32> for Toy {
    fn from(v: u32) -> Self {
        Toy::new(v as u64)
    }
}
impl TryFrom<u64> for Toy {
    type Error = String;
    fn try_from(v: u64) -> Result<Self, String> {
        if v >= P {
            Err("too big".into())
        } else {
            Ok(Toy(v as u16))
        }
    }
}
impl TryFrom<u128> for Toy {
    type Error = String;
    fn try_from(v: u128) -> Result<Self, String> {
        if v >= P as u128 {
            Err("too big".into())
        } else {
            Ok(Toy(v as u16))
        }
    }
}
impl<'a> TryFrom<&'a [u8]> for Toy {
    type Error = DeserializationError;
    fn try_from(b: &[u8]) -> Result<Self, Self::Error> {
        if b.len() != 2 {
            return Err(DeserializationError::InvalidValue("need 2 bytes".into()));
        }
        let v = u16::from_le_bytes([b[0], b[1]]) as u64;
        if v >= P {
            return Err(DeserializationError::InvalidValue("not canonical".into()));
        }
        Ok(Toy(v as u16))
    }
}
impl AsBytes for Toy {
    fn as_bytes(&self) -> &[u8] {
        let p: *const Toy = self;
        unsafe { core::slice::from_raw_parts(p as *const u8, 2) }
    }
}
impl Randomizable for Toy {
    const VALUE_SIZE: usize = 2;
    fn from_random_bytes(b: &[u8]) -> Option<Self> {
        Self::try_from(&b[..2]).ok()
    }
}
impl Serializable for Toy {
    fn write_into<W: ByteWriter>(&self, target: &mut W) {
        target.write_bytes(&self.0.to_le_bytes());
    }
}
impl Deserializable for Toy {
    fn read_from<R: ByteReader>(source: &mut R) -> Result<Self, DeserializationError> {
        let v = source.read_u16()? as u64;
        if v >= P {
            return Err(DeserializationError::InvalidValue("not canonical".into()));
        }
        Ok(Toy(v as u16))
    }
}
impl FieldElement for Toy {
    type PositiveInteger = u64;
    type BaseField = Self;
    const EXTENSION_DEGREE: usize = 1;
    const ELEMENT_BYTES: usize = 2;
    const IS_CANONICAL: bool = true;
    const ZERO: Self = Toy(0);
    const ONE: Self = Toy(1);
    fn inv(self) -> Self {
        if self.0 == 0 {
            return Toy(0);
        }
        self.exp_vartime(P - 2)
    }
    fn conjugate(&self) -> Self {
        *self
    }
    fn base_element(&self, i: usize) -> Self {
        match i {
            0 => *self,
            _ => panic!("index out of bounds"),
        }
    }
    fn slice_as_base_elements(e: &[Self]) -> &[Self] {
        e
    }
    fn slice_from_base_elements(e: &[Self]) -> &[Self] {
        e
    }
    fn elements_as_bytes(e: &[Self]) -> &[u8] {
        unsafe { core::slice::from_raw_parts(e.as_ptr() as *const u8, e.len() * 2) }
    }
    unsafe fn bytes_as_elements(b: &[u8]) -> Result<&[Self], DeserializationError> {
        if b.len() % 2 != 0 || (b.as_ptr() as usize) % 2 != 0 {
            return Err(DeserializationError::InvalidValue("bad slice".into()));
        }
        Ok(core::slice::from_raw_parts(b.as_ptr() as *const Toy, b.len() / 2))
    }
}
impl StarkField for Toy {
    const MODULUS: u64 = P;
    const MODULUS_BITS: u32 = 16;
    const GENERATOR: Self = Toy(3);
    const TWO_ADICITY: u32 = 13;
    const TWO_ADIC_ROOT_OF_UNITY: Self = Toy(243);
    fn get_modulus_le_bytes() -> Vec<u8> {
        (P as u16).to_le_bytes().to_vec()
    }
    fn as_int(&self) -> u64 {
        self.0 as u64
    }
}
impl ExtensibleField<2> for Toy {
    fn mul(a: [Self; 2], b: [Self; 2]) -> [Self; 2] {
        // x^2 = x - 1
        let a1b1 = a[1] * b[1];
        [a[0] * b[0] - a1b1, a[0] * b[1] + a[1] * b[0] + a1b1]
    }
    fn mul_base(a: [Self; 2], b: Self) -> [Self; 2] {
        [a[0] * b, a[1] * b]
    }
    fn frobenius(x: [Self; 2]) -> [Self; 2] {
        [x[0] + x[1], -x[1]]
    }
}
impl ExtensibleField<3> for Toy {
    fn mul(a: [Self; 3], b: [Self; 3]) -> [Self; 3] {
        // x^3 = x + 4, x^4 = x^2 + 4x
        let c0 = a[0] * b[0];
        let c1 = a[0] * b[1] + a[1] * b[0];
        let c2 = a[0] * b[2] + a[1] * b[1] + a[2] * b[0];
        let c3 = a[1] * b[2] + a[2] * b[1];
        let c4 = a[2] * b[2];
        let four = Toy(4);
        [c0 + c3 * four, c1 + c3 + c4 * four, c2 + c4]
    }
    fn mul_base(a: [Self; 3], b: Self) -> [Self; 3] {
        [a[0] * b, a[1] * b, a[2] * b]
    }
    fn frobenius(x: [Self; 3]) -> [Self; 3] {
        // x -> x^p by square and multiply
        let mut r = [Toy(1), Toy(0), Toy(0)];
        let mut b = x;
        let mut e = P;
        while e > 0 {
            if e & 1 == 1 {
                r = <Toy as ExtensibleField<3>>::mul(r, b);
            }
            b = <Toy as ExtensibleField<3>>::mul(b, b);
            e >>= 1;
        }
        r
    }
}
