//! ShapeAir / ShapeProver: one parametric computation description driven entirely by a scenario record.
//! Transition constraints are functional (next[i] = F_i(cur, periodic)), so a valid trace exists for every shape
//! (forward execution) and the effect of corrupting one cell is structurally decidable (Air.tla, Violated).
use std::marker::PhantomData;

use serde::{Deserialize, Serialize};
use winter_air::{
    Air, AirContext, Assertion, AuxRandElements, ConstraintCompositionCoefficients, EvaluationFrame, ProofOptions,
    TraceInfo, TransitionConstraintDegree,
};
use winter_crypto::{ElementHasher, RandomCoin};
use winter_math::{ExtensibleField, FieldElement, StarkField, ToElements};
use winter_prover::{
    matrix::ColMatrix, DefaultConstraintEvaluator, DefaultTraceLde, Prover, StarkDomain, TracePolyTable, TraceTable,
};

use crate::common::Rng;

pub trait SField: StarkField + ExtensibleField<2> + ExtensibleField<3> + 'static {}
impl<T: StarkField + ExtensibleField<2> + ExtensibleField<3> + 'static> SField for T {}

#[derive(Clone, Debug, Serialize, Deserialize, PartialEq, Eq)]
pub struct AsrSpec {
    pub kind: String,
    pub col: usize,
    pub first: usize,
    pub stride: usize,
    pub count: usize,
}

#[derive(Clone, Debug, Serialize, Deserialize, PartialEq, Eq)]
pub struct Shape {
    pub n: usize,
    pub width: usize,
    pub degs: Vec<usize>,     // degree of the transition constraint of column i
    pub periodic: Vec<usize>, // cycle length of each periodic column
    pub pcol: Vec<i64>,       // periodic column multiplying the power term of column i, or -1
    pub asserts: Vec<AsrSpec>,
    pub exempt: usize,
    /// "std": next[i] = cur[i]^d * p + cur[i+1] + (i+1);  "copy": next[i] = cur[i] (constant columns are valid)
    #[serde(default)]
    pub mode: String,
    /// columns with next = (i+1) - cur (period two), so that periodic assertions on them are satisfiable
    #[serde(default)]
    pub neg: Vec<usize>,
}

impl Shape {
    pub fn is_copy(&self) -> bool {
        self.mode == "copy"
    }
    pub fn is_neg(&self, i: usize) -> bool {
        self.neg.contains(&i)
    }
    pub fn steps_of(&self, a: &AsrSpec) -> Vec<usize> {
        match a.kind.as_str() {
            "single" => vec![a.first],
            "periodic" => (0..self.n / a.stride).map(|j| a.first + a.stride * j).collect(),
            _ => (0..a.count).map(|j| a.first + a.stride * j).collect(),
        }
    }
    pub fn periodic_values<B: StarkField>(&self) -> Vec<Vec<B>> {
        self.periodic
            .iter()
            .enumerate()
            .map(|(idx, &c)| (0..c).map(|j| B::from((17 * idx + 3 * j + 2) as u32)).collect())
            .collect()
    }
    /// next row from the current one (the functional reading of the transition constraints)
    pub fn step_fn<B: StarkField>(&self, cur: &[B], step: usize, pv: &[Vec<B>]) -> Vec<B> {
        let w = self.width;
        if self.is_copy() {
            return cur.to_vec();
        }
        (0..w)
            .map(|i| {
                if self.is_neg(i) {
                    return B::from((i + 1) as u32) - cur[i];
                }
                let p = if self.pcol[i] >= 0 {
                    let col = &pv[self.pcol[i] as usize];
                    col[step % col.len()]
                } else {
                    B::ONE
                };
                cur[i].exp((self.degs[i] as u64).into()) * p + cur[(i + 1) % w] + B::from((i + 1) as u32)
            })
            .collect()
    }
    /// a valid trace: forward execution from a seeded first row; with `free_tail` the rows that no enforced
    /// transition reaches are filled with unrelated values
    pub fn build_trace<B: StarkField>(&self, seed: u64, free_tail: bool, constant: bool) -> Vec<Vec<B>> {
        let mut rng = Rng(seed ^ 0x5eed);
        let pv = self.periodic_values::<B>();
        let mut rows: Vec<Vec<B>> = Vec::with_capacity(self.n);
        rows.push((0..self.width).map(|_| B::from((rng.next() >> 34) as u32 + 2)).collect());
        for j in 0..self.n - 1 {
            let next = self.step_fn(&rows[j], j, &pv);
            rows.push(next);
        }
        // a period-two column satisfies its constraint on every step, so with more than one exemption its constraint
        // polynomial would have a lower degree than declared (a degenerate trace): its tail is always freed, except for
        // the cells that a periodic assertion names (those have to repeat)
        let named = |c: usize, j: usize| self.asserts.iter().any(|a| a.kind == "periodic" && a.col == c && j % a.stride == a.first % a.stride);
        for j in (self.n - self.exempt + 1)..self.n {
            for c in 0..self.width {
                if (free_tail || self.is_neg(c)) && !(self.is_neg(c) && named(c, j)) {
                    rows[j][c] = B::from((rng.next() >> 34) as u32 + 5);
                }
            }
        }
        let _ = constant;
        (0..self.width).map(|c| rows.iter().map(|r| r[c]).collect()).collect()
    }
}

#[derive(Clone, Debug)]
pub struct ShapeInputs<B: StarkField> {
    pub shape: Shape,
    pub values: Vec<Vec<B>>, // asserted values, per assertion
}

impl<B: StarkField> ShapeInputs<B> {
    pub fn from_trace(shape: &Shape, cols: &[Vec<B>]) -> Self {
        let values = shape
            .asserts
            .iter()
            .map(|a| {
                let steps = shape.steps_of(a);
                match a.kind.as_str() {
                    "sequence" => steps.iter().map(|&s| cols[a.col][s]).collect(),
                    _ => vec![cols[a.col][steps[0]]],
                }
            })
            .collect();
        ShapeInputs { shape: shape.clone(), values }
    }
}

impl<B: StarkField> ToElements<B> for ShapeInputs<B> {
    fn to_elements(&self) -> Vec<B> {
        let s = &self.shape;
        let mut v: Vec<B> = vec![B::from(s.n as u32), B::from(s.width as u32), B::from(s.exempt as u32), B::from(s.is_copy() as u32)];
        v.extend(s.degs.iter().map(|&d| B::from(d as u32)));
        v.extend(s.periodic.iter().map(|&d| B::from(d as u32)));
        v.extend(s.pcol.iter().map(|&d| B::from((d + 1) as u32)));
        v.extend(s.neg.iter().map(|&d| B::from(d as u32)));
        for a in &s.asserts {
            let k = match a.kind.as_str() {
                "single" => 1u32,
                "periodic" => 2,
                _ => 3,
            };
            v.extend([B::from(k), B::from(a.col as u32), B::from(a.first as u32), B::from(a.stride as u32), B::from(a.count as u32)]);
        }
        for vals in &self.values {
            v.extend(vals.iter().cloned());
        }
        v
    }
}

pub struct ShapeAir<B: SField> {
    context: AirContext<B>,
    inputs: ShapeInputs<B>,
}

impl<B: SField> Air for ShapeAir<B> {
    type BaseField = B;
    type PublicInputs = ShapeInputs<B>;
    type GkrProof = ();
    type GkrVerifier = ();

    fn new(trace_info: TraceInfo, pub_inputs: ShapeInputs<B>, options: ProofOptions) -> Self {
        let s = &pub_inputs.shape;
        let degrees = (0..s.width)
            .map(|i| {
                if s.is_copy() || s.is_neg(i) {
                    TransitionConstraintDegree::new(1)
                } else if s.pcol[i] >= 0 {
                    TransitionConstraintDegree::with_cycles(s.degs[i], vec![s.periodic[s.pcol[i] as usize]])
                } else {
                    TransitionConstraintDegree::new(s.degs[i])
                }
            })
            .collect();
        let context = AirContext::new(trace_info, degrees, s.asserts.len(), options).set_num_transition_exemptions(s.exempt);
        ShapeAir { context, inputs: pub_inputs }
    }

    fn context(&self) -> &AirContext<B> {
        &self.context
    }

    fn evaluate_transition<E: FieldElement<BaseField = B>>(&self, frame: &EvaluationFrame<E>, periodic_values: &[E], result: &mut [E]) {
        let s = &self.inputs.shape;
        let cur = frame.current();
        let next = frame.next();
        let w = s.width;
        if s.is_copy() {
            for i in 0..w {
                result[i] = next[i] - cur[i];
            }
            return;
        }
        for i in 0..w {
            if s.is_neg(i) {
                result[i] = next[i] - (E::from((i + 1) as u32) - cur[i]);
                continue;
            }
            let p = if s.pcol[i] >= 0 { periodic_values[s.pcol[i] as usize] } else { E::ONE };
            result[i] = next[i] - (cur[i].exp((s.degs[i] as u64).into()) * p + cur[(i + 1) % w] + E::from((i + 1) as u32));
        }
    }

    fn get_assertions(&self) -> Vec<Assertion<B>> {
        let s = &self.inputs.shape;
        s.asserts
            .iter()
            .zip(self.inputs.values.iter())
            .map(|(a, v)| match a.kind.as_str() {
                "single" => Assertion::single(a.col, a.first, v[0]),
                "periodic" => Assertion::periodic(a.col, a.first, a.stride, v[0]),
                _ => Assertion::sequence(a.col, a.first, a.stride, v.clone()),
            })
            .collect()
    }

    fn get_periodic_column_values(&self) -> Vec<Vec<B>> {
        self.inputs.shape.periodic_values::<B>()
    }
}

pub struct ShapeProver<B: SField, H: ElementHasher<BaseField = B>, R: RandomCoin<BaseField = B, Hasher = H>> {
    pub options: ProofOptions,
    pub shape: Shape,
    /// public inputs to claim (normally derived from the trace; overridden by soundness scenarios)
    pub claim: Option<ShapeInputs<B>>,
    pub _p: PhantomData<(H, R)>,
}

impl<B: SField, H: ElementHasher<BaseField = B> + Sync + Send, R: RandomCoin<BaseField = B, Hasher = H> + Send> Prover for ShapeProver<B, H, R> {
    type BaseField = B;
    type Air = ShapeAir<B>;
    type Trace = TraceTable<B>;
    type HashFn = H;
    type RandomCoin = R;
    type TraceLde<E: FieldElement<BaseField = B>> = DefaultTraceLde<E, H>;
    type ConstraintEvaluator<'a, E: FieldElement<BaseField = B>> = DefaultConstraintEvaluator<'a, ShapeAir<B>, E>;

    fn get_pub_inputs(&self, trace: &Self::Trace) -> ShapeInputs<B> {
        if let Some(c) = &self.claim {
            return c.clone();
        }
        let cols: Vec<Vec<B>> = (0..trace.width()).map(|c| trace.get_column(c).to_vec()).collect();
        ShapeInputs::from_trace(&self.shape, &cols)
    }

    fn options(&self) -> &ProofOptions {
        &self.options
    }

    fn new_trace_lde<E: FieldElement<BaseField = B>>(
        &self,
        trace_info: &TraceInfo,
        main_trace: &ColMatrix<B>,
        domain: &StarkDomain<B>,
    ) -> (Self::TraceLde<E>, TracePolyTable<E>) {
        DefaultTraceLde::new(trace_info, main_trace, domain)
    }

    fn new_evaluator<'a, E: FieldElement<BaseField = B>>(
        &self,
        air: &'a ShapeAir<B>,
        aux_rand_elements: Option<AuxRandElements<E>>,
        composition_coefficients: ConstraintCompositionCoefficients<E>,
    ) -> Self::ConstraintEvaluator<'a, E> {
        DefaultConstraintEvaluator::new(air, aux_rand_elements, composition_coefficients)
    }
}
