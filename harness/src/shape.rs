//! ShapeAir / ShapeProver: one parametric computation description driven entirely by a scenario record.
//! Transition constraints are functional (next[i] = F_i(cur, periodic)), so a valid trace exists for every shape
//! (forward execution) and the effect of corrupting one cell is structurally decidable (Air.tla, Violated).
use std::marker::PhantomData;

use serde::{Deserialize, Serialize};
use winter_air::{
    Air, AirContext, Assertion, AuxRandElements, ConstraintCompositionCoefficients, EvaluationFrame, GkrVerifier,
    LagrangeKernelRandElements, ProofOptions, TraceInfo, TransitionConstraintDegree,
};
use winter_crypto::{ElementHasher, RandomCoin};
use winter_math::{ExtensibleField, ExtensionOf, FieldElement, StarkField, ToElements};
use winter_air::{proof::Queries, LagrangeKernelEvaluationFrame};
use winter_crypto::Hasher;
use winter_prover::{
    matrix::ColMatrix, DefaultConstraintEvaluator, DefaultTraceLde, Prover, ProverGkrProof, StarkDomain, Trace, TraceLde,
    TracePolyTable,
};

use crate::common::Rng;

pub trait SField: StarkField + ExtensibleField<2> + ExtensibleField<3> + 'static {}
impl<T: StarkField + ExtensibleField<2> + ExtensibleField<3> + 'static> SField for T {}

#[derive(Clone, Debug, Serialize, Deserialize, PartialEq, Eq)]
pub struct AsrSpec {
    pub kind: String,
    pub col: usize,
    pub first: usize,
    pub stride: usize,
    pub count: usize,
}

#[derive(Clone, Debug, Serialize, Deserialize, PartialEq, Eq)]
pub struct Shape {
    pub n: usize,
    pub width: usize,
    pub degs: Vec<usize>,     // degree of the transition constraint of column i
    pub periodic: Vec<usize>, // cycle length of each periodic column
    pub pcol: Vec<i64>,       // periodic column multiplying the power term of column i, or -1
    pub asserts: Vec<AsrSpec>,
    pub exempt: usize,
    /// "std": next[i] = cur[i]^d * p + cur[i+1] + (i+1);  "copy": next[i] = cur[i] (constant columns are valid)
    #[serde(default)]
    pub mode: String,
    /// columns with next = (i+1) - cur (period two), so that periodic assertions on them are satisfiable
    #[serde(default)]
    pub neg: Vec<usize>,
    /// auxiliary segment (0 columns = single-segment trace).  Column j < aux_degs.len() is a running sum
    /// (aux_degs[j] = 1: next = cur + r_j * main_cur[j % width]) or a running product (aux_degs[j] = 2:
    /// next = cur * (main_cur[j % width] + r_j)) over the random elements r; with `lagrange` one more column, the last,
    /// is the Lagrange kernel column whose constraints the library builds itself
    #[serde(default)]
    pub aux_degs: Vec<usize>,
    #[serde(default)]
    pub aux_rands: usize,
    #[serde(default)]
    pub lagrange: bool,
    /// assertions on running-sum/product columns (col = index in the auxiliary segment); the asserted value of a sum
    /// column at step s is r_j * (public prefix sum of the main column up to s), of a product column 1 at step 0
    #[serde(default)]
    pub aux_asserts: Vec<AsrSpec>,
    /// trace metadata bytes carried in the proof context
    #[serde(default)]
    pub meta: Vec<u8>,
}

impl Shape {
    pub fn is_copy(&self) -> bool {
        self.mode == "copy"
    }
    pub fn is_neg(&self, i: usize) -> bool {
        self.neg.contains(&i)
    }
    pub fn aux_width(&self) -> usize {
        self.aux_degs.len() + self.lagrange as usize
    }
    pub fn trace_info(&self) -> TraceInfo {
        TraceInfo::new_multi_segment(self.width, self.aux_width(), self.aux_rands, self.n, self.meta.clone())
    }
    /// random element of auxiliary column j
    pub fn rand_of<E: FieldElement>(&self, j: usize, rands: &[E]) -> E {
        if rands.is_empty() {
            E::ONE
        } else {
            rands[j % rands.len()]
        }
    }
    /// next value of auxiliary column j (the functional reading of its transition constraint)
    pub fn aux_step<B: StarkField, E: FieldElement<BaseField = B>>(&self, j: usize, cur: E, main_cur: &[B], rands: &[E]) -> E {
        let m = E::from(main_cur[j % self.width]);
        let r = self.rand_of(j, rands);
        if self.aux_degs[j] == 1 {
            cur + r * m
        } else {
            // running product of (m + r)^(degree - 1): a constraint of the declared degree
            cur * (m + r).exp(((self.aux_degs[j] - 1) as u32).into())
        }
    }
    /// the auxiliary columns that follow from the main columns and the random elements (the Lagrange kernel column last)
    pub fn build_aux<B: StarkField, E: FieldElement<BaseField = B>>(&self, main: &[Vec<B>], rands: &[E], lagrange: Option<&[E]>) -> Vec<Vec<E>> {
        let mut cols: Vec<Vec<E>> = vec![];
        for j in 0..self.aux_degs.len() {
            let mut col = Vec::with_capacity(self.n);
            col.push(if self.aux_degs[j] == 1 { E::ZERO } else { E::ONE });
            for i in 0..self.n - 1 {
                let mc: Vec<B> = main.iter().map(|c| c[i]).collect();
                col.push(self.aux_step(j, col[i], &mc, rands));
            }
            cols.push(col);
        }
        if self.lagrange {
            let r = lagrange.expect("lagrange random elements");
            let col = (0..self.n)
                .map(|row| r.iter().enumerate().fold(E::ONE, |acc, (bit, &ri)| if row & (1 << bit) == 0 { acc * (E::ONE - ri) } else { acc * ri }))
                .collect();
            cols.push(col);
        }
        cols
    }
    pub fn steps_of(&self, a: &AsrSpec) -> Vec<usize> {
        match a.kind.as_str() {
            "single" => vec![a.first],
            "periodic" => (0..self.n / a.stride).map(|j| a.first + a.stride * j).collect(),
            _ => (0..a.count).map(|j| a.first + a.stride * j).collect(),
        }
    }
    pub fn periodic_values<B: StarkField>(&self) -> Vec<Vec<B>> {
        self.periodic
            .iter()
            .enumerate()
            .map(|(idx, &c)| (0..c).map(|j| B::from((17 * idx + 3 * j + 2) as u32)).collect())
            .collect()
    }
    /// next row from the current one (the functional reading of the transition constraints)
    pub fn step_fn<B: StarkField>(&self, cur: &[B], step: usize, pv: &[Vec<B>]) -> Vec<B> {
        let w = self.width;
        if self.is_copy() {
            return cur.to_vec();
        }
        (0..w)
            .map(|i| {
                if self.is_neg(i) {
                    return B::from((i + 1) as u32) - cur[i];
                }
                let p = if self.pcol[i] >= 0 {
                    let col = &pv[self.pcol[i] as usize];
                    col[step % col.len()]
                } else {
                    B::ONE
                };
                cur[i].exp((self.degs[i] as u64).into()) * p + cur[(i + 1) % w] + B::from((i + 1) as u32)
            })
            .collect()
    }
    /// a valid trace: forward execution from a seeded first row; with `free_tail` the rows that no enforced
    /// transition reaches are filled with unrelated values
    pub fn build_trace<B: StarkField>(&self, seed: u64, free_tail: bool, constant: bool) -> Vec<Vec<B>> {
        let mut rng = Rng(seed ^ 0x5eed);
        let pv = self.periodic_values::<B>();
        let mut rows: Vec<Vec<B>> = Vec::with_capacity(self.n);
        rows.push((0..self.width).map(|_| B::from((rng.next() >> 34) as u32 + 2)).collect());
        for j in 0..self.n - 1 {
            let next = self.step_fn(&rows[j], j, &pv);
            rows.push(next);
        }
        // a period-two column satisfies its constraint on every step, so with more than one exemption its constraint
        // polynomial would have a lower degree than declared (a degenerate trace): its tail is always freed, except for
        // the cells that a periodic assertion names (those have to repeat)
        let named = |c: usize, j: usize| self.asserts.iter().any(|a| a.kind == "periodic" && a.col == c && j % a.stride == a.first % a.stride);
        for j in (self.n - self.exempt + 1)..self.n {
            for c in 0..self.width {
                if (free_tail || self.is_neg(c)) && !(self.is_neg(c) && named(c, j)) {
                    rows[j][c] = B::from((rng.next() >> 34) as u32 + 5);
                }
            }
        }
        let _ = constant;
        (0..self.width).map(|c| rows.iter().map(|r| r[c]).collect()).collect()
    }
}

#[derive(Clone, Debug)]
pub struct ShapeInputs<B: StarkField> {
    pub shape: Shape,
    pub values: Vec<Vec<B>>, // asserted values, per assertion
    /// per auxiliary assertion on a running-sum column: the prefix sums of the main column at the named steps
    pub aux_values: Vec<Vec<B>>,
}

impl<B: StarkField> ShapeInputs<B> {
    pub fn from_trace(shape: &Shape, cols: &[Vec<B>]) -> Self {
        let values = shape
            .asserts
            .iter()
            .map(|a| {
                let steps = shape.steps_of(a);
                match a.kind.as_str() {
                    "sequence" => steps.iter().map(|&s| cols[a.col][s]).collect(),
                    _ => vec![cols[a.col][steps[0]]],
                }
            })
            .collect();
        let aux_values = shape
            .aux_asserts
            .iter()
            .map(|a| {
                let col = &cols[a.col % shape.width];
                let prefix = |s: usize| col[..s].iter().fold(B::ZERO, |acc, &x| acc + x);
                let steps = shape.steps_of(a);
                match a.kind.as_str() {
                    "sequence" => steps.iter().map(|&s| prefix(s)).collect(),
                    _ => vec![prefix(steps[0])],
                }
            })
            .collect();
        ShapeInputs { shape: shape.clone(), values, aux_values }
    }
}

impl<B: StarkField> ToElements<B> for ShapeInputs<B> {
    fn to_elements(&self) -> Vec<B> {
        let s = &self.shape;
        let mut v: Vec<B> = vec![B::from(s.n as u32), B::from(s.width as u32), B::from(s.exempt as u32), B::from(s.is_copy() as u32)];
        v.extend(s.degs.iter().map(|&d| B::from(d as u32)));
        v.extend(s.periodic.iter().map(|&d| B::from(d as u32)));
        v.extend(s.pcol.iter().map(|&d| B::from((d + 1) as u32)));
        v.extend(s.neg.iter().map(|&d| B::from(d as u32)));
        for a in &s.asserts {
            let k = match a.kind.as_str() {
                "single" => 1u32,
                "periodic" => 2,
                _ => 3,
            };
            v.extend([B::from(k), B::from(a.col as u32), B::from(a.first as u32), B::from(a.stride as u32), B::from(a.count as u32)]);
        }
        for vals in &self.values {
            v.extend(vals.iter().cloned());
        }
        v.extend(s.aux_degs.iter().map(|&d| B::from(d as u32)));
        v.extend([B::from(s.aux_rands as u32), B::from(s.lagrange as u32)]);
        for a in &s.aux_asserts {
            v.extend([B::from(a.col as u32), B::from(a.first as u32), B::from(a.stride as u32), B::from(a.count as u32), B::from(a.kind.len() as u32)]);
        }
        for vals in &self.aux_values {
            v.extend(vals.iter().cloned());
        }
        v
    }
}

pub struct ShapeAir<B: SField> {
    context: AirContext<B>,
    inputs: ShapeInputs<B>,
}

impl<B: SField> Air for ShapeAir<B> {
    type BaseField = B;
    type PublicInputs = ShapeInputs<B>;
    type GkrProof = usize;
    type GkrVerifier = ShapeGkrVerifier;

    fn new(trace_info: TraceInfo, pub_inputs: ShapeInputs<B>, options: ProofOptions) -> Self {
        let s = &pub_inputs.shape;
        let degrees = (0..s.width)
            .map(|i| {
                if s.is_copy() || s.is_neg(i) {
                    TransitionConstraintDegree::new(1)
                } else if s.pcol[i] >= 0 {
                    TransitionConstraintDegree::with_cycles(s.degs[i], vec![s.periodic[s.pcol[i] as usize]])
                } else {
                    TransitionConstraintDegree::new(s.degs[i])
                }
            })
            .collect();
        let context = if s.aux_width() == 0 {
            AirContext::new(trace_info, degrees, s.asserts.len(), options)
        } else {
            let aux_degrees = s.aux_degs.iter().map(|&d| TransitionConstraintDegree::new(d)).collect();
            let lag = if s.lagrange { Some(s.aux_width() - 1) } else { None };
            AirContext::new_multi_segment(trace_info, degrees, aux_degrees, s.asserts.len(), s.aux_asserts.len(), lag, options)
        }
        .set_num_transition_exemptions(s.exempt);
        ShapeAir { context, inputs: pub_inputs }
    }

    fn context(&self) -> &AirContext<B> {
        &self.context
    }

    fn evaluate_transition<E: FieldElement<BaseField = B>>(&self, frame: &EvaluationFrame<E>, periodic_values: &[E], result: &mut [E]) {
        let s = &self.inputs.shape;
        let cur = frame.current();
        let next = frame.next();
        let w = s.width;
        if s.is_copy() {
            for i in 0..w {
                result[i] = next[i] - cur[i];
            }
            return;
        }
        for i in 0..w {
            if s.is_neg(i) {
                result[i] = next[i] - (E::from((i + 1) as u32) - cur[i]);
                continue;
            }
            let p = if s.pcol[i] >= 0 { periodic_values[s.pcol[i] as usize] } else { E::ONE };
            result[i] = next[i] - (cur[i].exp((s.degs[i] as u64).into()) * p + cur[(i + 1) % w] + E::from((i + 1) as u32));
        }
    }

    fn get_assertions(&self) -> Vec<Assertion<B>> {
        let s = &self.inputs.shape;
        s.asserts
            .iter()
            .zip(self.inputs.values.iter())
            .map(|(a, v)| match a.kind.as_str() {
                "single" => Assertion::single(a.col, a.first, v[0]),
                "periodic" => Assertion::periodic(a.col, a.first, a.stride, v[0]),
                _ => Assertion::sequence(a.col, a.first, a.stride, v.clone()),
            })
            .collect()
    }

    fn get_periodic_column_values(&self) -> Vec<Vec<B>> {
        self.inputs.shape.periodic_values::<B>()
    }

    fn evaluate_aux_transition<F, E>(&self, main_frame: &EvaluationFrame<F>, aux_frame: &EvaluationFrame<E>, _periodic_values: &[F], aux_rand_elements: &[E], result: &mut [E])
    where
        F: FieldElement<BaseField = B>,
        E: FieldElement<BaseField = B> + ExtensionOf<F>,
    {
        let s = &self.inputs.shape;
        for j in 0..s.aux_degs.len() {
            let m: E = main_frame.current()[j % s.width].into();
            let r = s.rand_of(j, aux_rand_elements);
            let cur = aux_frame.current()[j];
            let next = aux_frame.next()[j];
            result[j] = if s.aux_degs[j] == 1 { next - (cur + r * m) } else { next - cur * (m + r).exp(((s.aux_degs[j] - 1) as u32).into()) };
        }
    }

    fn get_aux_assertions<E: FieldElement<BaseField = B>>(&self, aux_rand_elements: &[E]) -> Vec<Assertion<E>> {
        let s = &self.inputs.shape;
        s.aux_asserts
            .iter()
            .zip(self.inputs.aux_values.iter())
            .map(|(a, p)| {
                let r = s.rand_of(a.col, aux_rand_elements);
                let val = |x: B| if s.aux_degs[a.col] == 1 { r * E::from(x) } else { E::ONE };
                match a.kind.as_str() {
                    "single" => Assertion::single(a.col, a.first, val(p[0])),
                    "periodic" => Assertion::periodic(a.col, a.first, a.stride, val(p[0])),
                    _ => Assertion::sequence(a.col, a.first, a.stride, p.iter().map(|&x| val(x)).collect()),
                }
            })
            .collect()
    }

    fn get_auxiliary_proof_verifier<E: FieldElement<BaseField = B>>(&self) -> ShapeGkrVerifier {
        ShapeGkrVerifier { log_n: self.inputs.shape.n.ilog2() as usize }
    }
}

/// Stand-in for the GKR verifier of an AIR with a Lagrange kernel column: the "proof" is log2(trace length), the
/// Lagrange random elements are that many draws from the coin.
#[derive(Debug, Clone, Default)]
pub struct ShapeGkrVerifier {
    log_n: usize,
}

#[derive(Debug)]
pub struct GkrError(String);
impl std::fmt::Display for GkrError {
    fn fmt(&self, f: &mut std::fmt::Formatter<'_>) -> std::fmt::Result {
        write!(f, "{}", self.0)
    }
}

impl GkrVerifier for ShapeGkrVerifier {
    type GkrProof = usize;
    type Error = GkrError;

    fn verify<E, H>(&self, gkr_proof: usize, public_coin: &mut impl RandomCoin<BaseField = E::BaseField, Hasher = H>) -> Result<LagrangeKernelRandElements<E>, GkrError>
    where
        E: FieldElement,
        H: ElementHasher<BaseField = E::BaseField>,
    {
        if gkr_proof != self.log_n {
            return Err(GkrError(format!("gkr proof {} does not match the trace length 2^{}", gkr_proof, self.log_n)));
        }
        let mut r = Vec::with_capacity(self.log_n);
        for _ in 0..self.log_n {
            r.push(public_coin.draw().map_err(|e| GkrError(format!("{e}")))?);
        }
        Ok(LagrangeKernelRandElements::new(r))
    }
}

/// A trace with the TraceInfo of the shape (TraceTable is single-segment only).
pub struct ShapeTrace<B: StarkField> {
    pub main: ColMatrix<B>,
    pub info: TraceInfo,
}

impl<B: StarkField> ShapeTrace<B> {
    pub fn new(shape: &Shape, cols: Vec<Vec<B>>) -> Self {
        ShapeTrace { main: ColMatrix::new(cols), info: shape.trace_info() }
    }
}

impl<B: StarkField> Trace for ShapeTrace<B> {
    type BaseField = B;
    fn info(&self) -> &TraceInfo {
        &self.info
    }
    fn main_segment(&self) -> &ColMatrix<B> {
        &self.main
    }
    fn read_main_frame(&self, row_idx: usize, frame: &mut EvaluationFrame<B>) {
        let next = (row_idx + 1) % self.main.num_rows();
        self.main.read_row_into(row_idx, frame.current_mut());
        self.main.read_row_into(next, frame.next_mut());
    }
}

pub struct ShapeProver<B: SField, H: ElementHasher<BaseField = B>, R: RandomCoin<BaseField = B, Hasher = H>> {
    pub options: ProofOptions,
    pub shape: Shape,
    /// public inputs to claim (normally derived from the trace; overridden by soundness scenarios)
    pub claim: Option<ShapeInputs<B>>,
    /// soundness scenarios: add one to this cell (column, step) of the auxiliary segment after building it
    pub aux_corrupt: Option<(usize, usize)>,
    /// soundness scenarios: the COMMITTED low-degree extension (what the openings come from) is made from a segment whose cell
    /// (auxiliary?, column, step) is one higher, while constraint evaluation, out-of-domain frame and DEEP composition use the
    /// honest polynomials: the opened column is not the polynomial behind the out-of-domain frame
    pub lde_cheat: Option<(bool, usize, usize)>,
    /// soundness scenarios: commit to constraint composition columns that differ from the ones the out-of-domain evaluations are
    /// taken from: with two or more columns, column 0 plus delta and column 1 minus delta (their sum is unchanged), with one
    /// column, column 0 plus delta (delta = 1)
    pub comp_cheat: bool,
    pub _p: PhantomData<(H, R)>,
}

impl<B: SField, H: ElementHasher<BaseField = B> + Sync + Send, R: RandomCoin<BaseField = B, Hasher = H> + Send> Prover for ShapeProver<B, H, R> {
    type BaseField = B;
    type Air = ShapeAir<B>;
    type Trace = ShapeTrace<B>;
    type HashFn = H;
    type RandomCoin = R;
    type TraceLde<E: FieldElement<BaseField = B>> = CheatLde<E, H>;
    type ConstraintEvaluator<'a, E: FieldElement<BaseField = B>> = DefaultConstraintEvaluator<'a, ShapeAir<B>, E>;

    fn get_pub_inputs(&self, trace: &Self::Trace) -> ShapeInputs<B> {
        if let Some(c) = &self.claim {
            return c.clone();
        }
        let cols: Vec<Vec<B>> = (0..trace.main.num_cols()).map(|c| trace.main.get_column(c).to_vec()).collect();
        ShapeInputs::from_trace(&self.shape, &cols)
    }

    fn options(&self) -> &ProofOptions {
        &self.options
    }

    fn new_trace_lde<E: FieldElement<BaseField = B>>(
        &self,
        trace_info: &TraceInfo,
        main_trace: &ColMatrix<B>,
        domain: &StarkDomain<B>,
    ) -> (Self::TraceLde<E>, TracePolyTable<E>) {
        let (honest, polys) = DefaultTraceLde::new(trace_info, main_trace, domain);
        let (junk, aux_cheat) = match self.lde_cheat {
            None => (None, None),
            Some((false, c, i)) => {
                let mut cols: Vec<Vec<B>> = (0..main_trace.num_cols()).map(|k| main_trace.get_column(k).to_vec()).collect();
                cols[c][i] += B::ONE;
                (Some(DefaultTraceLde::new(trace_info, &ColMatrix::new(cols), domain).0), None)
            },
            Some((true, c, i)) => (Some(DefaultTraceLde::new(trace_info, main_trace, domain).0), Some((c, i))),
        };
        (CheatLde { honest, junk, aux_cheat }, polys)
    }

    fn new_evaluator<'a, E: FieldElement<BaseField = B>>(
        &self,
        air: &'a ShapeAir<B>,
        aux_rand_elements: Option<AuxRandElements<E>>,
        composition_coefficients: ConstraintCompositionCoefficients<E>,
    ) -> Self::ConstraintEvaluator<'a, E> {
        DefaultConstraintEvaluator::new(air, aux_rand_elements, composition_coefficients)
    }

    fn build_constraint_commitment<E: FieldElement<BaseField = B>>(
        &self,
        composition_poly_trace: winter_prover::CompositionPolyTrace<E>,
        num_constraint_composition_columns: usize,
        domain: &StarkDomain<B>,
    ) -> (winter_prover::ConstraintCommitment<E, H>, winter_prover::CompositionPoly<E>) {
        use winter_prover::{matrix::RowMatrix, CompositionPoly, ConstraintCommitment};
        let composition_poly = CompositionPoly::new(composition_poly_trace, domain, num_constraint_composition_columns);
        let mut cols: Vec<Vec<E>> = (0..composition_poly.num_columns()).map(|k| composition_poly.data().get_column(k).to_vec()).collect();
        if self.comp_cheat {
            cols[0][0] += E::ONE;
            if cols.len() >= 2 {
                cols[1][0] -= E::ONE;
            }
        }
        let evaluations = RowMatrix::evaluate_polys_over::<8>(&ColMatrix::new(cols), domain);
        let commitment = evaluations.commit_to_rows();
        (ConstraintCommitment::new(evaluations, commitment), composition_poly)
    }

    fn generate_gkr_proof<E: FieldElement<BaseField = B>>(&self, main_trace: &Self::Trace, public_coin: &mut R) -> (ProverGkrProof<Self>, LagrangeKernelRandElements<E>) {
        let log_n = main_trace.main.num_rows().ilog2() as usize;
        let r: Vec<E> = (0..log_n).map(|_| public_coin.draw().expect("draw")).collect();
        (log_n, LagrangeKernelRandElements::new(r))
    }

    fn build_aux_trace<E: FieldElement<BaseField = B>>(&self, main_trace: &Self::Trace, aux_rand_elements: &AuxRandElements<E>) -> ColMatrix<E> {
        let main: Vec<Vec<B>> = (0..main_trace.main.num_cols()).map(|c| main_trace.main.get_column(c).to_vec()).collect();
        let lag: Option<Vec<E>> = aux_rand_elements.lagrange().map(|l| l.as_ref().to_vec());
        let mut cols = self.shape.build_aux::<B, E>(&main, aux_rand_elements.rand_elements(), lag.as_deref());
        if let Some((c, i)) = self.aux_corrupt {
            cols[c][i] += E::ONE;
        }
        ColMatrix::new(cols)
    }
}


/// A trace LDE whose commitment and openings may come from a different segment than the one the prover computes with
/// (soundness scenarios: "the committed column is not the polynomial behind the out-of-domain frame"); with `junk = None`
/// it is the DefaultTraceLde.
pub struct CheatLde<E: FieldElement, H: ElementHasher<BaseField = E::BaseField>> {
    honest: DefaultTraceLde<E, H>,
    junk: Option<DefaultTraceLde<E, H>>,
    aux_cheat: Option<(usize, usize)>,
}

impl<E: FieldElement, H: ElementHasher<BaseField = E::BaseField> + Sync> TraceLde<E> for CheatLde<E, H>
where
    DefaultTraceLde<E, H>: TraceLde<E, HashFn = H>,
{
    type HashFn = H;

    fn get_main_trace_commitment(&self) -> <H as Hasher>::Digest {
        self.junk.as_ref().unwrap_or(&self.honest).get_main_trace_commitment()
    }

    fn set_aux_trace(&mut self, aux_trace: &ColMatrix<E>, domain: &StarkDomain<E::BaseField>) -> (ColMatrix<E>, <H as Hasher>::Digest) {
        let (polys, root) = self.honest.set_aux_trace(aux_trace, domain);
        if let Some(j) = self.junk.as_mut() {
            let mut cols: Vec<Vec<E>> = (0..aux_trace.num_cols()).map(|k| aux_trace.get_column(k).to_vec()).collect();
            if let Some((c, i)) = self.aux_cheat {
                cols[c][i] += E::ONE;
            }
            let (_, jroot) = j.set_aux_trace(&ColMatrix::new(cols), domain);
            return (polys, jroot);
        }
        (polys, root)
    }

    fn read_main_trace_frame_into(&self, lde_step: usize, frame: &mut EvaluationFrame<E::BaseField>) {
        self.honest.read_main_trace_frame_into(lde_step, frame)
    }

    fn read_aux_trace_frame_into(&self, lde_step: usize, frame: &mut EvaluationFrame<E>) {
        self.honest.read_aux_trace_frame_into(lde_step, frame)
    }

    fn read_lagrange_kernel_frame_into(&self, lde_step: usize, col_idx: usize, frame: &mut LagrangeKernelEvaluationFrame<E>) {
        self.honest.read_lagrange_kernel_frame_into(lde_step, col_idx, frame)
    }

    fn query(&self, positions: &[usize]) -> Vec<Queries> {
        self.junk.as_ref().unwrap_or(&self.honest).query(positions)
    }

    fn trace_len(&self) -> usize {
        self.honest.trace_len()
    }

    fn blowup(&self) -> usize {
        self.honest.blowup()
    }

    fn trace_info(&self) -> &TraceInfo {
        self.honest.trace_info()
    }
}
