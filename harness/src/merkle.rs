//! C10: replay of MC_Merkle.tla cases (position lists with their single mutations) on the real MerkleTree /
//! BatchMerkleProof for all six hash functions.
use std::collections::BTreeMap;
use std::io::BufRead;

use serde::Deserialize;
use serde_json::{json, Value};
use winter_crypto::{
    hashers::{Blake3_192, Blake3_256, Rp62_248, Rp64_256, RpJive64_256, Sha3_256},
    BatchMerkleProof, Hasher, MerkleTree,
};
use winter_math::fields::{f128, f62, f64};

use crate::air::Fails;
use crate::common::{arg_value, guarded, panic_key};

#[derive(Deserialize, Clone, Debug, PartialEq, Eq, PartialOrd, Ord)]
struct Mut {
    k: String,
    i: usize,
    j: usize,
    x: usize,
}
#[derive(Deserialize, Clone, Debug)]
struct Case {
    depth: usize,
    ps: Vec<usize>,
    #[serde(default)]
    shape: Vec<usize>,
    #[serde(default)]
    muts: Vec<Mut>,
    #[serde(default)]
    model_accepts: Vec<Mut>,
}

fn leaf<H: Hasher>(i: usize) -> H::Digest {
    H::hash(&[(i & 0xff) as u8, (i >> 8) as u8, 0x1e, 0xaf])
}
fn junk<H: Hasher>(k: usize) -> H::Digest {
    H::hash(&[k as u8, 0x77, 0x6a, 0x75, 0x6e, 0x6b])
}

fn cl<H: Hasher>(p: &BatchMerkleProof<H>) -> BatchMerkleProof<H> {
    BatchMerkleProof { leaves: p.leaves.clone(), nodes: p.nodes.clone(), depth: p.depth }
}
fn same<H: Hasher>(a: &BatchMerkleProof<H>, b: &BatchMerkleProof<H>) -> bool {
    a.leaves == b.leaves && a.nodes == b.nodes && a.depth == b.depth
}

fn apply_mut<H: Hasher>(pr: &BatchMerkleProof<H>, ps: &[usize], m: &Mut) -> (BatchMerkleProof<H>, Vec<usize>) {
    let mut p = cl(pr);
    let mut q = ps.to_vec();
    match m.k.as_str() {
        "leaf" => p.leaves[m.i - 1] = junk::<H>(1),
        "swapleaves" => p.leaves.swap(m.i - 1, m.j - 1),
        "node" => p.nodes[m.i - 1][m.j - 1] = junk::<H>(2),
        "addnode" => p.nodes[m.i - 1].push(junk::<H>(3)),
        "dropnode" => {
            p.nodes[m.i - 1].pop();
        },
        "addvec" => p.nodes.push(vec![]),
        "dropvec" => {
            p.nodes.pop();
        },
        "addleaf" => p.leaves.push(junk::<H>(4)),
        "dropleaf" => {
            p.leaves.pop();
        },
        "depth+1" => p.depth += 1,
        "depth-1" => p.depth -= 1,
        "pos" => q[m.i - 1] = m.x,
        other => panic!("harness: mutation kind {other}"),
    }
    (p, q)
}

struct Stats {
    honest: usize,
    mutated: usize,
    single: usize,
    drift: usize,
}

fn run_case<H: Hasher>(hname: &str, trees: &mut BTreeMap<usize, MerkleTree<H>>, c: &Case, fails: &mut Fails, st: &mut Stats, extremes: bool) {
    let n = 1usize << c.depth;
    let tree = trees.entry(c.depth).or_insert_with(|| MerkleTree::<H>::new((0..n).map(leaf::<H>).collect()).unwrap());
    let root = *tree.root();
    let rp = |what: &str| json!({"hasher": hname, "depth": c.depth, "ps": c.ps, "what": what});
    let key = |a: &str, b: &str| format!("merkle/{hname}/{a}/{b}");
    // ---- honest opening ---------------------------------------------------------------------------
    st.honest += 1;
    let honest = guarded(|| {
        let mut bad: Vec<(String, String)> = vec![];
        let proof = match tree.prove_batch(&c.ps) {
            Ok(p) => p,
            Err(e) => return (None, vec![("prove_batch-error".to_string(), format!("{e}"))]),
        };
        if MerkleTree::<H>::verify_batch(&root, &c.ps, &proof).is_err() {
            bad.push(("honest-rejected".into(), "verify_batch rejects the opening produced by prove_batch".into()));
        }
        match proof.get_root(&c.ps) {
            Ok(r) if r == root => {},
            _ => bad.push(("honest-root".into(), "get_root does not return the tree root".into())),
        }
        // the opening survives its wire form (node vectors as bytes, leaves and depth handed back): what every query set of a proof goes through
        {
            let bytes = proof.serialize_nodes();
            let mut rd = winter_utils::SliceReader::new(&bytes);
            match BatchMerkleProof::<H>::deserialize(&mut rd, proof.leaves.clone(), proof.depth) {
                Ok(back) => {
                    if !same(&back, &proof) {
                        bad.push(("wire-differs".into(), "deserialize(serialize_nodes(opening)) is a different opening".into()));
                    }
                    if winter_utils::ByteReader::has_more_bytes(&rd) {
                        bad.push(("wire-leftover".into(), "deserialize does not consume the bytes serialize_nodes wrote".into()));
                    }
                    if MerkleTree::<H>::verify_batch(&root, &c.ps, &back).is_err() {
                        bad.push(("wire-rejected".into(), "the opening read back from its wire form is rejected".into()));
                    }
                },
                Err(e) => bad.push(("wire-error".into(), format!("the honest opening of {} positions cannot be read back from its wire form: {e}", c.ps.len()))),
            }
        }
        let paths: Vec<Vec<H::Digest>> = c.ps.iter().map(|&p| tree.prove(p).unwrap()).collect();
        for (p, path) in c.ps.iter().zip(paths.iter()) {
            if MerkleTree::<H>::verify(root, *p, path).is_err() {
                bad.push(("single-rejected".into(), format!("verify rejects the path of position {p}")));
            }
            if path[0] != leaf::<H>(*p) || path.len() != c.depth + 1 {
                bad.push(("single-path".into(), format!("path of position {p} does not start with its leaf / has wrong length")));
            }
        }
        match cl(&proof).into_paths(&c.ps) {
            Ok(got) if got == paths => {},
            Ok(_) => bad.push(("into_paths-differs".into(), "into_paths differs from the individual paths".into())),
            Err(e) => bad.push(("into_paths-error".into(), format!("{e}"))),
        }
        let back = BatchMerkleProof::<H>::from_paths(&paths, &c.ps);
        if !same(&back, &proof) {
            // from_paths orders leaves by position; equal as an opening iff it verifies for the sorted positions
            let mut sorted = c.ps.clone();
            sorted.sort();
            let same_sorted = tree.prove_batch(&sorted).map(|p| same(&p, &back)).unwrap_or(false);
            if !same_sorted {
                bad.push(("from_paths-differs".into(), "from_paths(into_paths(opening)) is not the batch opening of the same positions".into()));
            }
        }
        (Some(proof), bad)
    });
    let proof = match honest {
        Ok((p, bad)) => {
            for (k, w) in bad {
                fails.add(key("honest", &k), format!("depth {} positions {:?}: {w}", c.depth, c.ps), rp(&k));
            }
            match p {
                Some(p) => p,
                None => return,
            }
        },
        Err(p) => {
            if p.contains("harness:") {
                eprintln!("{p}");
                std::process::exit(2);
            }
            fails.add(key("honest", &format!("panic@{}", panic_key(&p))), format!("depth {} positions {:?}: {p}", c.depth, c.ps), rp("panic"));
            return;
        },
    };
    let shape: Vec<usize> = proof.nodes.iter().map(|v| v.len()).collect();
    if !c.shape.is_empty() && shape != c.shape {
        st.drift += 1;
    }
    // ---- every single mutation of the batch opening ---------------------------------------------------
    for m in &c.muts {
        st.mutated += 1;
        let (mp, mq) = apply_mut(&proof, &c.ps, m);
        let r = guarded(|| MerkleTree::<H>::verify_batch(&root, &mq, &mp).is_ok());
        let model_accepts = c.model_accepts.contains(m);
        match r {
            Ok(false) => {
                if model_accepts {
                    st.drift += 1;
                }
            },
            Ok(true) => fails.add(
                key("batch", &format!("{}/accepted", m.k)),
                format!("depth {} positions {:?}: opening mutated by {:?} still verifies against the root", c.depth, c.ps, m),
                json!({"hasher": hname, "depth": c.depth, "ps": c.ps, "mutation": format!("{:?}", m)}),
            ),
            Err(p) => fails.add(
                key("batch", &format!("{}/panic@{}", m.k, panic_key(&p))),
                format!("depth {} positions {:?}: verifying the opening mutated by {:?} panics: {p}", c.depth, c.ps, m),
                json!({"hasher": hname, "depth": c.depth, "ps": c.ps, "mutation": format!("{:?}", m)}),
            ),
        }
        // decompression of a mutated opening must not panic either
        if let Err(p) = guarded(|| cl(&mp).into_paths(&mq).is_ok()) {
            fails.add(key("into_paths", &format!("{}/panic@{}", m.k, panic_key(&p))), format!("into_paths on the opening mutated by {:?} panics: {p}", m), rp("into_paths"));
        }
    }
    // ---- single path mutations (first position) ----------------------------------------------------------
    let p0 = c.ps[0];
    let path = tree.prove(p0).unwrap();
    let mut singles: Vec<(String, usize, Vec<H::Digest>)> = vec![];
    for k in 0..path.len() {
        let mut q = path.clone();
        q[k] = junk::<H>(5);
        singles.push((format!("elem"), p0, q));
    }
    let mut q = path.clone();
    q.pop();
    singles.push(("truncated".into(), p0, q));
    let mut q = path.clone();
    q.push(junk::<H>(6));
    singles.push(("extended".into(), p0, q));
    singles.push(("empty".into(), p0, vec![]));
    singles.push(("one".into(), p0, vec![path[0]]));
    for x in 0..(n + 2) {
        if x != p0 {
            singles.push(("position".into(), x, path.clone()));
        }
    }
    singles.push(("position-alias".into(), p0 + n, path.clone()));
    singles.push(("position-alias".into(), p0 + 2 * n, path.clone()));
    singles.push(("position-max".into(), usize::MAX, path.clone()));
    for (kind, pos, q) in singles {
        st.single += 1;
        match guarded(|| MerkleTree::<H>::verify(root, pos, &q).is_ok()) {
            Ok(false) => {},
            Ok(true) => fails.add(key("single", &format!("{kind}/accepted")), format!("depth {} position {p0}: path mutated ({kind}, claimed position {pos}, {} elements) verifies", c.depth, q.len()), rp(&kind)),
            Err(p) => fails.add(key("single", &format!("{kind}/panic@{}", panic_key(&p))), format!("depth {} position {p0}: verify panics on a mutated path ({kind}, position {pos}, {} elements): {p}", c.depth, q.len()), rp(&kind)),
        }
    }
    // ---- extreme shapes ------------------------------------------------------------------------------------
    if extremes {
        for d in [0u8, 31, 32, 63, 64, 65, 200, 255] {
            if d as usize == c.depth {
                continue;
            }
            st.mutated += 1;
            let mut mp = cl(&proof);
            mp.depth = d;
            for (what, r) in [
                ("verify_batch", guarded(|| MerkleTree::<H>::verify_batch(&root, &c.ps, &mp).is_ok())),
                ("into_paths", guarded(|| cl(&mp).into_paths(&c.ps).is_ok() && false)),
            ] {
                match r {
                    Ok(false) => {},
                    Ok(true) => fails.add(key("batch", "depth/accepted"), format!("opening with depth set to {d} verifies"), rp("depth")),
                    Err(p) => fails.add(key(what, &format!("depth/panic@{}", panic_key(&p))), format!("{what} panics on an opening whose depth field is {d}: {p}"), rp("depth")),
                }
            }
        }
        for big in [usize::MAX, usize::MAX - 1, 1usize << 63] {
            let mut q = c.ps.clone();
            q[0] = big;
            st.mutated += 1;
            for (what, r) in [
                ("verify_batch", guarded(|| MerkleTree::<H>::verify_batch(&root, &q, &proof).is_ok())),
                ("into_paths", guarded(|| cl(&proof).into_paths(&q).is_ok() && false)),
            ] {
                match r {
                    Ok(false) => {},
                    Ok(true) => fails.add(key("batch", "bigpos/accepted"), format!("opening with position {big} verifies"), rp("bigpos")),
                    Err(p) => fails.add(key(what, &format!("bigpos/panic@{}", panic_key(&p))), format!("{what} panics on position {big}: {p}"), rp("bigpos")),
                }
            }
        }
    }
}

pub fn main(args: &[String]) -> i32 {
    let path = arg_value(args, "--scenarios").expect("--scenarios");
    let hashers = arg_value(args, "--hashers").unwrap_or("blake3_256,blake3_192,sha3_256,rp62_248,rp64_256,rpjive64_256").to_string();
    let f = std::io::BufReader::new(std::fs::File::open(path).expect("open"));
    let cases: Vec<Case> = f.lines().map(|l| l.unwrap()).filter(|l| !l.trim().is_empty()).map(|l| serde_json::from_str(&l).expect("case")).collect();
    let mut fails = Fails::new();
    let mut st = Stats { honest: 0, mutated: 0, single: 0, drift: 0 };
    macro_rules! go {
        ($name:expr, $H:ty) => {{
            let mut trees: BTreeMap<usize, MerkleTree<$H>> = BTreeMap::new();
            for (i, c) in cases.iter().enumerate() {
                run_case::<$H>($name, &mut trees, c, &mut fails, &mut st, i % 16 == 0);
            }
        }};
    }
    for h in hashers.split(',') {
        match h {
            "blake3_256" => go!("blake3_256", Blake3_256<f128::BaseElement>),
            "blake3_192" => go!("blake3_192", Blake3_192<f64::BaseElement>),
            "sha3_256" => go!("sha3_256", Sha3_256<f62::BaseElement>),
            "rp62_248" => go!("rp62_248", Rp62_248),
            "rp64_256" => go!("rp64_256", Rp64_256),
            "rpjive64_256" => go!("rpjive64_256", RpJive64_256),
            x => panic!("hasher {x}"),
        }
    }
    println!(
        "{}",
        json!({"cases": cases.len(), "honest": st.honest, "mutated_batch": st.mutated, "mutated_single": st.single,
               "spec_drift": st.drift, "failures": fails.to_json()})
    );
    0
}
