//! C14: deterministic intermediate and final results of the code paths that are parallelised under the `concurrent`
//! feature.  The same binary source is built twice (serial / concurrent); each build prints a digest per result; the runner
//! compares the concurrent build under several thread-pool sizes with the serial build byte for byte.
use std::collections::BTreeMap;
use std::marker::PhantomData;

use serde_json::json;
use winter_air::proof::Proof;
use winter_crypto::{
    hashers::{Blake3_256, Rp64_256},
    DefaultRandomCoin, ElementHasher, Hasher, MerkleTree,
};
use winter_math::{add_in_place, batch_inversion, fft, fields::f128, fields::f64, get_power_series, get_power_series_with_offset, mul_acc, FieldElement, StarkField};
use winter_prover::{matrix::{ColMatrix, RowMatrix}, Prover, StarkDomain};
use winter_utils::Serializable;

use crate::common::{arg_value, Rng};
use crate::shape::{AsrSpec, Shape, ShapeInputs, ShapeProver};
use crate::stark::{verify_with, Opts, Scenario};

fn dig(bytes: &[u8]) -> String {
    let d = Blake3_256::<f64::BaseElement>::hash(bytes);
    d.to_bytes().iter().map(|b| format!("{:02x}", b)).collect()
}
fn elems_bytes<E: FieldElement>(v: &[E]) -> Vec<u8> {
    let mut b = Vec::new();
    for e in v {
        e.write_into(&mut b);
    }
    b
}

fn math_part<B: StarkField>(name: &str, out: &mut BTreeMap<String, String>, sizes: &[usize]) {
    let mut rng = Rng(0xabc);
    for &n in sizes {
        let poly: Vec<B> = (0..n).map(|_| B::from(rng.next() as u32) * B::from(rng.next() as u32 | 1)).collect();
        if n.is_power_of_two() {
            let tw = fft::get_twiddles::<B>(n);
            let mut v = poly.clone();
            fft::evaluate_poly(&mut v, &tw);
            out.insert(format!("{name}/evaluate_poly/{n}"), dig(&elems_bytes(&v)));
            let e = fft::evaluate_poly_with_offset(&poly, &tw, B::GENERATOR, 4);
            out.insert(format!("{name}/evaluate_poly_with_offset/{n}x4"), dig(&elems_bytes(&e)));
            let itw = fft::get_inv_twiddles::<B>(n);
            let mut w = poly.clone();
            fft::interpolate_poly(&mut w, &itw);
            out.insert(format!("{name}/interpolate_poly/{n}"), dig(&elems_bytes(&w)));
            let mut w2 = poly.clone();
            fft::interpolate_poly_with_offset(&mut w2, &itw, B::GENERATOR);
            out.insert(format!("{name}/interpolate_poly_with_offset/{n}"), dig(&elems_bytes(&w2)));
            // offsets other than the generator: one (the subgroup itself), minus one, an arbitrary element
            for (oname, off) in [("one", B::ONE), ("minus-one", -B::ONE), ("other", poly[0] + B::ONE)] {
                if off == B::ZERO {
                    continue;
                }
                let mut w3 = v.clone();
                fft::interpolate_poly_with_offset(&mut w3, &itw, off);
                out.insert(format!("{name}/interpolate_poly_with_offset[{oname}]/{n}"), dig(&elems_bytes(&w3)));
                for blowup in [1usize, 2, 8] {
                    let e = fft::evaluate_poly_with_offset(&poly, &tw, off, blowup);
                    out.insert(format!("{name}/evaluate_poly_with_offset[{oname}]/{n}x{blowup}"), dig(&elems_bytes(&e)));
                }
            }
            out.insert(format!("{name}/twiddles/{n}"), dig(&elems_bytes(&tw)));
        }
        out.insert(format!("{name}/power_series/{n}"), dig(&elems_bytes(&get_power_series(poly[0], n))));
        out.insert(format!("{name}/power_series_offset/{n}"), dig(&elems_bytes(&get_power_series_with_offset(poly[0], poly[1 % n], n))));
        let mut vals = poly.clone();
        // zeros (preserved by batch inversion) in the middle, at both ends and on both sides of the first batch boundaries
        for z in [n / 2, 0, n - 1, 1023, 1024, 2047, 2048] {
            if z < n && n >= 8 {
                vals[z] = B::ZERO;
            }
        }
        out.insert(format!("{name}/batch_inversion/{n}"), dig(&elems_bytes(&batch_inversion(&vals))));
        let mut a = poly.clone();
        add_in_place(&mut a, &vals);
        out.insert(format!("{name}/add_in_place/{n}"), dig(&elems_bytes(&a)));
        let mut m = poly.clone();
        mul_acc(&mut m, &vals, poly[0]);
        out.insert(format!("{name}/mul_acc/{n}"), dig(&elems_bytes(&m)));
    }
}

fn merkle_part<H: Hasher>(name: &str, out: &mut BTreeMap<String, String>, sizes: &[usize]) {
    for &n in sizes {
        let leaves: Vec<H::Digest> = (0..n).map(|i| H::hash(&[(i & 255) as u8, (i >> 8) as u8, 3])).collect();
        let tree = MerkleTree::<H>::new(leaves).unwrap();
        let mut b = tree.root().to_bytes();
        for p in [0usize, 1, n / 2, n - 1] {
            for d in tree.prove(p).unwrap() {
                b.extend(d.to_bytes());
            }
        }
        let mut positions = vec![0, 1, n / 3, n - 1];
        positions.sort_unstable();
        positions.dedup();
        let bp = tree.prove_batch(&positions).unwrap();
        b.extend(bp.serialize_nodes());
        out.insert(format!("merkle/{name}/{n}"), dig(&b));
    }
}

fn matrix_part(out: &mut BTreeMap<String, String>) {
    type B = f64::BaseElement;
    let mut rng = Rng(0x77);
    for (n, cols, blowup) in [(512usize, 3usize, 4usize), (1024, 9, 2), (2048, 2, 8)] {
        let polys: Vec<Vec<B>> = (0..cols).map(|_| (0..n).map(|_| B::from(rng.next() as u32)).collect()).collect();
        let cm = ColMatrix::new(polys);
        let domain = StarkDomain::from_twiddles(fft::get_twiddles::<B>(n), blowup, B::GENERATOR);
        let rm = RowMatrix::<B>::evaluate_polys_over::<8>(&cm, &domain);
        out.insert(format!("matrix/row_lde/{n}x{cols}x{blowup}"), dig(&elems_bytes(rm.data())));
        let tree = rm.commit_to_rows::<Blake3_256<B>>();
        out.insert(format!("matrix/row_commit/{n}x{cols}x{blowup}"), dig(&tree.root().to_bytes()));
        let cm2 = cm.evaluate_columns_over(&domain);
        let mut b = Vec::new();
        for c in 0..cols {
            b.extend(elems_bytes(cm2.get_column(c)));
        }
        out.insert(format!("matrix/col_lde/{n}x{cols}x{blowup}"), dig(&b));
        let ip = cm2.interpolate_columns();
        let mut b2 = Vec::new();
        for c in 0..cols {
            b2.extend(elems_bytes(ip.get_column(c)));
        }
        out.insert(format!("matrix/col_interpolate/{n}x{cols}x{blowup}"), dig(&b2));
    }
}

fn prover_part<H: ElementHasher<BaseField = f64::BaseElement> + Sync + Send>(name: &str, out: &mut BTreeMap<String, String>, ns: &[usize]) {
    type B = f64::BaseElement;
    // (the constraint-evaluation domain is trace length x 2 for these shapes: 4096 is the first length evaluated in fragments)
    // every length with a short periodic cycle; the lengths whose constraint-evaluation domain is cut into fragments (>= 8192
    // rows) also with a cycle of half the trace length on a second column: longer than a fragment for every pool of 3 or more
    let variants: Vec<(usize, bool)> = ns.iter().flat_map(|&n| if n >= 2048 { vec![(n, false), (n, true)] } else { vec![(n, false)] }).collect();
    for (n, long_cycle) in variants {
        let tag = if long_cycle { format!("{n}-cycle{}", n / 2) } else { format!("{n}") };
        let shape = Shape {
            n,
            width: 3,
            degs: vec![1, 2, 3],
            periodic: if long_cycle { vec![8, n / 2] } else { vec![8] },
            pcol: if long_cycle { vec![1, 0, -1] } else { vec![-1, 0, -1] },
            asserts: vec![
                AsrSpec { kind: "single".into(), col: 0, first: 0, stride: 0, count: 1 },
                AsrSpec { kind: "sequence".into(), col: 2, first: 1, stride: 2, count: n / 2 },
            ],
            exempt: 2,
            mode: "std".into(),
            neg: vec![],
            aux_degs: vec![1, 2],
            aux_rands: 2,
            lagrange: true,
            meta: vec![],
            aux_asserts: vec![
                AsrSpec { kind: "single".into(), col: 0, first: n - 1, stride: 0, count: 1 },
                AsrSpec { kind: "single".into(), col: 1, first: 0, stride: 0, count: 1 },
            ],
        };
        let sc = Scenario {
            id: n as u64,
            field: "f64".into(),
            hasher: name.into(),
            ext: 2,
            shape: shape.clone(),
            opts: Opts { q: 20, blowup: 4, grind: 0, fold: 4, rem: 31 },
            seed: 5,
            free_tail: true,
            corrupt: None,
            aux_corrupt: None,
            lde_cheat: None,
            lde_cheats: vec![],
            comp_cheat: false,
            expect: String::new(),
            corruptions: vec![],
            aux_corruptions: vec![],
            stmt: None,
            ccols: 0,
            layers: 0,
        };
        let cols = shape.build_trace::<B>(5, true, false);
        let inputs = ShapeInputs::from_trace(&shape, &cols);
        let prover = ShapeProver::<B, H, DefaultRandomCoin<H>> { options: crate::stark::options_of(&sc), shape: shape.clone(), claim: None, aux_corrupt: None, lde_cheat: None, comp_cheat: false, _p: PhantomData };
        let proof: Proof = prover.prove(crate::shape::ShapeTrace::new(&shape, cols)).unwrap();
        // deterministic parts: all commitments (trace, constraint, FRI layers, remainder) and the out-of-domain frame
        out.insert(format!("prover/{name}/{tag}/commitments"), dig(&proof.commitments.to_bytes()));
        out.insert(format!("prover/{name}/{tag}/ood_frame"), dig(&proof.ood_frame.to_bytes()));
        out.insert(format!("prover/{name}/{tag}/context"), dig(&proof.context.to_bytes()));
        let ok = verify_with::<B, H, DefaultRandomCoin<H>>(proof, inputs).is_ok();
        out.insert(format!("prover/{name}/{tag}/verifies"), format!("{ok}"));
    }
}

pub fn main(args: &[String]) -> i32 {
    let thorough = args.iter().any(|a| a == "--thorough");
    let _ = arg_value(args, "--dummy");
    let mut out: BTreeMap<String, String> = BTreeMap::new();
    if args.iter().any(|a| a == "--light") {
        // the cheap transforms / vector utilities / trees around the thresholds only: run for every pool size 1..64
        math_part::<f64::BaseElement>("f64", &mut out, &[1024, 2048, 2049, 4096, 8193]);
        merkle_part::<Blake3_256<f64::BaseElement>>("blake3_256", &mut out, &[1024, 2048, 4096]);
        // the public node builder of the concurrent build on trees below its usual threshold (pools larger than the number of
        // sub-trees the tree can be cut into); the serial build takes the root of MerkleTree::new
        for n in [128usize, 256, 512, 1024] {
            type H = Blake3_256<f64::BaseElement>;
            let leaves: Vec<<H as Hasher>::Digest> = (0..n).map(|i| H::hash(&[(i & 255) as u8, (i >> 8) as u8, 9])).collect();
            #[cfg(feature = "concurrent")]
            let root = winter_crypto::concurrent::build_merkle_nodes::<H>(&leaves)[1];
            #[cfg(not(feature = "concurrent"))]
            let root = *MerkleTree::<H>::new(leaves).unwrap().root();
            out.insert(format!("merkle/build_merkle_nodes/{n}"), dig(&root.to_bytes()));
        }
        // wide, short matrices: the row-major LDE is transposed in 2 * next_pow2(threads) batches once it has 1024 cells, which
        // can be more batches than it has rows
        // ... and matrices whose number of 8-column segments is not a power of two (3, 5, 7, 9 segments) with 1024..4096 LDE rows: a batch
        // count derived from the number of cells is then not a divisor of the number of rows
        for (n, cols, blowup) in [(8usize, 136usize, 8usize), (8, 255, 4), (16, 130, 4), (16, 60, 8), (256, 17, 4), (512, 24, 4), (256, 40, 8), (128, 50, 8), (512, 65, 8)] {
            type B = f64::BaseElement;
            let mut rng = Rng(0x99);
            let polys: Vec<Vec<B>> = (0..cols).map(|_| (0..n).map(|_| B::from(rng.next() as u32)).collect()).collect();
            let cm = ColMatrix::new(polys);
            let domain = StarkDomain::from_twiddles(fft::get_twiddles::<B>(n), blowup, B::GENERATOR);
            let rm = RowMatrix::<B>::evaluate_polys_over::<8>(&cm, &domain);
            out.insert(format!("matrix/row_lde/{n}x{cols}x{blowup}"), dig(&elems_bytes(rm.data())));
        }
        println!("{}", json!({"concurrent": cfg!(feature = "concurrent"), "threads": std::env::var("RAYON_NUM_THREADS").unwrap_or_default(), "results": out}));
        return 0;
    }
    // lengths on both sides of the 1024-element threshold, and lengths that are not a multiple of the batch size once the
    // batches are large enough to be handed to the pool (1024 * next_pow2(threads) + 1: the last batch is a short one)
    let sizes: Vec<usize> = if thorough { vec![8, 512, 1023, 1024, 1025, 2048, 2049, 3000, 4096, 4097, 5000, 8192, 8193, 16385, 65537] } else { vec![512, 1023, 1024, 1025, 2048, 2049, 4096, 4097, 8193] };
    math_part::<f64::BaseElement>("f64", &mut out, &sizes);
    math_part::<f128::BaseElement>("f128", &mut out, if thorough { &sizes } else { &sizes[1..4] });
    let msizes: Vec<usize> = if thorough { vec![2, 512, 1024, 2048, 4096, 8192] } else { vec![512, 1024, 2048, 4096] };
    merkle_part::<Blake3_256<f64::BaseElement>>("blake3_256", &mut out, &msizes);
    merkle_part::<Rp64_256>("rp64_256", &mut out, if thorough { &msizes } else { &msizes[1..3] });
    matrix_part(&mut out);
    prover_part::<Blake3_256<f64::BaseElement>>("blake3_256", &mut out, if thorough { &[512, 1024, 2048, 4096, 8192] } else { &[512, 2048, 4096] });
    println!("{}", json!({"concurrent": cfg!(feature = "concurrent"), "threads": std::env::var("RAYON_NUM_THREADS").unwrap_or_default(), "results": out}));
    0
}
