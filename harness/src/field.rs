//! C07: executes TLC-generated operation sequences on the three base fields and records every result (canonical
//! integer, serialized bytes, equality / hash relations) for Trace_Field.tla, which recomputes each result with
//! integer arithmetic modulo the prime.
use std::io::{BufRead, Write};

use serde::Deserialize;
use serde_json::{json, Value};
use winter_crypto::{hashers::Blake3_256, ElementHasher};
use winter_math::{fields::f128, fields::f62, fields::f64, FieldElement, StarkField};
use winter_utils::{Deserializable, Serializable};

use crate::common::{arg_value, guarded, panic_key};

#[derive(Deserialize, Clone, Debug)]
struct Init {
    kind: String, // new | mont
    v: Vec<u8>,   // little-endian integer
}
#[derive(Deserialize, Clone, Debug)]
struct Op {
    op: String,
    d: usize,
    a: usize,
    b: usize,
    #[serde(default)]
    e: Vec<u8>,
}
#[derive(Deserialize, Clone, Debug)]
struct Scn {
    inits: Vec<Init>,
    ops: Vec<Op>,
}

pub trait Fx: StarkField {
    fn from_le(v: &[u8]) -> Self;
    fn from_mont_le(v: &[u8]) -> Option<Self>;
    fn mul_small_(self, _k: u32) -> Option<Self> {
        None
    }
    fn exp_le(self, e: &[u8]) -> Self;
    fn exp_vartime_le(self, e: &[u8]) -> Self;
    /// integer -> element conversions offered by this field for the integer v: (name, bits of the source type, fallible, result)
    fn convs_to(v: u128) -> Vec<(&'static str, u32, bool, Option<Self>)>;
    /// element -> integer conversions: (name, bits of the target type, result)
    fn convs_from(self) -> Vec<(&'static str, u32, Option<u128>)>;
}
macro_rules! to_total {
    ($out:ident, $v:ident, $t:ty, $bits:expr, $name:expr) => {
        if $v < (1u128 << $bits) {
            $out.push(($name, $bits, false, Some(Self::from($v as $t))));
        }
    };
}
macro_rules! to_try {
    ($out:ident, $v:ident, $t:ty, $bits:expr, $name:expr) => {
        if $bits == 128 || $v < (1u128 << ($bits % 128)) {
            $out.push(($name, $bits, true, Self::try_from($v as $t).ok()));
        }
    };
}
fn le_u64(v: &[u8]) -> u64 {
    let mut b = [0u8; 8];
    b[..v.len().min(8)].copy_from_slice(&v[..v.len().min(8)]);
    u64::from_le_bytes(b)
}
fn le_u128(v: &[u8]) -> u128 {
    let mut b = [0u8; 16];
    b[..v.len().min(16)].copy_from_slice(&v[..v.len().min(16)]);
    u128::from_le_bytes(b)
}
impl Fx for f62::BaseElement {
    fn convs_to(v: u128) -> Vec<(&'static str, u32, bool, Option<Self>)> {
        let mut o = vec![];
        to_total!(o, v, u8, 8, "From<u8>");
        to_total!(o, v, u16, 16, "From<u16>");
        to_total!(o, v, u32, 32, "From<u32>");
        to_try!(o, v, u64, 64, "TryFrom<u64>");
        to_try!(o, v, u128, 128, "TryFrom<u128>");
        if v < (1u128 << 64) {
            o.push(("TryFrom<[u8; 8]>", 64, true, Self::try_from((v as u64).to_le_bytes()).ok()));
            o.push(("new(u64)", 64, false, Some(Self::new(v as u64))));
        }
        o
    }
    fn convs_from(self) -> Vec<(&'static str, u32, Option<u128>)> {
        vec![("u64::from", 64, Some(u64::from(self) as u128)), ("u128::from", 128, Some(u128::from(self))), ("as_int", 64, Some(self.as_int() as u128))]
    }
    fn from_le(v: &[u8]) -> Self {
        f62::BaseElement::new(le_u64(v))
    }
    fn from_mont_le(_v: &[u8]) -> Option<Self> {
        None
    }
    fn exp_le(self, e: &[u8]) -> Self {
        self.exp(le_u64(e))
    }
    fn exp_vartime_le(self, e: &[u8]) -> Self {
        self.exp_vartime(le_u64(e))
    }
}
impl Fx for f64::BaseElement {
    fn convs_to(v: u128) -> Vec<(&'static str, u32, bool, Option<Self>)> {
        let mut o = vec![];
        if v < 2 {
            o.push(("From<bool>", 1, false, Some(Self::from(v == 1))));
        }
        to_total!(o, v, u8, 8, "From<u8>");
        to_total!(o, v, u16, 16, "From<u16>");
        to_total!(o, v, u32, 32, "From<u32>");
        to_try!(o, v, u64, 64, "TryFrom<u64>");
        to_try!(o, v, u128, 128, "TryFrom<u128>");
        if v < (1u128 << 64) {
            o.push(("TryFrom<usize>", 64, true, Self::try_from(v as usize).ok()));
            o.push(("TryFrom<[u8; 8]>", 64, true, Self::try_from((v as u64).to_le_bytes()).ok()));
            o.push(("new(u64)", 64, false, Some(Self::new(v as u64))));
        }
        o
    }
    fn convs_from(self) -> Vec<(&'static str, u32, Option<u128>)> {
        vec![("bool::try_from", 1, bool::try_from(self).ok().map(|b| b as u128)), ("u8::try_from", 8, u8::try_from(self).ok().map(|x| x as u128)),
             ("u16::try_from", 16, u16::try_from(self).ok().map(|x| x as u128)), ("u32::try_from", 32, u32::try_from(self).ok().map(|x| x as u128)),
             ("u64::from", 64, Some(u64::from(self) as u128)), ("u128::from", 128, Some(u128::from(self))), ("as_int", 64, Some(self.as_int() as u128))]
    }
    fn from_le(v: &[u8]) -> Self {
        f64::BaseElement::new(le_u64(v))
    }
    fn from_mont_le(v: &[u8]) -> Option<Self> {
        Some(f64::BaseElement::from_mont(le_u64(v)))
    }
    fn mul_small_(self, k: u32) -> Option<Self> {
        Some(self.mul_small(k))
    }
    fn exp_le(self, e: &[u8]) -> Self {
        self.exp(le_u64(e))
    }
    fn exp_vartime_le(self, e: &[u8]) -> Self {
        self.exp_vartime(le_u64(e))
    }
}
impl Fx for f128::BaseElement {
    fn convs_to(v: u128) -> Vec<(&'static str, u32, bool, Option<Self>)> {
        let mut o = vec![];
        to_total!(o, v, u8, 8, "From<u8>");
        to_total!(o, v, u16, 16, "From<u16>");
        to_total!(o, v, u32, 32, "From<u32>");
        to_total!(o, v, u64, 64, "From<u64>");
        to_try!(o, v, u128, 128, "TryFrom<u128>");
        o.push(("new(u128)", 128, false, Some(Self::new(v))));
        o
    }
    fn convs_from(self) -> Vec<(&'static str, u32, Option<u128>)> {
        vec![("as_int", 128, Some(self.as_int()))]
    }
    fn from_le(v: &[u8]) -> Self {
        f128::BaseElement::new(le_u128(v))
    }
    fn from_mont_le(_v: &[u8]) -> Option<Self> {
        None
    }
    fn exp_le(self, e: &[u8]) -> Self {
        self.exp(le_u128(e))
    }
    fn exp_vartime_le(self, e: &[u8]) -> Self {
        self.exp_vartime(le_u128(e))
    }
}

fn int_bytes<B: StarkField>(x: B) -> Vec<u8>
where
    B::PositiveInteger: WriteInt,
{
    // canonical integer through the public conversion, as little-endian bytes
    let mut v = Vec::new();
    WriteInt::write_into(&x.as_int(), &mut v);
    v
}
trait WriteInt {
    fn write_into(&self, v: &mut Vec<u8>);
}
impl WriteInt for u64 {
    fn write_into(&self, v: &mut Vec<u8>) {
        v.extend(self.to_le_bytes())
    }
}
impl WriteInt for u128 {
    fn write_into(&self, v: &mut Vec<u8>) {
        v.extend(self.to_le_bytes())
    }
}

fn run_field<B: Fx>(name: &str, scns: &[Scn], out: &mut dyn Write, progress: &mut dyn Write)
where
    B::PositiveInteger: WriteInt,
{
    writeln!(out, "{}", json!({"ev": "field", "name": name, "modulus": B::get_modulus_le_bytes(), "generator": int_bytes(B::GENERATOR),
        "two_adicity": B::TWO_ADICITY, "root": int_bytes(B::TWO_ADIC_ROOT_OF_UNITY), "elem_bytes": B::ELEMENT_BYTES,
        "modulus_bits": B::MODULUS_BITS, "zero": int_bytes(B::ZERO), "one": int_bytes(B::ONE)})).unwrap();
    for (si, s) in scns.iter().enumerate() {
        let mut regs: Vec<B> = vec![];
        for i in &s.inits {
            let e = match i.kind.as_str() {
                "mont" => match B::from_mont_le(&i.v) {
                    Some(e) => e,
                    None => B::from_le(&i.v),
                },
                _ => B::from_le(&i.v),
            };
            let kind = if i.kind == "mont" && B::from_mont_le(&i.v).is_some() { "mont" } else { "new" };
            // decoding the same bytes through the three byte-level entry points: each succeeds exactly for values below the modulus
            let dec = |r: Option<B>| json!({"ok": r.is_some(), "r": r.map(|x| int_bytes(x)).unwrap_or_default()});
            let vb = &i.v[..B::ELEMENT_BYTES.min(i.v.len())];
            let decs = json!({"try_from": dec(B::try_from(vb).ok()), "random": dec(<B as winter_utils::Randomizable>::from_random_bytes(vb)),
                              "read": dec(B::read_from_bytes(vb).ok())});
            writeln!(out, "{}", json!({"ev": "init", "kind": kind, "v": i.v, "r": int_bytes(e), "dec": decs})).unwrap();
            regs.push(e);
        }
        for (oi, o) in s.ops.iter().enumerate() {
            writeln!(progress, "{name} scenario {si} op {oi} {} a={:?} b={:?}", o.op, int_bytes(regs[o.a]), int_bytes(regs[o.b])).unwrap();
            progress.flush().unwrap();
            let (a, b) = (regs[o.a], regs[o.b]);
            let r = guarded(|| match o.op.as_str() {
                "add" => Some(a + b),
                "sub" => Some(a - b),
                "mul" => Some(a * b),
                "div" => Some(a / b),
                "neg" => Some(-a),
                "double" => Some(a.double()),
                "square" => Some(a.square()),
                "cube" => Some(a.cube()),
                "inv" => Some(a.inv()),
                "conj" => Some(a.conjugate()),
                "exp" => Some(a.exp_le(&o.e)),
                "exp_vartime" => Some(a.exp_vartime_le(&o.e)),
                "mul_small" => a.mul_small_(le_u64(&o.e) as u32),
                "add_assign" => {
                    let mut x = a;
                    x += b;
                    Some(x)
                },
                "sub_assign" => {
                    let mut x = a;
                    x -= b;
                    Some(x)
                },
                "mul_assign" => {
                    let mut x = a;
                    x *= b;
                    Some(x)
                },
                "bytes_roundtrip" => B::read_from_bytes(&a.to_bytes()).ok(),
                x => panic!("harness: field op {x}"),
            });
            let r = match r {
                Ok(Some(r)) => r,
                Ok(None) => continue, // operation not offered by this field
                Err(p) => {
                    if p.contains("harness:") {
                        eprintln!("{p}");
                        std::process::exit(2);
                    }
                    writeln!(out, "{}", json!({"ev": "panic", "op": o.op, "a": int_bytes(a), "b": int_bytes(b), "what": panic_key(&p)})).unwrap();
                    continue;
                },
            };
            regs[o.d] = r;
            // the representation-independent observers: a freshly constructed element of the same residue
            let fresh = B::from_le(&int_bytes(r));
            let ser = r.to_bytes();
            let eqm: Vec<Vec<bool>> = regs.iter().map(|x| regs.iter().map(|y| x == y).collect()).collect();
            let hash_eq = Blake3_256::<B>::hash_elements(&[r]) == Blake3_256::<B>::hash_elements(&[fresh]);
            writeln!(out, "{}", json!({"ev": "op", "op": o.op, "a": int_bytes(a), "b": int_bytes(b), "e": o.e, "r": int_bytes(r),
                "ser": ser, "fresh_eq": r == fresh, "ser_eq": ser == fresh.to_bytes(), "hash_eq": hash_eq,
                "bytes_eq": B::elements_as_bytes(&[r]) == B::elements_as_bytes(&[fresh]) || !B::IS_CANONICAL,
                "regs": regs.iter().map(|x| int_bytes(*x)).collect::<Vec<_>>(), "eqm": eqm})).unwrap();
        }
    }
}

/// "conv" events: every integer <-> element conversion of the field for the integers of Gen_Field (Mode "convs")
fn run_convs<B: Fx>(convs: &[Vec<u8>], out: &mut dyn Write)
where
    B::PositiveInteger: WriteInt,
{
    for vb in convs {
        let v = le_u128(vb);
        let r = guarded(|| {
            let to: Vec<Value> = B::convs_to(v).into_iter().map(|(n, bits, fallible, r)| json!({"name": n, "bits": bits, "fallible": fallible, "ok": r.is_some(),
                "r": r.map(|x| int_bytes(x)).unwrap_or_default()})).collect();
            // the element of this integer's residue class through the reducing constructor, then every conversion back
            let e = B::from_le(&vb[..B::ELEMENT_BYTES.min(vb.len())]);
            let from: Vec<Value> = e.convs_from().into_iter().map(|(n, bits, r)| json!({"name": n, "bits": bits, "ok": r.is_some(),
                "r": r.map(|x| x.to_le_bytes().to_vec()).unwrap_or_default()})).collect();
            json!({"ev": "conv", "v": vb, "to": to, "src": &vb[..B::ELEMENT_BYTES.min(vb.len())], "elem": int_bytes(e), "from": from})
        });
        match r {
            Ok(e) => writeln!(out, "{}", e).unwrap(),
            Err(p) => writeln!(out, "{}", json!({"ev": "panic", "op": "conv", "a": vb, "b": [], "what": panic_key(&p)})).unwrap(),
        }
    }
}

pub fn main(args: &[String]) -> i32 {
    let path = arg_value(args, "--scenarios").expect("--scenarios");
    let field = arg_value(args, "--field").expect("--field");
    let outp = arg_value(args, "--out").expect("--out");
    let f = std::io::BufReader::new(std::fs::File::open(path).expect("open"));
    let lines: Vec<String> = f.lines().map(|l| l.unwrap()).filter(|l| !l.trim().is_empty()).collect();
    let convs: Vec<Vec<u8>> = lines.iter().filter(|l| l.contains("\"convs\"")).flat_map(|l| {
        let v: Value = serde_json::from_str(l).expect("convs");
        serde_json::from_value::<Vec<Vec<u8>>>(v["convs"].clone()).expect("convs list")
    }).collect();
    let scns: Vec<Scn> = lines.iter().filter(|l| !l.contains("\"convs\"")).map(|l| serde_json::from_str(l).expect("scn")).collect();
    let mut out = std::io::BufWriter::new(std::fs::File::create(outp).unwrap());
    let mut progress = std::fs::File::create(format!("{outp}.progress")).unwrap();
    match field {
        "f62" => run_field::<f62::BaseElement>("f62", &scns, &mut out, &mut progress),
        "f64" => run_field::<f64::BaseElement>("f64", &scns, &mut out, &mut progress),
        "f128" => run_field::<f128::BaseElement>("f128", &scns, &mut out, &mut progress),
        _ => return 2,
    }
    match field {
        "f62" => run_convs::<f62::BaseElement>(&convs, &mut out),
        "f64" => run_convs::<f64::BaseElement>(&convs, &mut out),
        _ => run_convs::<f128::BaseElement>(&convs, &mut out),
    }
    out.flush().unwrap();
    println!("{}", json!({"scenarios": scns.len()}));
    0
}

// ---------------------------------------------------------------------------------------------
// mass screening: the boundary classes of Gen_Field cannot reach operand sets of measure 2^-20 .. 2^-25 (an accumulator of the
// binary inversion that needs one more reduction, a window of intermediate values ...).  The screen runs many uniformly random
// operands through identities that use only the library's own operations and turns every operand set that fails one - plus a
// few that do not - into an ordinary scenario; the verdict is TLC's, on the recorded results, like for every other scenario.
// ---------------------------------------------------------------------------------------------
fn screen<B: Fx>(n: u64, seed: u64, threads: u64) -> Vec<Value>
where
    B::PositiveInteger: WriteInt,
{
    let results: Vec<Vec<(B, B, bool)>> = std::thread::scope(|sc| {
        let hs: Vec<_> = (0..threads)
            .map(|t| {
                sc.spawn(move || {
                    let mut rng = crate::common::Rng(seed.wrapping_mul(0x9E37).wrapping_add(t));
                    let mut found: Vec<(B, B, bool)> = vec![];
                    let mut draw = |rng: &mut crate::common::Rng| -> B {
                        let mut bytes = rng.u128().to_le_bytes().to_vec();
                        bytes.truncate(B::ELEMENT_BYTES);
                        // uniform below 2^bits, rejected above the modulus
                        if B::MODULUS_BITS % 8 != 0 {
                            let last = bytes.len() - 1;
                            bytes[last] &= (1u16 << (B::MODULUS_BITS % 8)) as u8 - 1;
                        }
                        B::read_from_bytes(&bytes).unwrap_or(B::ONE)
                    };
                    for i in 0..n / threads {
                        let x = draw(&mut rng);
                        let y = draw(&mut rng);
                        let r = guarded(|| {
                            let xi = x.inv();
                            (x == B::ZERO || x * xi == B::ONE)
                                && (x == B::ZERO || (y / x) * x == y)
                                && x.double() == x + x
                                && x.square() == x * x
                                && (x + y) - y == x
                                && (x - y) + y == x
                                && x + (-x) == B::ZERO
                                && x.cube() == x * x * x
                        });
                        let bad = !matches!(r, Ok(true));
                        if (bad && found.len() < 24) || (i < 1 && t < 4) {
                            found.push((x, y, bad));
                        }
                    }
                    found
                })
            })
            .collect();
        hs.into_iter().map(|h| h.join().unwrap()).collect()
    });
    let op = |op: &str, d: usize, a: usize, b: usize| json!({"op": op, "d": d, "a": a, "b": b, "e": []});
    let mut out = vec![];
    let mut suspects = 0;
    for (x, y, bad) in results.into_iter().flatten() {
        if bad {
            suspects += 1;
            if suspects > 24 {
                continue;
            }
        }
        let ini = |v: Vec<u8>| json!({"kind": "new", "v": v});
        out.push(json!({"screen": true, "suspect": bad,
            "inits": [ini(int_bytes(x)), ini(int_bytes(y)), ini(int_bytes(B::from(3u8))), ini(int_bytes(x))],
            "ops": [op("inv", 3, 0, 0), op("mul", 2, 0, 3), op("div", 2, 1, 0), op("mul", 2, 2, 0), op("double", 2, 0, 0), op("square", 2, 0, 0),
                    op("cube", 2, 0, 0), op("add", 2, 0, 1), op("sub", 2, 2, 1), op("neg", 2, 0, 0), op("sub", 2, 0, 1), op("add", 2, 2, 1)]}));
    }
    out
}

pub fn main_screen(args: &[String]) -> i32 {
    let field = arg_value(args, "--field").expect("--field");
    let n: u64 = arg_value(args, "--n").and_then(|s| s.parse().ok()).unwrap_or(1_000_000);
    let seed: u64 = arg_value(args, "--seed").and_then(|s| s.parse().ok()).unwrap_or(1);
    let threads: u64 = arg_value(args, "--threads").and_then(|s| s.parse().ok()).unwrap_or(8);
    let scns = match field {
        "f62" => screen::<f62::BaseElement>(n, seed, threads),
        "f64" => screen::<f64::BaseElement>(n, seed, threads),
        "f128" => screen::<f128::BaseElement>(n, seed, threads),
        _ => return 2,
    };
    for s in &scns {
        println!("{}", s);
    }
    0
}
