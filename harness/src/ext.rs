//! C08: executes TLC-generated operand pairs on the real extension fields and records all results for Trace_Ext.tla.
use std::io::{BufRead, Write};

use serde::Deserialize;
use serde_json::{json, Value};
use winter_math::{
    fields::{f128, f62, f64, CubeExtension, QuadExtension},
    ExtensionOf, FieldElement, StarkField,
};
use winter_utils::{Deserializable, Serializable};

use crate::common::{arg_value, guarded, panic_key, Rng};

#[derive(Deserialize, Clone, Debug)]
struct Scn {
    x: Vec<Vec<u8>>,
    y: Vec<Vec<u8>>,
    b: Vec<u8>,
    b2: Vec<u8>,
}

fn base<B: StarkField>(v: &[u8]) -> B {
    B::read_from_bytes(v).unwrap_or_else(|_| panic!("harness: non-canonical coefficient"))
}
fn elem<B: StarkField, E: FieldElement<BaseField = B>>(c: &[Vec<u8>]) -> E {
    let bs: Vec<B> = c.iter().map(|v| base::<B>(v)).collect();
    E::slice_from_base_elements(&bs)[0]
}
fn coeffs<E: FieldElement>(e: E) -> Vec<Vec<u8>> {
    (0..E::EXTENSION_DEGREE).map(|i| e.base_element(i).to_bytes()).collect()
}

fn run<B: StarkField, E: FieldElement<BaseField = B> + ExtensionOf<B>>(field: &str, deg: usize, scns: &[Scn], out: &mut dyn Write, nfrob: usize) {
    writeln!(out, "{}", json!({"ev": "hdr", "field": field, "deg": deg})).unwrap();
    let mut rng = Rng(7);
    for (i, s) in scns.iter().enumerate() {
        let r = guarded(|| {
            let x: E = elem::<B, E>(&s.x);
            let y: E = elem::<B, E>(&s.y);
            let b: B = base(&s.b);
            let b2: B = base(&s.b2);
            let mut res = serde_json::Map::new();
            let mut put = |k: &str, v: E| {
                res.insert(k.to_string(), json!(coeffs(v)));
            };
            put("add", x + y);
            put("sub", x - y);
            put("mul", x * y);
            put("neg", -x);
            put("double", x.double());
            put("square", x.square());
            put("cube", x.cube());
            put("mul_base", x.mul_base(b));
            put("from_base", E::from(b));
            put("embed_mul", E::from(b) * E::from(b2));
            put("inv", x.inv());
            put("div", x / y);
            put("exp3", x.exp(3u32.into()));
            put("exp0", x.exp(0u32.into()));
            put("conj_x", x.conjugate());
            put("conj_y", y.conjugate());
            put("conj_mul", (x * y).conjugate());
            put("conj_add", (x + y).conjugate());
            // reinterpretation of slices and byte round trips preserve every value
            let v = vec![x, y, x * y];
            let as_base = E::slice_as_base_elements(&v).to_vec();
            let back = E::slice_from_base_elements(&as_base).to_vec();
            let bytes = E::elements_as_bytes(&v).to_vec();
            let from_bytes = unsafe { E::bytes_as_elements(&bytes) }.map(|s| s.to_vec()).unwrap_or_default();
            let ser: Vec<E> = v.iter().map(|e| E::read_from_bytes(&e.to_bytes()).unwrap()).collect();
            let roundtrip = back == v && (from_bytes == v || !E::IS_CANONICAL && from_bytes.len() == v.len()) && ser == v && as_base.len() == 3 * E::EXTENSION_DEGREE;
            let fresh: E = elem::<B, E>(&coeffs(x * y));
            let eq_fresh = fresh == x * y && fresh.to_bytes() == (x * y).to_bytes();
            json!({"ev": "ops", "x": s.x, "y": s.y, "b": s.b, "b2": s.b2, "res": Value::Object(res), "roundtrip": roundtrip, "eq_fresh": eq_fresh})
        });
        match r {
            Ok(v) => writeln!(out, "{}", v).unwrap(),
            Err(p) => {
                if p.contains("harness:") {
                    eprintln!("{p}");
                    std::process::exit(2);
                }
                writeln!(out, "{}", json!({"ev": "panic", "x": s.x, "y": s.y, "what": panic_key(&p)})).unwrap()
            },
        }
        if i < nfrob {
            let x: E = if i % 2 == 0 { elem::<B, E>(&s.x) } else { E::slice_from_base_elements(&(0..deg).map(|_| B::from((rng.next() >> 33) as u32) * B::from(rng.next() as u32 | 1)).collect::<Vec<B>>())[0] };
            writeln!(out, "{}", json!({"ev": "frob", "x": coeffs(x), "conj": coeffs(x.conjugate())})).unwrap();
        }
    }
}

pub fn main(args: &[String]) -> i32 {
    let path = arg_value(args, "--scenarios").expect("--scenarios");
    let field = arg_value(args, "--field").expect("--field");
    let deg: usize = arg_value(args, "--deg").and_then(|s| s.parse().ok()).expect("--deg");
    let nfrob: usize = arg_value(args, "--frob").and_then(|s| s.parse().ok()).unwrap_or(4);
    let outp = arg_value(args, "--out").expect("--out");
    let f = std::io::BufReader::new(std::fs::File::open(path).expect("open"));
    let scns: Vec<Scn> = f.lines().map(|l| l.unwrap()).filter(|l| !l.trim().is_empty()).map(|l| serde_json::from_str(&l).expect("scn")).collect();
    let mut out = std::io::BufWriter::new(std::fs::File::create(outp).unwrap());
    match (field, deg) {
        ("f64", 2) => run::<f64::BaseElement, QuadExtension<f64::BaseElement>>(field, deg, &scns, &mut out, nfrob),
        ("f64", 3) => run::<f64::BaseElement, CubeExtension<f64::BaseElement>>(field, deg, &scns, &mut out, nfrob),
        ("f62", 2) => run::<f62::BaseElement, QuadExtension<f62::BaseElement>>(field, deg, &scns, &mut out, nfrob),
        ("f62", 3) => run::<f62::BaseElement, CubeExtension<f62::BaseElement>>(field, deg, &scns, &mut out, nfrob),
        ("f128", 2) => run::<f128::BaseElement, QuadExtension<f128::BaseElement>>(field, deg, &scns, &mut out, nfrob),
        _ => return 2,
    }
    out.flush().unwrap();
    println!("{}", json!({"scenarios": scns.len()}));
    0
}
