//! The verifier's algebra re-done by the specification (Trace_Verifier.tla): real proofs over ToyField are taken apart through the
//! public parsing API, the challenges are recorded where the verifier obtains them (the three `Air::get_*` methods through a
//! delegating AIR, the out-of-domain point and the folding challenges through the recording coin), and everything the verifier
//! consumes - out-of-domain frames, opened rows, FRI layer rows, remainder - is written out with the real verdict.  TLC then
//! evaluates the protocol's relations from their definitions: constraints on the out-of-domain frame against H(z), the DEEP
//! composition at every queried position against the first FRI layer, every folding step, the remainder.
use std::cell::RefCell;
use std::io::{BufRead, Write};
use std::marker::PhantomData;

use serde_json::{json, Value};
use winter_air::{
    proof::Proof, Air, AirContext, Assertion, AuxRandElements, ConstraintCompositionCoefficients, DeepCompositionCoefficients, EvaluationFrame,
    ProofOptions, TraceInfo,
};
use winter_crypto::{hashers::Blake3_256, Digest, ElementHasher, RandomCoin, RandomCoinError};
use winter_math::{ExtensionOf, FieldElement, StarkField};
use winter_verifier::{verify, AcceptableOptions};

use crate::common::{arg_value, guarded, panic_key};
use crate::rec::{clog_take, hlog_enable, hlog_take, RecCoin, RecHasher};
use crate::shape::{ShapeAir, ShapeGkrVerifier, ShapeInputs};
use crate::stark::{build, prove_with, Scenario};
use crate::toy::Toy;

thread_local! {
    static ROLES: RefCell<Vec<(String, Vec<Value>)>> = RefCell::new(Vec::new());
}
fn role(name: &str, v: Vec<Value>) {
    ROLES.with(|r| r.borrow_mut().push((name.to_string(), v)));
}
/// a base-field element is written as an integer, an extension element as the list of its coefficients
fn val<E: FieldElement<BaseField = Toy>>(e: &E) -> Value {
    if E::EXTENSION_DEGREE == 1 {
        json!(e.base_element(0).v())
    } else {
        json!((0..E::EXTENSION_DEGREE).map(|i| e.base_element(i).v()).collect::<Vec<_>>())
    }
}
fn vals<E: FieldElement<BaseField = Toy>>(es: &[E]) -> Vec<Value> {
    es.iter().map(|e| val(e)).collect()
}

/// ShapeAir with the three challenge-producing methods recorded (the values are the library's own defaults).
pub struct RecAir(ShapeAir<Toy>);

impl Air for RecAir {
    type BaseField = Toy;
    type PublicInputs = ShapeInputs<Toy>;
    type GkrProof = usize;
    type GkrVerifier = ShapeGkrVerifier;

    fn new(trace_info: TraceInfo, pub_inputs: ShapeInputs<Toy>, options: ProofOptions) -> Self {
        RecAir(ShapeAir::new(trace_info, pub_inputs, options))
    }
    fn context(&self) -> &AirContext<Toy> {
        self.0.context()
    }
    fn evaluate_transition<E: FieldElement<BaseField = Toy>>(&self, frame: &EvaluationFrame<E>, periodic_values: &[E], result: &mut [E]) {
        self.0.evaluate_transition(frame, periodic_values, result)
    }
    fn get_assertions(&self) -> Vec<Assertion<Toy>> {
        self.0.get_assertions()
    }
    fn get_periodic_column_values(&self) -> Vec<Vec<Toy>> {
        self.0.get_periodic_column_values()
    }
    fn evaluate_aux_transition<F, E>(&self, main_frame: &EvaluationFrame<F>, aux_frame: &EvaluationFrame<E>, periodic_values: &[F], aux_rand_elements: &[E], result: &mut [E])
    where
        F: FieldElement<BaseField = Toy>,
        E: FieldElement<BaseField = Toy> + ExtensionOf<F>,
    {
        self.0.evaluate_aux_transition(main_frame, aux_frame, periodic_values, aux_rand_elements, result)
    }
    fn get_aux_assertions<E: FieldElement<BaseField = Toy>>(&self, aux_rand_elements: &[E]) -> Vec<Assertion<E>> {
        self.0.get_aux_assertions(aux_rand_elements)
    }
    fn get_auxiliary_proof_verifier<E: FieldElement<BaseField = Toy>>(&self) -> ShapeGkrVerifier {
        self.0.get_auxiliary_proof_verifier::<E>()
    }
    fn get_aux_rand_elements<E, R>(&self, public_coin: &mut R) -> Result<Vec<E>, RandomCoinError>
    where
        E: FieldElement<BaseField = Toy>,
        R: RandomCoin<BaseField = Toy>,
    {
        let r = self.0.get_aux_rand_elements::<E, R>(public_coin)?;
        role("rands", vals(&r));
        Ok(r)
    }
    fn get_constraint_composition_coefficients<E, R>(&self, public_coin: &mut R) -> Result<ConstraintCompositionCoefficients<E>, RandomCoinError>
    where
        E: FieldElement<BaseField = Toy>,
        R: RandomCoin<BaseField = Toy>,
    {
        let r = self.0.get_constraint_composition_coefficients::<E, R>(public_coin)?;
        role("cct", vals(&r.transition));
        role("ccb", vals(&r.boundary));
        if let Some(l) = &r.lagrange {
            role("lct", vals(&l.transition));
            role("lcb", vals(&[l.boundary]));
        }
        Ok(r)
    }
    fn get_deep_composition_coefficients<E, R>(&self, public_coin: &mut R) -> Result<DeepCompositionCoefficients<E>, RandomCoinError>
    where
        E: FieldElement<BaseField = Toy>,
        R: RandomCoin<BaseField = Toy>,
    {
        let r = self.0.get_deep_composition_coefficients::<E, R>(public_coin)?;
        role("dt", vals(&r.trace));
        role("dc", vals(&r.constraints));
        if let Some(l) = &r.lagrange {
            role("dl", vals(&[*l]));
        }
        Ok(r)
    }
}

type H = Blake3_256<Toy>;

fn assertion_json<E: FieldElement<BaseField = Toy>>(a: &Assertion<E>, n: usize) -> Value {
    let steps = a.get_num_steps(n);
    json!({"col": a.column(), "first": a.first_step(), "stride": a.stride(), "steps": steps, "values": vals(a.values())})
}

fn one<E: FieldElement<BaseField = Toy>>(sc: &Scenario) -> Result<Value, String> {
    let b = build::<Toy>(sc);
    clog_take();
    // a cheating prover: the cell (column, step) is changed after the public inputs were derived, the original claim is kept
    let mut cols = b.cols.clone();
    let claim = match sc.corrupt {
        Some((c, i)) => {
            cols[c][i] += Toy::ONE;
            Some(b.inputs.clone())
        },
        None => None,
    };
    // the main columns the prover is given: the prover stage of Trace_Verifier interpolates them 
    let tcols: Vec<Vec<u64>> = cols.iter().map(|c| c.iter().map(|e| e.v()).collect()).collect();
    let proof = prove_with::<Toy, H, RecCoin<H>>(sc, cols, claim).map_err(|e| format!("prove: {e}"))?;
    clog_take();
    ROLES.with(|r| r.borrow_mut().clear());
    let bytes = proof.to_bytes();
    let parsed = Proof::from_bytes(&bytes).map_err(|e| format!("parse: {e}"))?;
    // the verifier hashes through the recording hasher: every merge it performs is evidence for Trace_Verifier's commitment stage
    hlog_enable(true);
    hlog_take();
    let verdict = match guarded(|| verify::<RecAir, RecHasher<H>, RecCoin<RecHasher<H>>>(parsed, b.inputs.clone(), &AcceptableOptions::MinConjecturedSecurity(0))) {
        Ok(Ok(())) => "accept".to_string(),
        Ok(Err(e)) => format!("{e:?}"),
        Err(p) => format!("panic@{}", panic_key(&p)),
    };
    let vlog = clog_take();
    let hlog = hlog_take();
    hlog_enable(false);
    let roles: Vec<(String, Vec<Value>)> = ROLES.with(|r| std::mem::take(&mut *r.borrow_mut()));
    let get = |name: &str| -> Vec<Value> { roles.iter().find(|(n, _)| n == name).map(|(_, v)| v.clone()).unwrap_or_default() };
    let zero = val(&E::ZERO);

    let sh = &sc.shape;
    let air = ShapeAir::<Toy>::new(sh.trace_info(), b.inputs.clone(), crate::stark::options_of(sc));
    let ccols = air.context().num_constraint_composition_columns();
    let lde = air.lde_domain_size();
    let fold = sc.opts.fold;
    let layers = air.options().to_fri_options().num_fri_layers(lde);
    let segments = 1 + (sh.aux_width() > 0) as usize;
    let (troots, croot, froots) = proof.commitments.clone().parse::<H>(segments, layers).map_err(|e| format!("commitments: {e}"))?;
    let _ = troots;
    // the out-of-domain point: the draw that follows the absorption of the constraint commitment; the folding challenges: the
    // draw that follows the absorption of each FRI layer commitment; the Lagrange random elements: the draws between the
    // absorption of the main trace commitment and the auxiliary random elements
    let drawn = |c: &crate::rec::CCall| -> Option<Value> {
        if c.op != "draw" || c.data.len() != 2 * E::EXTENSION_DEGREE {
            return None;
        }
        let cs: Vec<u64> = c.data.chunks(2).map(|b| u16::from_le_bytes([b[0], b[1]]) as u64).collect();
        Some(if E::EXTENSION_DEGREE == 1 { json!(cs[0]) } else { json!(cs) })
    };
    let after = |d: &[u8], k: usize| -> Option<Value> {
        let i = vlog.iter().position(|c| c.op == "reseed" && c.data == d)?;
        drawn(vlog.get(i + 1 + k)?)
    };
    let z = after(&croot.as_bytes(), 0);
    let alphas: Vec<Option<Value>> = froots.iter().take(layers).map(|r| after(&r.as_bytes(), 0)).collect();
    let log_n = sh.n.ilog2() as usize;
    let lrands: Vec<Value> = if sh.lagrange {
        let i = vlog.iter().position(|c| c.op == "reseed").unwrap_or(0);
        (0..log_n).filter_map(|k| vlog.get(i + 1 + k)).filter_map(|c| drawn(c)).collect()
    } else {
        vec![]
    };
    let positions: Vec<u64> = {
        let mut p: Vec<u64> = vlog.iter().find(|c| c.op == "ints").map(|c| c.ints.clone()).unwrap_or_default();
        p.sort_unstable();
        p.dedup();
        p
    };
    let (frame, hz) = proof.ood_frame.clone().parse::<E>(sh.width, sh.aux_width(), ccols).map_err(|e| format!("ood frame: {e}"))?;
    let cur = vals(frame.current_row());
    let nxt = vals(frame.next_row());
    let lag: Vec<Value> = frame.lagrange_kernel_frame().map(|l| vals(l.inner())).unwrap_or_default();
    let nq = positions.len();
    let mut tables: Vec<Vec<Vec<Value>>> = vec![];
    // a verifier that rejects before the query phase draws no positions: nothing is opened as far as it is concerned
    for (seg, q) in proof.trace_queries.iter().enumerate().filter(|_| nq > 0) {
        let w = if seg == 0 { sh.width } else { sh.aux_width() };
        if seg == 0 {
            let (_p, t) = q.clone().parse::<H, Toy>(lde, nq, w).map_err(|e| format!("trace queries: {e}"))?;
            tables.push(t.rows().map(|r| vals(r)).collect());
        } else {
            let (_p, t) = q.clone().parse::<H, E>(lde, nq, w).map_err(|e| format!("trace queries: {e}"))?;
            tables.push(t.rows().map(|r| vals(r)).collect());
        }
    }
    let crow: Vec<Vec<Value>> = if nq > 0 {
        let (_p, ct) = proof.constraint_queries.clone().parse::<H, E>(lde, nq, ccols).map_err(|e| format!("constraint queries: {e}"))?;
        ct.rows().map(|r| vals(r)).collect()
    } else {
        vec![]
    };
    let fri: Vec<Vec<Vec<Value>>> = if nq > 0 {
        let (lq, _lp) = proof.fri_proof.clone().parse_layers::<H, E>(lde, fold).map_err(|e| format!("fri layers: {e}"))?;
        lq.iter().map(|flat| flat.chunks(fold).map(|r| vals(r)).collect()).collect()
    } else {
        vec![vec![]; layers]
    };
    let rem: Vec<Value> = vals(&proof.fri_proof.parse_remainder::<E>().map_err(|e| format!("remainder: {e}"))?);

    // ---- commitments: interned digests, the merges the verifier performed, and per tree the leaf digests of the opened rows
    let mut ids: std::collections::HashMap<Vec<u8>, u64> = std::collections::HashMap::new();
    let mut intern = |d: &[u8]| -> u64 {
        let n = ids.len() as u64 + 1;
        *ids.entry(d.to_vec()).or_insert(n)
    };
    let merges: Vec<[u64; 3]> = hlog.iter().filter(|c| c.f == "merge").map(|c| [intern(&c.a[0]), intern(&c.a[1]), intern(&c.out)]).collect();
    let leaf_of = |bytes: &[u8]| -> Option<Vec<u8>> { hlog.iter().find(|c| c.f == "hash_elements" && c.a[0] == bytes).map(|c| c.out.to_vec()) };
    fn row_bytes<X: FieldElement>(row: &[X]) -> Vec<u8> {
        use winter_utils::Serializable;
        let mut v = Vec::new();
        for e in row {
            e.write_into(&mut v);
        }
        v
    }
    let pos_usize: Vec<usize> = positions.iter().map(|p| *p as usize).collect();
    let mut trees: Vec<Value> = vec![];
    if nq > 0 {
        let mut tree = |name: &str, root: Vec<u8>, depth: u32, pos: &[usize], rows: Vec<Vec<u8>>, intern: &mut dyn FnMut(&[u8]) -> u64| {
            let leaves: Vec<u64> = rows.iter().map(|rb| leaf_of(rb).map(|d| intern(&d)).unwrap_or(0)).collect();
            trees.push(json!({"name": name, "root": intern(&root), "depth": depth, "positions": pos, "leaves": leaves}));
        };
        let (troots2, croot2, froots2) = proof.commitments.clone().parse::<H>(segments, layers).map_err(|e| format!("commitments: {e}"))?;
        for (seg, q) in proof.trace_queries.iter().enumerate() {
            let w = if seg == 0 { sh.width } else { sh.aux_width() };
            let rows: Vec<Vec<u8>> = if seg == 0 {
                q.clone().parse::<H, Toy>(lde, nq, w).map_err(|e| format!("{e}"))?.1.rows().map(|r| row_bytes(r)).collect()
            } else {
                q.clone().parse::<H, E>(lde, nq, w).map_err(|e| format!("{e}"))?.1.rows().map(|r| row_bytes(r)).collect()
            };
            tree(if seg == 0 { "main" } else { "aux" }, troots2[seg].as_bytes().to_vec(), lde.ilog2(), &pos_usize, rows, &mut intern);
        }
        let rows: Vec<Vec<u8>> = proof.constraint_queries.clone().parse::<H, E>(lde, nq, ccols).map_err(|e| format!("{e}"))?.1.rows().map(|r| row_bytes(r)).collect();
        tree("constraints", croot2.as_bytes().to_vec(), lde.ilog2(), &pos_usize, rows, &mut intern);
        let (lq, _lp) = proof.fri_proof.clone().parse_layers::<H, E>(lde, fold).map_err(|e| format!("fri layers: {e}"))?;
        let mut pos = pos_usize.clone();
        let mut size = lde;
        for (d, flat) in lq.iter().enumerate() {
            pos = winter_fri::folding::fold_positions(&pos, size, fold);
            size /= fold;
            let rows: Vec<Vec<u8>> = flat.chunks(fold).map(|r| row_bytes(r)).collect();
            tree(&format!("fri{}", d + 1), froots2[d].as_bytes().to_vec(), size.ilog2(), &pos, rows, &mut intern);
        }
    }
    // the auxiliary random elements as field elements again (for the auxiliary assertions of the AIR)
    let rands_e: Vec<E> = get("rands").iter().map(|v| {
        let cs: Vec<Toy> = match v {
            Value::Array(a) => a.iter().map(|x| Toy::new(x.as_u64().unwrap_or(0))).collect(),
            x => vec![Toy::new(x.as_u64().unwrap_or(0))],
        };
        E::slice_from_base_elements(&cs)[0]
    }).collect();
    let main_as: Vec<Value> = {
        let mut a = air.get_assertions();
        a.sort();
        a.iter().map(|x| assertion_json(x, sh.n)).collect()
    };
    let aux_as: Vec<Value> = if sh.aux_width() > 0 {
        let mut a = air.get_aux_assertions::<E>(&rands_e);
        a.sort();
        a.iter().map(|x| assertion_json(x, sh.n)).collect()
    } else {
        vec![]
    };
    let mut ev = json!({"ev": "proof", "id": sc.id, "verdict": verdict,
        "n": sh.n, "lde": lde, "blowup": sc.opts.blowup, "fold": fold, "layers": layers, "width": sh.width, "degs": sh.degs, "pcol": sh.pcol, "neg": sh.neg,
        "mode": sh.mode, "exempt": sh.exempt, "ccols": ccols,
        "periodic": sh.periodic_values::<Toy>().iter().map(|c| c.iter().map(|e| e.v()).collect::<Vec<_>>()).collect::<Vec<_>>(),
        "asserts": main_as, "aux_asserts": aux_as, "aux_degs": sh.aux_degs, "lagrange": sh.lagrange,
        "cheat": sc.lde_cheat.is_some() || sc.comp_cheat || sc.corrupt.is_some() || sc.aux_corrupt.is_some()});
    let ev2 = json!({"g": Toy::get_root_of_unity(sh.n.ilog2()).v(), "glde": Toy::get_root_of_unity(lde.ilog2()).v(), "offset": air.domain_offset().v(),
        "rands": get("rands"), "lrands": lrands, "cct": get("cct"), "ccb": get("ccb"), "lct": get("lct"), "lcb": get("lcb").first().cloned().unwrap_or(zero.clone()), "deg": E::EXTENSION_DEGREE});
    let ev3 = json!({"z": z.unwrap_or(zero.clone()), "dt": get("dt"), "dc": get("dc"), "dl": get("dl").first().cloned().unwrap_or(zero.clone()), "alphas": alphas.iter().map(|a| a.clone().unwrap_or(zero.clone())).collect::<Vec<_>>(),
        "cur": cur, "nxt": nxt, "lag": lag, "hz": vals(&hz),
        "positions": positions, "main_rows": tables.get(0).cloned().unwrap_or_default(), "aux_rows": tables.get(1).cloned().unwrap_or_default(),
        "comp_rows": crow, "fri": fri, "rem": rem, "merges": merges, "trees": trees});
    if !tcols.is_empty() {
        ev["tcols"] = json!(tcols);
    }
    for part in [ev2, ev3] {
        for (k, v) in part.as_object().unwrap() {
            ev[k.as_str()] = v.clone();
        }
    }
    Ok(ev)
}

pub fn main(args: &[String]) -> i32 {
    let path = arg_value(args, "--scenarios").expect("--scenarios");
    let outp = arg_value(args, "--out").expect("--out");
    let f = std::io::BufReader::new(std::fs::File::open(path).expect("open"));
    let scs: Vec<Scenario> = f.lines().map(|l| l.unwrap()).filter(|l| !l.trim().is_empty()).map(|l| serde_json::from_str(&l).expect("scenario")).collect();
    let mut out = std::io::BufWriter::new(std::fs::File::create(outp).unwrap());
    let mut skipped: Vec<Value> = vec![];
    let mut n = 0;
    for sc in &scs {
        match guarded(|| match sc.ext {
            1 => one::<Toy>(sc),
            2 => one::<winter_math::fields::QuadExtension<Toy>>(sc),
            _ => one::<winter_math::fields::CubeExtension<Toy>>(sc),
        }) {
            Ok(Ok(v)) => {
                writeln!(out, "{}", v).unwrap();
                n += 1;
            },
            Ok(Err(e)) => skipped.push(json!({"id": sc.id, "what": e})),
            Err(p) => skipped.push(json!({"id": sc.id, "what": format!("panic@{}", panic_key(&p))})),
        }
    }
    out.flush().unwrap();
    let _ = PhantomData::<AuxRandElements<Toy>>;
    println!("{}", json!({"scenarios": scs.len(), "events": n, "skipped": skipped}));
    0
}
