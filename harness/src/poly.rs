//! C20: polynomial and batch utilities of winter-math over ToyField, recorded for Trace_Poly.tla.
use std::io::{BufRead, Write};

use serde::Deserialize;
use serde_json::{json, Value};
use winter_math::{add_in_place, batch_inversion, get_power_series, get_power_series_with_offset, mul_acc, polynom, FieldElement};

use crate::common::{arg_value, guarded, panic_key, Rng};
use crate::toy::{Toy, P};

#[derive(Deserialize, Clone, Debug)]
struct Cfg {
    kind: String,
    #[serde(default)]
    a: Vec<u64>,
    #[serde(default)]
    b: Vec<u64>,
    #[serde(default)]
    k: u64,
    #[serde(default)]
    da: usize,
    #[serde(default)]
    db: u64,
    #[serde(default)]
    npts: usize,
    #[serde(default)]
    zx: usize,
    #[serde(default)]
    len: usize,
    #[serde(default)]
    zeros: usize,
}
/// one library call: its value, or the panic recorded under the operation's name (the other operations still run)
fn op(res: &mut serde_json::Map<String, Value>, panics: &mut Vec<(String, String)>, name: &str, f: impl FnOnce() -> Value) {
    match guarded(f) {
        Ok(v) => {
            res.insert(name.into(), v);
        },
        Err(p) => panics.push((name.to_string(), p)),
    }
}
fn t(v: &[u64]) -> Vec<Toy> {
    v.iter().map(|x| Toy::new(*x)).collect()
}
fn u(v: &[Toy]) -> Vec<u64> {
    v.iter().map(|e| e.v()).collect()
}

pub fn main(args: &[String]) -> i32 {
    let path = arg_value(args, "--scenarios").expect("--scenarios");
    let outp = arg_value(args, "--out").expect("--out");
    let seed: u64 = arg_value(args, "--seed").and_then(|s| s.parse().ok()).unwrap_or(1);
    let f = std::io::BufReader::new(std::fs::File::open(path).expect("open"));
    let cfgs: Vec<Cfg> = f.lines().map(|l| l.unwrap()).filter(|l| !l.trim().is_empty()).map(|l| serde_json::from_str(&l).expect("cfg")).collect();
    let mut out = std::io::BufWriter::new(std::fs::File::create(outp).unwrap());
    let mut rng = Rng(seed);
    let panics: std::cell::RefCell<Vec<Value>> = std::cell::RefCell::new(vec![]);
    for c in &cfgs {
        let r = guarded(|| {
            let mut evs: Vec<Value> = vec![];
            if c.kind == "polys" {
                let (a, b, k) = (t(&c.a), t(&c.b), Toy::new(c.k));
                // distinct points
                let mut xs: Vec<Toy> = vec![];
                while xs.len() < c.npts {
                    let x = Toy::new(1 + rng.below(P - 1));
                    if !xs.contains(&x) {
                        xs.push(x);
                    }
                }
                // the point x = 0 at the position the scenario names (0 = not in the set)
                if c.zx >= 1 && c.zx <= xs.len() {
                    xs[c.zx - 1] = Toy::ZERO;
                }
                let ys: Vec<Toy> = (0..c.npts).map(|_| Toy::new(rng.below(P))).collect();
                let mut res = serde_json::Map::new();
                let mut oppanics: Vec<(String, String)> = vec![];
                op(&mut res, &mut oppanics, "add", || json!(u(&polynom::add(&a, &b))));
                op(&mut res, &mut oppanics, "sub", || json!(u(&polynom::sub(&a, &b))));
                op(&mut res, &mut oppanics, "mul", || json!(u(&polynom::mul(&a, &b))));
                op(&mut res, &mut oppanics, "scale", || json!(u(&polynom::mul_by_scalar(&a, k))));
                op(&mut res, &mut oppanics, "degree_a", || json!(polynom::degree_of(&a)));
                op(&mut res, &mut oppanics, "degree_b", || json!(polynom::degree_of(&b)));
                op(&mut res, &mut oppanics, "rlz_a", || json!(u(&polynom::remove_leading_zeros(&a))));
                // long division: admissible when the divisor is non-zero and of degree at most that of the dividend
                let b_zero = b.iter().all(|x| *x == Toy::ZERO);
                let div_ok = !b_zero && guarded(|| polynom::degree_of(&a) >= polynom::degree_of(&b)).unwrap_or(false);
                res.insert("div_ok".into(), json!(div_ok));
                op(&mut res, &mut oppanics, "div", || json!(if div_ok { u(&polynom::div(&a, &b)) } else { vec![] }));
                // synthetic division by x^da - db: admissible when db # 0 and the dividend is longer than da
                let syn_ok = c.db % P != 0 && a.len() > c.da;
                res.insert("syn_ok".into(), json!(syn_ok));
                op(&mut res, &mut oppanics, "syn", || json!(if syn_ok { u(&polynom::syn_div(&a, c.da, Toy::new(c.db))) } else { vec![] }));
                let roots: Vec<Toy> = xs.iter().take(2.min(xs.len())).cloned().collect();
                let synr_ok = !roots.is_empty() && a.len() > roots.len();
                res.insert("synr_ok".into(), json!(synr_ok));
                res.insert("synr".into(), json!(if synr_ok {
                    let mut p = a.clone();
                    polynom::syn_div_roots_in_place(&mut p, &roots);
                    u(&p)
                } else {
                    vec![]
                }));
                op(&mut res, &mut oppanics, "eval_a", || json!(polynom::eval(&a, k).v()));
                op(&mut res, &mut oppanics, "eval_many", || json!(u(&polynom::eval_many(&a, &xs))));
                op(&mut res, &mut oppanics, "from_roots", || json!(u(&polynom::poly_from_roots(&xs))));
                op(&mut res, &mut oppanics, "interp", || json!(u(&polynom::interpolate(&xs, &ys, true))));
                op(&mut res, &mut oppanics, "interp_keep", || json!(u(&polynom::interpolate(&xs, &ys, false))));
                for (name, what) in &oppanics {
                    panics.borrow_mut().push(json!({"cfg": format!("{:?}", c), "what": format!("{}: {}", name, panic_key(what))}));
                }
                if !oppanics.is_empty() {
                    return evs;
                }
                evs.push(json!({"ev": "polys", "a": c.a, "b": c.b, "k": c.k, "da": c.da, "db": c.db, "roots": u(&roots), "xs": u(&xs), "ys": u(&ys), "res": Value::Object(res)}));
                // batched interpolation over rows of 4 points
                let rows = 1 + c.npts % 3;
                let mut bxs: Vec<[Toy; 4]> = vec![];
                let mut bys: Vec<[Toy; 4]> = vec![];
                for _ in 0..rows {
                    let mut row: Vec<Toy> = vec![];
                    while row.len() < 4 {
                        let x = Toy::new(1 + rng.below(P - 1));
                        if !row.contains(&x) {
                            row.push(x);
                        }
                    }
                    // x = 0 at a rotating position of every other row
                    if (c.zx + bxs.len()) % 2 == 1 {
                        row[(c.zx + bxs.len()) % 4] = Toy::ZERO;
                    }
                    bxs.push([row[0], row[1], row[2], row[3]]);
                    bys.push([Toy::new(rng.below(P)), Toy::new(rng.below(P)), Toy::new(rng.below(P)), Toy::new(rng.below(P))]);
                }
                let polys = polynom::interpolate_batch(&bxs, &bys);
                evs.push(json!({"ev": "batch", "xs": bxs.iter().map(|r| u(r)).collect::<Vec<_>>(), "ys": bys.iter().map(|r| u(r)).collect::<Vec<_>>(),
                                "polys": polys.iter().map(|r| u(r)).collect::<Vec<_>>()}));
            } else {
                let n = c.len;
                let b = Toy::new(2 + rng.below(P - 2));
                let s = Toy::new(1 + rng.below(P - 1));
                let mut vals: Vec<Toy> = (0..n).map(|_| Toy::new(1 + rng.below(P - 1))).collect();
                // zeros at chosen positions: none / first and last / every third
                match c.zeros {
                    1 if n > 0 => {
                        vals[0] = Toy::ZERO;
                        vals[n - 1] = Toy::ZERO;
                    },
                    2 => {
                        for i in (0..n).step_by(3) {
                            vals[i] = Toy::ZERO;
                        }
                    },
                    _ => {},
                }
                let other: Vec<Toy> = (0..n).map(|_| Toy::new(rng.below(P))).collect();
                let series = get_power_series(b, n);
                let series_off = get_power_series_with_offset(b, s, n);
                let inv = batch_inversion(&vals);
                let mut added = vals.clone();
                add_in_place(&mut added, &other);
                let mut macc = vals.clone();
                mul_acc(&mut macc, &other, s);
                let chk: Vec<usize> = if n == 0 { vec![] } else if n <= 64 { (0..n).collect() } else { (0..48).map(|_| rng.below(n as u64) as usize).chain([0, 1, n / 2, n - 2, n - 1]).collect() };
                evs.push(json!({"ev": "vectors", "len": n, "b": b.v(), "s": s.v(), "vals": u(&vals), "other": u(&other), "series": u(&series), "series_off": u(&series_off),
                                "inv": u(&inv), "added": u(&added), "macc": u(&macc), "chk": chk}));
            }
            evs
        });
        match r {
            Ok(evs) => {
                for e in evs {
                    writeln!(out, "{}", e).unwrap();
                }
            },
            Err(p) => panics.borrow_mut().push(json!({"cfg": format!("{:?}", c), "what": panic_key(&p)})),
        }
    }
    out.flush().unwrap();
    println!("{}", json!({"configs": cfgs.len(), "panics": *panics.borrow()}));
    0
}
