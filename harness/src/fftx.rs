//! C09: the transforms, interpolation, degree inference and the column-batched matrix variants over ToyField, recorded
//! for Trace_FFT.tla (which recomputes by direct evaluation with native integers).
use std::io::{BufRead, Write};

use serde::Deserialize;
use serde_json::{json, Value};
use winter_math::{fft, FieldElement, StarkField};
use winter_prover::{
    matrix::{ColMatrix, RowMatrix},
    StarkDomain,
};

use crate::common::{arg_value, guarded, panic_key, Rng};
use crate::toy::{Toy, P};

#[derive(Deserialize, Clone, Debug)]
struct Cfg {
    kind: String,
    ln: u32,
    lb: u32,
    offset: String,
    cols: usize,
}

fn ints(v: &[Toy]) -> Vec<u64> {
    v.iter().map(|e| e.v()).collect()
}
fn rand_poly(n: usize, kind: usize, rng: &mut Rng) -> Vec<Toy> {
    let mut p: Vec<Toy> = (0..n).map(|_| Toy::new(rng.below(P))).collect();
    match kind % 4 {
        1 => {
            // low degree: upper half zero
            for c in p.iter_mut().skip((n / 2).max(1)) {
                *c = Toy(0);
            }
        },
        2 => {
            for c in p.iter_mut().skip(1) {
                *c = Toy(0);
            }
        },
        _ => {},
    }
    p
}
fn chk_indices(total: usize, rng: &mut Rng, full_upto: usize) -> Vec<usize> {
    if total <= full_upto {
        (0..total).collect()
    } else {
        let mut v: Vec<usize> = vec![0, 1, total / 2, total - 1];
        for _ in 0..252 {
            v.push(rng.below(total as u64) as usize);
        }
        v
    }
}

fn rm_over_width(w: usize, cm: &ColMatrix<Toy>, domain: &StarkDomain<Toy>) -> RowMatrix<Toy> {
    match w {
        1 => RowMatrix::<Toy>::evaluate_polys_over::<1>(cm, domain),
        2 => RowMatrix::<Toy>::evaluate_polys_over::<2>(cm, domain),
        3 => RowMatrix::<Toy>::evaluate_polys_over::<3>(cm, domain),
        4 => RowMatrix::<Toy>::evaluate_polys_over::<4>(cm, domain),
        5 => RowMatrix::<Toy>::evaluate_polys_over::<5>(cm, domain),
        6 => RowMatrix::<Toy>::evaluate_polys_over::<6>(cm, domain),
        7 => RowMatrix::<Toy>::evaluate_polys_over::<7>(cm, domain),
        12 => RowMatrix::<Toy>::evaluate_polys_over::<12>(cm, domain),
        _ => RowMatrix::<Toy>::evaluate_polys_over::<16>(cm, domain),
    }
}

pub fn main(args: &[String]) -> i32 {
    let path = arg_value(args, "--scenarios").expect("--scenarios");
    let outp = arg_value(args, "--out").expect("--out");
    let seed: u64 = arg_value(args, "--seed").and_then(|s| s.parse().ok()).unwrap_or(1);
    let full_upto: usize = arg_value(args, "--full-upto").and_then(|s| s.parse().ok()).unwrap_or(1024);
    let f = std::io::BufReader::new(std::fs::File::open(path).expect("open"));
    let cfgs: Vec<Cfg> = f.lines().map(|l| l.unwrap()).filter(|l| !l.trim().is_empty()).map(|l| serde_json::from_str(&l).expect("cfg")).collect();
    let mut out = std::io::BufWriter::new(std::fs::File::create(outp).unwrap());
    let mut rng = Rng(seed);
    let mut panics: Vec<Value> = vec![];
    for (ci, c) in cfgs.iter().enumerate() {
        let n = 1usize << c.ln;
        let b = 1usize << c.lb;
        let offset = match c.offset.as_str() {
            "one" => Toy(1),
            "generator" => Toy::GENERATOR,
            _ => Toy::new(2 + rng.below(P - 3)),
        };
        let r = guarded(|| {
            let mut ev: Vec<Value> = vec![];
            if c.kind == "vector" {
                let poly = rand_poly(n, ci, &mut rng);
                let twiddles = fft::get_twiddles::<Toy>(n);
                // forward transforms
                if b == 1 && c.offset == "one" {
                    let mut v = poly.clone();
                    fft::evaluate_poly(&mut v, &twiddles);
                    ev.push(json!({"ev": "evaluate", "fn": "evaluate_poly", "n": n, "blowup": 1, "offset": 1, "poly": ints(&poly), "out": ints(&v),
                                   "chk": chk_indices(n, &mut rng, full_upto)}));
                }
                let outv = fft::evaluate_poly_with_offset(&poly, &twiddles, offset, b);
                ev.push(json!({"ev": "evaluate", "fn": "evaluate_poly_with_offset", "n": n, "blowup": b, "offset": offset.v(), "poly": ints(&poly),
                               "out": ints(&outv), "chk": chk_indices(n * b, &mut rng, full_upto)}));
                // interpolation of arbitrary values
                let vals: Vec<Toy> = (0..n).map(|_| Toy::new(rng.below(P))).collect();
                let inv_tw = fft::get_inv_twiddles::<Toy>(n);
                let mut w = vals.clone();
                if c.offset == "one" {
                    fft::interpolate_poly(&mut w, &inv_tw);
                    ev.push(json!({"ev": "interpolate", "fn": "interpolate_poly", "n": n, "offset": 1, "vals": ints(&vals), "out": ints(&w),
                                   "chk": chk_indices(n, &mut rng, full_upto)}));
                    // the offset variant with offset 1 must agree with it
                    let mut w1 = vals.clone();
                    fft::interpolate_poly_with_offset(&mut w1, &inv_tw, Toy::ONE);
                    ev.push(json!({"ev": "interpolate", "fn": "interpolate_poly_with_offset", "n": n, "offset": 1, "vals": ints(&vals), "out": ints(&w1),
                                   "chk": chk_indices(n, &mut rng, full_upto)}));
                } else {
                    fft::interpolate_poly_with_offset(&mut w, &inv_tw, offset);
                    ev.push(json!({"ev": "interpolate", "fn": "interpolate_poly_with_offset", "n": n, "offset": offset.v(), "vals": ints(&vals),
                                   "out": ints(&w), "chk": chk_indices(n, &mut rng, full_upto)}));
                }
                // degree inference on the evaluations of a known polynomial
                if n * b >= 2 {
                    let mut padded = poly.clone();
                    padded.resize(n * b, Toy(0));
                    let d = fft::infer_degree(&outv, offset);
                    ev.push(json!({"ev": "infer_degree", "fn": "infer_degree", "poly": ints(&padded), "got": d}));
                }
            } else {
                let polys: Vec<Vec<Toy>> = (0..c.cols).map(|k| rand_poly(n, ci + k, &mut rng)).collect();
                let cm = ColMatrix::new(polys.clone());
                let domain = StarkDomain::from_twiddles(fft::get_twiddles::<Toy>(n), b, offset);
                let rows = n * b;
                let total = rows * c.cols;
                let picks: Vec<(usize, usize)> = if total <= full_upto {
                    (0..rows).flat_map(|r| (0..c.cols).map(move |k| (r, k))).collect()
                } else {
                    (0..256).map(|_| (rng.below(rows as u64) as usize, rng.below(c.cols as u64) as usize)).chain([(0, 0), (rows - 1, c.cols - 1)]).collect()
                };
                let pj: Vec<Vec<u64>> = polys.iter().map(|p| ints(p)).collect();
                let rm = RowMatrix::<Toy>::evaluate_polys_over::<8>(&cm, &domain);
                ev.push(json!({"ev": "matrix", "fn": "RowMatrix::evaluate_polys_over<8>", "n": n, "blowup": b, "offset": offset.v(), "rows": rm.num_rows(), "cols": rm.num_cols(),
                               "polys": pj, "chk": picks.iter().map(|p| vec![p.0, p.1]).collect::<Vec<_>>(),
                               "vals": picks.iter().map(|p| rm.get(p.1, p.0).v()).collect::<Vec<_>>()}));
                // other segment widths (any N >= 1 is documented): two per configuration, rotating over 1..7, 12 and 16
                const WIDTHS: [usize; 9] = [1, 2, 3, 4, 5, 6, 7, 12, 16];
                for w in [WIDTHS[ci % 9], WIDTHS[(ci + 4) % 9]] {
                    let rmw = rm_over_width(w, &cm, &domain);
                    ev.push(json!({"ev": "matrix", "fn": format!("RowMatrix::evaluate_polys_over<{w}>"), "n": n, "blowup": b, "offset": offset.v(), "rows": rmw.num_rows(), "cols": rmw.num_cols(),
                                   "polys": pj, "chk": picks.iter().map(|p| vec![p.0, p.1]).collect::<Vec<_>>(),
                                   "vals": picks.iter().map(|p| rmw.get(p.1, p.0).v()).collect::<Vec<_>>()}));
                }
                if c.lb > 0 && offset == Toy::GENERATOR {
                    let rm2 = RowMatrix::<Toy>::evaluate_polys::<8>(&cm, b);
                    ev.push(json!({"ev": "matrix", "fn": "RowMatrix::evaluate_polys<8>", "n": n, "blowup": b, "offset": offset.v(), "rows": rm2.num_rows(), "cols": rm2.num_cols(),
                                   "polys": pj, "chk": picks.iter().map(|p| vec![p.0, p.1]).collect::<Vec<_>>(),
                                   "vals": picks.iter().map(|p| rm2.get(p.1, p.0).v()).collect::<Vec<_>>()}));
                }
                // the same over the quadratic and the cubic extension: an extension column evaluated at base-field points is its
                // limb polynomials evaluated there, so the event lists the limbs as base-field columns
                ext_matrix::<winter_math::fields::QuadExtension<Toy>>(&mut ev, c.cols, n, b, offset, &domain, ci, &mut rng, full_upto);
                ext_matrix::<winter_math::fields::CubeExtension<Toy>>(&mut ev, c.cols, n, b, offset, &domain, ci, &mut rng, full_upto);
                let cm2 = cm.evaluate_columns_over(&domain);
                ev.push(json!({"ev": "matrix", "fn": "ColMatrix::evaluate_columns_over", "n": n, "blowup": b, "offset": offset.v(), "rows": cm2.num_rows(), "cols": cm2.num_cols(),
                               "polys": pj, "chk": picks.iter().map(|p| vec![p.0, p.1]).collect::<Vec<_>>(),
                               "vals": picks.iter().map(|p| cm2.get(p.1, p.0).v()).collect::<Vec<_>>()}));
                // interpolation of columns: the interpolants evaluated on the trace domain give the columns back
                let vals_m = ColMatrix::new((0..c.cols).map(|_| (0..n).map(|_| Toy::new(rng.below(P))).collect::<Vec<Toy>>()).collect());
                let ip = vals_m.interpolate_columns();
                let ipj: Vec<Vec<u64>> = (0..c.cols).map(|k| ints(ip.get_column(k))).collect();
                let picks2: Vec<(usize, usize)> = picks.iter().map(|p| (p.0 % n, p.1)).collect();
                ev.push(json!({"ev": "matrix", "fn": "ColMatrix::interpolate_columns", "n": n, "blowup": 1, "offset": 1, "rows": n, "cols": ip.num_cols(),
                               "polys": ipj, "chk": picks2.iter().map(|p| vec![p.0, p.1]).collect::<Vec<_>>(),
                               "vals": picks2.iter().map(|p| vals_m.get(p.1, p.0).v()).collect::<Vec<_>>()}));
            }
            ev
        });
        match r {
            Ok(ev) => {
                for e in ev {
                    writeln!(out, "{}", e).unwrap();
                }
            },
            Err(p) => {
                if p.contains("harness:") {
                    eprintln!("{p}");
                    return 2;
                }
                panics.push(json!({"cfg": format!("{:?}", c), "what": panic_key(&p)}));
            },
        }
    }
    out.flush().unwrap();
    println!("{}", json!({"configs": cfgs.len(), "panics": panics}));
    0
}


/// LDE of a matrix of extension-field columns, recorded limb by limb as a base-field "matrix" event
#[allow(clippy::too_many_arguments)]
fn ext_matrix<E: FieldElement<BaseField = Toy>>(ev: &mut Vec<serde_json::Value>, cols: usize, n: usize, b: usize, offset: Toy, domain: &StarkDomain<Toy>, ci: usize, rng: &mut Rng, full_upto: usize) {
    let d = E::EXTENSION_DEGREE;
    if cols * d > 255 {
        return;
    }
    // limb polynomials: column k, limb j -> rand_poly
    let limbs: Vec<Vec<Toy>> = (0..cols * d).map(|k| rand_poly(n, ci + 3 * k + 1, rng)).collect();
    let columns: Vec<Vec<E>> = (0..cols)
        .map(|k| {
            let flat: Vec<Toy> = (0..n).flat_map(|i| (0..d).map(move |j| (k, i, j))).map(|(k, i, j)| limbs[k * d + j][i]).collect();
            E::slice_from_base_elements(&flat).to_vec()
        })
        .collect();
    let cm = ColMatrix::new(columns);
    let rows = n * b;
    let total = rows * cols * d;
    let picks: Vec<(usize, usize)> = if total <= full_upto {
        (0..rows).flat_map(|r| (0..cols * d).map(move |k| (r, k))).collect()
    } else {
        (0..256).map(|_| (rng.below(rows as u64) as usize, rng.below((cols * d) as u64) as usize)).chain([(0, 0), (rows - 1, cols * d - 1)]).collect()
    };
    let rm = RowMatrix::<E>::evaluate_polys_over::<8>(&cm, domain);
    let pj: Vec<Vec<u64>> = limbs.iter().map(|p| ints(p)).collect();
    ev.push(json!({"ev": "matrix", "fn": format!("RowMatrix::evaluate_polys_over<8> (extension degree {d})"), "n": n, "blowup": b, "offset": offset.v(),
                   "rows": rm.num_rows(), "cols": rm.num_cols() * d, "polys": pj, "chk": picks.iter().map(|p| vec![p.0, p.1]).collect::<Vec<_>>(),
                   "vals": picks.iter().map(|p| rm.get(p.1 / d, p.0).base_element(p.1 % d).v()).collect::<Vec<_>>()}));
}
