//! C13: replay of Bytes.tla behaviours on ReadAdapter / SliceReader / Cursor.
use std::collections::BTreeMap;
use std::io::{BufRead, Read};

use serde::Deserialize;
use serde_json::{json, Value};
use winter_utils::{ByteReader, DeserializationError, ReadAdapter, SliceReader};

use crate::common::{arg_value, guarded, panic_key, Rng};

#[derive(Deserialize, Clone, Debug)]
struct Res {
    ok: bool,
    #[serde(default)]
    val: Vec<u8>,
    #[serde(default)]
    err: String,
}
#[derive(Deserialize, Clone, Debug)]
struct Step {
    op: String,
    n: usize,
    res: Res,
    pos: usize,
}
#[derive(Deserialize, Clone, Debug)]
struct Scenario {
    sid: usize,
    steps: Vec<Step>,
}

/// A `Read` source that hands out the stream in the given chunk sizes (cycled); a chunk size of 0 is an
/// empty read before the end of the stream.
struct Chunked<'a> {
    data: &'a [u8],
    pos: usize,
    sizes: &'a [usize],
    k: usize,
}
impl<'a> Read for Chunked<'a> {
    fn read(&mut self, buf: &mut [u8]) -> std::io::Result<usize> {
        let want = self.sizes[self.k % self.sizes.len()];
        self.k += 1;
        let n = want.min(buf.len()).min(self.data.len() - self.pos);
        buf[..n].copy_from_slice(&self.data[self.pos..self.pos + n]);
        self.pos += n;
        Ok(n)
    }
}

#[derive(Debug, PartialEq, Clone)]
enum Obs {
    Ok(Vec<u8>),
    Err(&'static str),
}

fn class(e: &DeserializationError) -> &'static str {
    match e {
        DeserializationError::UnexpectedEOF => "eof",
        DeserializationError::InvalidValue(_) => "invalid",
        _ => "unknown",
    }
}
fn o<T>(r: Result<T, DeserializationError>, f: impl FnOnce(T) -> Vec<u8>) -> Obs {
    match r {
        Ok(v) => Obs::Ok(f(v)),
        Err(e) => Obs::Err(class(&e)),
    }
}

macro_rules! arr {
    ($r:expr, $n:expr, $($k:literal),*) => {
        match $n { $($k => o($r.read_array::<$k>(), |a| a.to_vec()),)* _ => panic!("harness: read_array<{}> not instantiated", $n) }
    };
}

fn apply<R: ByteReader>(r: &mut R, op: &str, n: usize) -> Obs {
    // Gen_Bytes.tla: Huge = usize::MAX, Huge - 1 = usize::MAX - 3 (TLC integers are 32-bit)
    let n = match n {
        2147483647 => usize::MAX,
        2147483646 => usize::MAX - 3,
        x => x,
    };
    match op {
        "read_u8" => o(r.read_u8(), |v| vec![v]),
        "peek_u8" => o(r.peek_u8(), |v| vec![v]),
        "read_bool" => o(r.read_bool(), |v| vec![v as u8]),
        "read_u16" => o(r.read_u16(), |v| v.to_le_bytes().to_vec()),
        "read_u32" => o(r.read_u32(), |v| v.to_le_bytes().to_vec()),
        "read_u64" => o(r.read_u64(), |v| v.to_le_bytes().to_vec()),
        "read_u128" => o(r.read_u128(), |v| v.to_le_bytes().to_vec()),
        "read_usize" => o(r.read_usize(), |v| (v as u64).to_le_bytes().to_vec()),
        "read_slice" => o(r.read_slice(n), |v| v.to_vec()),
        "read_vec" => o(r.read_vec(n), |v| v),
        "read_string" => o(r.read_string(n), |v| v.into_bytes()),
        "read_many_u16" => o(r.read_many::<u16>(n), |v| v.iter().flat_map(|x| x.to_le_bytes()).collect()),
        "read_many_u8" => o(r.read_many::<u8>(n), |v| v),
        "check_eor" => o(r.check_eor(n), |_| vec![]),
        "has_more_bytes" => Obs::Ok(vec![r.has_more_bytes() as u8]),
        "read_array" => arr!(r, n, 0, 1, 2, 3, 4, 8, 16, 17, 32, 64, 255, 256, 257, 300),
        _ => panic!("harness: unknown op {op}"),
    }
}

fn expected(s: &Step) -> Obs {
    if s.res.ok {
        Obs::Ok(s.res.val.clone())
    } else {
        Obs::Err(match s.res.err.as_str() {
            "eof" => "eof",
            "invalid" => "invalid",
            _ => "other",
        })
    }
}

/// Compares one observation with the contract. `streaming` enables the one permitted difference.
fn judge(step: &Step, got: &Obs, streaming: bool) -> Option<&'static str> {
    let exp = expected(step);
    if *got == exp {
        return None;
    }
    if streaming && step.op == "check_eor" {
        // optimism allowed only towards Ok; reporting missing data that is available is not
        return match (&exp, got) {
            (Obs::Err(_), Obs::Ok(_)) => None,
            _ => Some("reports-missing-data"),
        };
    }
    Some(match (&exp, got) {
        (Obs::Ok(_), Obs::Ok(_)) => "wrong-value",
        (Obs::Ok(_), Obs::Err(_)) => "err-instead-of-ok",
        (Obs::Err(_), Obs::Ok(_)) => "ok-instead-of-err",
        (Obs::Err(_), Obs::Err(_)) => "wrong-error-class",
    })
}

struct Fail {
    key: String,
    what: String,
    replay: Value,
}

/// R3: per-operation record of the adapter's internal state (hook `verif_state`) for Trace_ReadAdapter.tla.
fn trace_adapter(sc: &Scenario, stream: &[u8], chunks: &[usize], out: &mut Vec<String>) {
    let mut src = Chunked { data: stream, pos: 0, sizes: chunks, k: 0 };
    let mut a = ReadAdapter::new(&mut src);
    out.push(json!({"ev": "reset", "stream": stream, "chunks": chunks}).to_string());
    for st in &sc.steps {
        let got = match guarded(|| apply(&mut a, &st.op, st.n)) {
            Ok(g) => g,
            Err(_) => return, // reported by the replay comparison
        };
        let (buflen, bpos, rbuf, geof) = a.verif_state();
        let res = match got {
            Obs::Ok(v) => json!({"ok": true, "val": v}),
            Obs::Err(c) => json!({"ok": false, "err": c}),
        };
        out.push(json!({"ev": "op", "op": st.op, "n": st.n, "res": res,
            "st": {"buflen": buflen, "bpos": bpos, "rbuf": rbuf, "geof": geof}}).to_string());
    }
}

fn run_on<R: ByteReader>(
    r: &mut R,
    sc: &Scenario,
    stream: &[u8],
    streaming: bool,
    who: &str,
    cls: &str,
    chunks: &[usize],
) -> Option<Fail> {
    let mk = |kind: &str, i: usize, op: &str, got: String| Fail {
        key: format!("{who}/{cls}/{op}/{kind}"),
        what: format!("{who} deviates from the byte-reader contract at step {i} ({op}): {kind}; got {got}"),
        replay: json!({"sid": sc.sid, "stream": stream, "chunks": chunks, "who": who, "step": i,
                        "steps": sc.steps.iter().map(|s| json!({"op": s.op, "n": s.n,
                            "expect": if s.res.ok {json!({"ok": s.res.val})} else {json!({"err": s.res.err})},
                            "pos": s.pos})).collect::<Vec<_>>() }),
    };
    for (i, st) in sc.steps.iter().enumerate() {
        let got = match guarded(|| apply(r, &st.op, st.n)) {
            Ok(g) => g,
            Err(p) => {
                if p.contains("harness:") {
                    eprintln!("{p}");
                    std::process::exit(2);
                }
                return Some(mk(&format!("panic@{}", panic_key(&p)), i, &st.op, p));
            },
        };
        if let Some(kind) = judge(st, &got, streaming) {
            return Some(mk(kind, i, &st.op, format!("{:?}", trunc(&got))));
        }
    }
    // "consumes each byte exactly once": what is left must be exactly the unread suffix
    let last_pos = sc.steps.last().map(|s| s.pos).unwrap_or(0);
    let rest = &stream[last_pos..];
    let drained = guarded(|| {
        let mut v = Vec::new();
        while let Ok(b) = r.read_u8() {
            v.push(b);
            if v.len() > rest.len() + 4 {
                break;
            }
        }
        v
    });
    match drained {
        Ok(v) if v == rest => None,
        Ok(v) => Some(mk(
            "position",
            sc.steps.len(),
            &sc.steps.last().map(|s| s.op.clone()).unwrap_or_default(),
            format!("{} bytes left instead of {}", v.len(), rest.len()),
        )),
        Err(p) => Some(mk(&format!("panic@{}", panic_key(&p)), sc.steps.len(), "drain", p)),
    }
}

fn trunc(o: &Obs) -> Obs {
    match o {
        Obs::Ok(v) if v.len() > 24 => Obs::Ok(v[..24].to_vec()),
        x => x.clone(),
    }
}

pub fn main(args: &[String]) -> i32 {
    let path = arg_value(args, "--scenarios").expect("--scenarios");
    let seed: u64 = arg_value(args, "--seed").and_then(|s| s.parse().ok()).unwrap_or(1);
    let nrand: usize = arg_value(args, "--random-chunkings").and_then(|s| s.parse().ok()).unwrap_or(2);
    let trace_path = arg_value(args, "--trace");
    let trace_every: usize = arg_value(args, "--trace-every").and_then(|s| s.parse().ok()).unwrap_or(50);
    let mut trace: Vec<String> = Vec::new();
    let mut traced = 0usize;
    let f = std::io::BufReader::new(std::fs::File::open(path).expect("open scenarios"));
    let mut streams: Vec<Vec<u8>> = Vec::new();
    let mut fails: BTreeMap<String, (Fail, usize)> = BTreeMap::new();
    let mut execs = 0usize;
    let mut scenarios = 0usize;
    let mut steps = 0usize;
    let mut per_class: BTreeMap<String, usize> = BTreeMap::new();
    let mut rng = Rng(seed);

    // chunking classes: (class name, chunk sizes cycled)
    let mut chunkings: Vec<(String, Vec<usize>)> = vec![
        ("c1".into(), vec![1]),
        ("c7".into(), vec![7]),
        ("c255".into(), vec![255]),
        ("c256".into(), vec![256]),
        ("c257".into(), vec![257]),
        ("whole".into(), vec![1 << 20]),
        ("mixed".into(), vec![3, 1, 250, 2, 300, 16]),
        ("emptyread".into(), vec![5, 0, 3, 260, 0]),
    ];
    if let Some(fc) = arg_value(args, "--fixed-chunks") {
        let v: Vec<usize> = serde_json::from_str(fc).expect("--fixed-chunks json");
        chunkings = vec![("fixed".into(), v)];
    }
    for i in 0..(if arg_value(args, "--fixed-chunks").is_some() { 0 } else { nrand }) {
        let k = 1 + rng.below(6) as usize;
        let v: Vec<usize> = (0..k).map(|_| 1 + [1, 3, 15, 16, 17, 100, 255, 256, 257, 600][rng.below(10) as usize] as usize * (1 + rng.below(2) as usize) / 1).collect();
        chunkings.push((format!("rand{i}"), v));
    }

    for line in f.lines() {
        let line = line.unwrap();
        if line.trim().is_empty() {
            continue;
        }
        let v: Value = serde_json::from_str(&line).expect("json");
        if let Some(s) = v.get("streams") {
            streams = serde_json::from_value(s.clone()).unwrap();
            continue;
        }
        let sc: Scenario = serde_json::from_value(v).expect("scenario");
        let stream = &streams[sc.sid - 1];
        scenarios += 1;
        steps += sc.steps.len();
        let mut record = |f: Option<Fail>| {
            if let Some(f) = f {
                fails.entry(f.key.clone()).and_modify(|e| e.1 += 1).or_insert((f, 1));
            }
        };
        // in-memory readers
        {
            let mut r = SliceReader::new(stream);
            record(run_on(&mut r, &sc, stream, false, "slice", "mem", &[]));
            let mut c = std::io::Cursor::new(stream.as_slice());
            record(run_on(&mut c, &sc, stream, false, "cursor", "mem", &[]));
            execs += 2;
        }
        if trace_path.is_some() && scenarios % trace_every == 0 {
            let (_, sizes) = &chunkings[(scenarios / trace_every) % chunkings.len()];
            trace_adapter(&sc, stream, sizes, &mut trace);
            traced += 1;
        }
        for (cls, sizes) in &chunkings {
            let mut src = Chunked { data: stream, pos: 0, sizes, k: 0 };
            let mut a = ReadAdapter::new(&mut src);
            let cname = if cls.starts_with("rand") { "rand" } else { cls.as_str() };
            record(run_on(&mut a, &sc, stream, true, "adapter", cname, sizes));
            execs += 1;
            *per_class.entry(cname.to_string()).or_default() += 1;
        }
    }
    if let Some(p) = trace_path {
        std::fs::write(p, trace.join("\n") + "\n").expect("write trace");
    }
    let out = json!({
        "traced": traced, "trace_events": trace.len(),
        "scenarios": scenarios, "steps": steps, "executions": execs, "per_chunking": per_class,
        "failures": fails.values().map(|(f, n)| json!({"key": f.key, "what": f.what, "count": n, "replay": f.replay})).collect::<Vec<_>>(),
    });
    println!("{}", out);
    0
}
