//! C20 over the real fields and their extensions: the same operand sets as `poly` (Gen_Poly.tla), lifted into
//! f62 / f64 / f128 and their quadratic / cubic extensions, recorded for Trace_PolyF.tla.
use std::io::{BufRead, Write};

use serde::Deserialize;
use serde_json::{json, Value};
use winter_math::{
    add_in_place, batch_inversion,
    fields::{f128, f62, f64, CubeExtension, QuadExtension},
    get_power_series, get_power_series_with_offset, mul_acc, polynom, FieldElement, StarkField,
};
use winter_utils::Serializable;

use crate::common::{arg_value, guarded, panic_key, Rng};

#[derive(Deserialize, Clone, Debug)]
struct Cfg {
    kind: String,
    #[serde(default)]
    a: Vec<u64>,
    #[serde(default)]
    b: Vec<u64>,
    #[serde(default)]
    k: u64,
    #[serde(default)]
    da: usize,
    #[serde(default)]
    db: u64,
    #[serde(default)]
    npts: usize,
    #[serde(default)]
    zx: usize,
    #[serde(default)]
    len: usize,
    #[serde(default)]
    zeros: usize,
}

fn coeffs<E: FieldElement>(e: E) -> Vec<Vec<u8>> {
    (0..E::EXTENSION_DEGREE).map(|i| e.base_element(i).to_bytes()).collect()
}
fn cv<E: FieldElement>(v: &[E]) -> Vec<Vec<Vec<u8>>> {
    v.iter().map(|e| coeffs(*e)).collect()
}
/// the alphabet {0, 1, p-1, 7, 12345} of Gen_Poly in the base field: 0, 1, -1, 7 and a large element
fn lift_base<B: StarkField>(c: u64) -> B {
    match c {
        0 => B::ZERO,
        1 => B::ONE,
        40960 => -B::ONE,
        7 => B::from(7u32),
        _ => B::GENERATOR.exp(B::PositiveInteger::from(12345u32)) + B::from(c as u32),
    }
}
fn rand_base<B: StarkField>(rng: &mut Rng) -> B {
    B::GENERATOR.exp(B::PositiveInteger::from(rng.next() >> 1)) - B::from(rng.next() as u32)
}
/// zero stays zero (leading / trailing zero coefficients); other letters get higher coefficients that are zero one
/// time in three
fn lift<B: StarkField, E: FieldElement<BaseField = B>>(c: u64, rng: &mut Rng) -> E {
    if c == 0 {
        return E::ZERO;
    }
    let mut bs: Vec<B> = vec![lift_base::<B>(c)];
    for _ in 1..E::EXTENSION_DEGREE {
        bs.push(if rng.below(3) == 0 { B::ZERO } else { rand_base::<B>(rng) });
    }
    E::slice_from_base_elements(&bs)[0]
}
fn rand_elem<B: StarkField, E: FieldElement<BaseField = B>>(rng: &mut Rng, nonzero: bool) -> E {
    loop {
        let bs: Vec<B> = (0..E::EXTENSION_DEGREE).map(|i| if i > 0 && rng.below(4) == 0 { B::ZERO } else { rand_base::<B>(rng) }).collect();
        let e = E::slice_from_base_elements(&bs)[0];
        if !nonzero || e != E::ZERO {
            return e;
        }
    }
}

fn run<B: StarkField, E: FieldElement<BaseField = B>>(field: &str, deg: usize, cfgs: &[Cfg], out: &mut dyn Write, seed: u64) -> Vec<Value> {
    writeln!(out, "{}", json!({"ev": "hdr", "field": field, "deg": deg})).unwrap();
    let mut rng = Rng(seed);
    let mut panics: Vec<Value> = vec![];
    for c in cfgs {
        let r = guarded(|| {
            let mut evs: Vec<Value> = vec![];
            if c.kind == "polys" {
                let a: Vec<E> = c.a.iter().map(|x| lift::<B, E>(*x, &mut rng)).collect();
                let b: Vec<E> = c.b.iter().map(|x| lift::<B, E>(*x, &mut rng)).collect();
                let k: E = lift::<B, E>(c.k, &mut rng);
                let db: E = if c.db == 1 { E::ONE } else { lift::<B, E>(c.db, &mut rng) };
                let mut xs: Vec<E> = vec![];
                while xs.len() < c.npts {
                    let x = rand_elem::<B, E>(&mut rng, true);
                    if !xs.contains(&x) {
                        xs.push(x);
                    }
                }
                if c.zx >= 1 && c.zx <= xs.len() {
                    xs[c.zx - 1] = E::ZERO;
                }
                let ys: Vec<E> = (0..c.npts).map(|_| rand_elem::<B, E>(&mut rng, false)).collect();
                let mut res = serde_json::Map::new();
                res.insert("add".into(), json!(cv(&polynom::add(&a, &b))));
                res.insert("sub".into(), json!(cv(&polynom::sub(&a, &b))));
                res.insert("mul".into(), json!(cv(&polynom::mul(&a, &b))));
                res.insert("scale".into(), json!(cv(&polynom::mul_by_scalar(&a, k))));
                res.insert("degree_a".into(), json!(polynom::degree_of(&a)));
                res.insert("degree_b".into(), json!(polynom::degree_of(&b)));
                res.insert("rlz_a".into(), json!(cv(&polynom::remove_leading_zeros(&a))));
                let b_zero = b.iter().all(|x| *x == E::ZERO);
                let div_ok = !b_zero && polynom::degree_of(&a) >= polynom::degree_of(&b);
                res.insert("div_ok".into(), json!(div_ok));
                res.insert("div".into(), json!(if div_ok { cv(&polynom::div(&a, &b)) } else { vec![] }));
                let syn_ok = db != E::ZERO && a.len() > c.da;
                res.insert("syn_ok".into(), json!(syn_ok));
                res.insert("syn".into(), json!(if syn_ok { cv(&polynom::syn_div(&a, c.da, db)) } else { vec![] }));
                let roots: Vec<E> = xs.iter().take(2.min(xs.len())).cloned().collect();
                let synr_ok = !roots.is_empty() && a.len() > roots.len();
                res.insert("synr_ok".into(), json!(synr_ok));
                res.insert("synr".into(), json!(if synr_ok {
                    let mut p = a.clone();
                    polynom::syn_div_roots_in_place(&mut p, &roots);
                    cv(&p)
                } else {
                    vec![]
                }));
                res.insert("eval_a".into(), json!(coeffs(polynom::eval(&a, k))));
                res.insert("eval_many".into(), json!(cv(&polynom::eval_many(&a, &xs))));
                res.insert("from_roots".into(), json!(cv(&polynom::poly_from_roots(&xs))));
                res.insert("interp".into(), json!(cv(&polynom::interpolate(&xs, &ys, true))));
                res.insert("interp_keep".into(), json!(cv(&polynom::interpolate(&xs, &ys, false))));
                evs.push(json!({"ev": "polys", "a": cv(&a), "b": cv(&b), "k": coeffs(k), "da": c.da, "db": coeffs(db), "roots": cv(&roots), "xs": cv(&xs), "ys": cv(&ys),
                                "res": Value::Object(res)}));
                let rows = 1 + c.npts % 2;
                let mut bxs: Vec<[E; 4]> = vec![];
                let mut bys: Vec<[E; 4]> = vec![];
                for _ in 0..rows {
                    let mut row: Vec<E> = vec![];
                    while row.len() < 4 {
                        let x = rand_elem::<B, E>(&mut rng, true);
                        if !row.contains(&x) {
                            row.push(x);
                        }
                    }
                    if (c.zx + bxs.len()) % 2 == 1 {
                        row[(c.zx + bxs.len()) % 4] = E::ZERO;
                    }
                    bxs.push([row[0], row[1], row[2], row[3]]);
                    bys.push([rand_elem::<B, E>(&mut rng, false), rand_elem::<B, E>(&mut rng, false), rand_elem::<B, E>(&mut rng, false), rand_elem::<B, E>(&mut rng, false)]);
                }
                let polys = polynom::interpolate_batch(&bxs, &bys);
                evs.push(json!({"ev": "batch", "xs": bxs.iter().map(|r| cv(r)).collect::<Vec<_>>(), "ys": bys.iter().map(|r| cv(r)).collect::<Vec<_>>(),
                                "polys": polys.iter().map(|r| cv(r)).collect::<Vec<_>>()}));
            } else {
                let n = c.len;
                let b: E = rand_elem::<B, E>(&mut rng, true);
                let s: E = rand_elem::<B, E>(&mut rng, true);
                let mut vals: Vec<E> = (0..n).map(|_| rand_elem::<B, E>(&mut rng, true)).collect();
                match c.zeros {
                    1 if n > 0 => {
                        vals[0] = E::ZERO;
                        vals[n - 1] = E::ZERO;
                    },
                    2 => {
                        for i in (0..n).step_by(3) {
                            vals[i] = E::ZERO;
                        }
                    },
                    _ => {},
                }
                let other: Vec<E> = (0..n).map(|_| rand_elem::<B, E>(&mut rng, false)).collect();
                let series = get_power_series(b, n);
                let series_off = get_power_series_with_offset(b, s, n);
                let inv = batch_inversion(&vals);
                let mut added = vals.clone();
                add_in_place(&mut added, &other);
                let mut macc = vals.clone();
                mul_acc::<E, E>(&mut macc, &other, s);
                // the mixed form the prover uses: base-field values accumulated into extension elements
                let other_base: Vec<B> = (0..n).map(|_| rand_base::<B>(&mut rng)).collect();
                let mut macc_base = vals.clone();
                mul_acc::<B, E>(&mut macc_base, &other_base, s);
                // checked positions: all for short vectors; the ends, the batch boundaries and a sample otherwise
                let mut chk: Vec<usize> = if n <= 16 {
                    (0..n).collect()
                } else {
                    [0, 1, 2, 3, n / 4 - 1, n / 4, n / 2 - 1, n / 2, n / 2 + 1, 3 * n / 4, n - 3, n - 2, n - 1].into_iter().chain((0..6).map(|_| rng.below(n as u64) as usize)).collect()
                };
                chk.sort();
                chk.dedup();
                let at: Vec<Value> = chk
                    .iter()
                    .map(|&i| {
                        json!({"i": i, "val": coeffs(vals[i]), "other": coeffs(other[i]), "series": coeffs(series[i]), "series_off": coeffs(series_off[i]),
                               "inv": coeffs(inv[i]), "added": coeffs(added[i]), "macc": coeffs(macc[i]), "other_base": other_base[i].to_bytes(), "macc_base": coeffs(macc_base[i])})
                    })
                    .collect();
                evs.push(json!({"ev": "vectors", "len": n, "b": coeffs(b), "s": coeffs(s), "len_series": series.len(), "len_series_off": series_off.len(), "len_inv": inv.len(), "at": at}));
            }
            evs
        });
        match r {
            Ok(evs) => {
                for e in evs {
                    writeln!(out, "{}", e).unwrap();
                }
            },
            Err(p) => panics.push(json!({"cfg": format!("{:?}", c), "what": panic_key(&p), "field": field, "deg": deg})),
        }
    }
    panics
}

pub fn main(args: &[String]) -> i32 {
    let path = arg_value(args, "--scenarios").expect("--scenarios");
    let field = arg_value(args, "--field").expect("--field");
    let deg: usize = arg_value(args, "--deg").and_then(|s| s.parse().ok()).expect("--deg");
    let outp = arg_value(args, "--out").expect("--out");
    let seed: u64 = arg_value(args, "--seed").and_then(|s| s.parse().ok()).unwrap_or(1);
    let f = std::io::BufReader::new(std::fs::File::open(path).expect("open"));
    let cfgs: Vec<Cfg> = f.lines().map(|l| l.unwrap()).filter(|l| !l.trim().is_empty()).map(|l| serde_json::from_str(&l).expect("cfg")).collect();
    let mut out = std::io::BufWriter::new(std::fs::File::create(outp).unwrap());
    let panics = match (field, deg) {
        ("f64", 1) => run::<f64::BaseElement, f64::BaseElement>(field, deg, &cfgs, &mut out, seed),
        ("f64", 2) => run::<f64::BaseElement, QuadExtension<f64::BaseElement>>(field, deg, &cfgs, &mut out, seed),
        ("f64", 3) => run::<f64::BaseElement, CubeExtension<f64::BaseElement>>(field, deg, &cfgs, &mut out, seed),
        ("f62", 1) => run::<f62::BaseElement, f62::BaseElement>(field, deg, &cfgs, &mut out, seed),
        ("f62", 2) => run::<f62::BaseElement, QuadExtension<f62::BaseElement>>(field, deg, &cfgs, &mut out, seed),
        ("f62", 3) => run::<f62::BaseElement, CubeExtension<f62::BaseElement>>(field, deg, &cfgs, &mut out, seed),
        ("f128", 1) => run::<f128::BaseElement, f128::BaseElement>(field, deg, &cfgs, &mut out, seed),
        ("f128", 2) => run::<f128::BaseElement, QuadExtension<f128::BaseElement>>(field, deg, &cfgs, &mut out, seed),
        _ => return 2,
    };
    out.flush().unwrap();
    println!("{}", json!({"configs": cfgs.len(), "panics": panics}));
    0
}
