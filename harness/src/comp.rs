//! C17: the composition polynomial committed by the prover, evaluated at out-of-domain points, over ToyField; recorded with
//! the trace, the computation description and the coefficients for Trace_Comp.tla, which evaluates the definition.
use std::io::{BufRead, Write};

use serde::Deserialize;
use serde_json::{json, Value};
use winter_air::{Air, AuxRandElements, ConstraintCompositionCoefficients, LagrangeConstraintsCompositionCoefficients, LagrangeKernelRandElements};
use winter_math::{FieldElement, StarkField};
use winter_prover::{matrix::ColMatrix, CompositionPoly, ConstraintEvaluator, DefaultConstraintEvaluator, DefaultTraceLde, StarkDomain, TraceLde};
use winter_crypto::hashers::Blake3_256;

use crate::common::{arg_value, guarded, panic_key, Rng};
use crate::shape::{ShapeAir, ShapeInputs};
use crate::stark::{options_of, Scenario};
use crate::toy::{Toy, P};

/// The same over an extension E of ToyField: base-field main trace, extension-valued coefficients, random elements, auxiliary
/// columns, evaluation points and composition values (coefficient lists), for Trace_CompX.tla.
fn comp_ext<E: FieldElement<BaseField = Toy>>(sc: &Scenario, deg: usize) -> Value {
    let mut rng = Rng(sc.seed ^ 0xce);
    let xe = |rng: &mut Rng, nonzero: bool| -> E {
        loop {
            let bs: Vec<Toy> = (0..E::EXTENSION_DEGREE).map(|_| Toy::new(rng.below(P))).collect();
            let e = E::slice_from_base_elements(&bs)[0];
            if !nonzero || (e != E::ZERO && e != E::ONE) {
                return e;
            }
        }
    };
    let cj = |e: E| -> Vec<u64> { (0..E::EXTENSION_DEGREE).map(|i| e.base_element(i).v()).collect() };
    let cols = sc.shape.build_trace::<Toy>(sc.seed, sc.free_tail, false);
    let inputs = ShapeInputs::from_trace(&sc.shape, &cols);
    let air = ShapeAir::<Toy>::new(sc.shape.trace_info(), inputs.clone(), options_of(sc));
    let has_aux = sc.shape.aux_width() > 0;
    let log_n = sc.shape.n.ilog2() as usize;
    let nt = air.context().num_transition_constraints();
    let na = air.context().num_assertions();
    let cct: Vec<E> = (0..nt).map(|_| xe(&mut rng, true)).collect();
    let ccb: Vec<E> = (0..na).map(|_| xe(&mut rng, true)).collect();
    let rands: Vec<E> = (0..sc.shape.aux_rands).map(|_| xe(&mut rng, true)).collect();
    let lrands: Vec<E> = if sc.shape.lagrange { (0..log_n).map(|_| xe(&mut rng, true)).collect() } else { vec![] };
    let lct: Vec<E> = if sc.shape.lagrange { (0..log_n).map(|_| xe(&mut rng, true)).collect() } else { vec![] };
    let lcb = xe(&mut rng, true);
    let coeffs = ConstraintCompositionCoefficients {
        transition: cct.clone(),
        boundary: ccb.clone(),
        lagrange: if sc.shape.lagrange { Some(LagrangeConstraintsCompositionCoefficients { transition: lct.clone(), boundary: lcb }) } else { None },
    };
    let domain = StarkDomain::new(&air);
    let main = ColMatrix::new(cols.clone());
    let (mut trace_lde, _polys) = DefaultTraceLde::<E, Blake3_256<Toy>>::new(air.trace_info(), &main, &domain);
    let aux_cols: Vec<Vec<E>> = if has_aux { sc.shape.build_aux::<Toy, E>(&cols, &rands, if sc.shape.lagrange { Some(&lrands) } else { None }) } else { vec![] };
    let aux_rand = if has_aux {
        trace_lde.set_aux_trace(&ColMatrix::new(aux_cols.clone()), &domain);
        Some(AuxRandElements::new_with_lagrange(rands.clone(), if sc.shape.lagrange { Some(LagrangeKernelRandElements::new(lrands.clone())) } else { None }))
    } else {
        None
    };
    let evaluator = DefaultConstraintEvaluator::<ShapeAir<Toy>, E>::new(&air, aux_rand, coeffs);
    let cp_trace = evaluator.evaluate(&trace_lde, &domain);
    let ccols = air.context().num_constraint_composition_columns();
    let cp = CompositionPoly::new(cp_trace, &domain, ccols);
    let big = (sc.shape.n * sc.opts.blowup) as u64;
    let mut points: Vec<Value> = vec![];
    while points.len() < 2 {
        let x = xe(&mut rng, true);
        if x.base_element(1) == Toy::ZERO || x.exp(big.into()) == E::ONE {
            continue; // a proper extension element outside the domains
        }
        let h: Vec<Vec<u64>> = cp.evaluate_at(x).iter().map(|e| cj(*e)).collect();
        points.push(json!({"x": cj(x), "h": h}));
    }
    let cjv = |v: &[E]| v.iter().map(|e| cj(*e)).collect::<Vec<_>>();
    json!({"ev": "comp", "deg": deg, "id": sc.id, "n": sc.shape.n, "width": sc.shape.width, "degs": sc.shape.degs, "pcol": sc.shape.pcol, "neg": sc.shape.neg,
           "mode": sc.shape.mode, "exempt": sc.shape.exempt, "ccols": ccols,
           "periodic": sc.shape.periodic_values::<Toy>().iter().map(|c| c.iter().map(|e| e.v()).collect::<Vec<_>>()).collect::<Vec<_>>(),
           "asserts": sc.shape.asserts, "avalues": inputs.values.iter().map(|v| v.iter().map(|e| e.v()).collect::<Vec<_>>()).collect::<Vec<_>>(),
           "trace": cols.iter().map(|c| c.iter().map(|e| e.v()).collect::<Vec<_>>()).collect::<Vec<_>>(),
           "cct": cjv(&cct), "ccb": cjv(&ccb),
           "aux_degs": sc.shape.aux_degs, "lagrange": sc.shape.lagrange, "aux_asserts": sc.shape.aux_asserts,
           "aux": aux_cols.iter().map(|c| cjv(c)).collect::<Vec<_>>(),
           "rands": cjv(&rands), "lrands": cjv(&lrands), "lct": cjv(&lct), "lcb": cj(lcb), "nmain_asserts": sc.shape.asserts.len(),
           "g": Toy::get_root_of_unity(sc.shape.n.ilog2()).v(), "points": points})
}

pub fn main(args: &[String]) -> i32 {
    let path = arg_value(args, "--scenarios").expect("--scenarios");
    let outp = arg_value(args, "--out").expect("--out");
    let deg: usize = arg_value(args, "--deg").and_then(|s| s.parse().ok()).unwrap_or(1);
    let f = std::io::BufReader::new(std::fs::File::open(path).expect("open"));
    let scs: Vec<Scenario> = f.lines().map(|l| l.unwrap()).filter(|l| !l.trim().is_empty()).map(|l| serde_json::from_str(&l).expect("scenario")).collect();
    let mut out = std::io::BufWriter::new(std::fs::File::create(outp).unwrap());
    let mut panics: Vec<Value> = vec![];
    for sc in &scs {
        let r = guarded(|| {
            if deg == 2 {
                return comp_ext::<winter_math::fields::QuadExtension<Toy>>(sc, 2);
            } else if deg == 3 {
                return comp_ext::<winter_math::fields::CubeExtension<Toy>>(sc, 3);
            }
            let mut rng = Rng(sc.seed ^ 0xc0);
            let cols = sc.shape.build_trace::<Toy>(sc.seed, sc.free_tail, false);
            let inputs = ShapeInputs::from_trace(&sc.shape, &cols);
            let air = ShapeAir::<Toy>::new(sc.shape.trace_info(), inputs.clone(), options_of(sc));
            let has_aux = sc.shape.aux_width() > 0;
            let log_n = sc.shape.n.ilog2() as usize;
            let nt = air.context().num_transition_constraints();
            let na = air.context().num_assertions();
            let cct: Vec<Toy> = (0..nt).map(|_| Toy::new(1 + rng.below(P - 1))).collect();
            let ccb: Vec<Toy> = (0..na).map(|_| Toy::new(1 + rng.below(P - 1))).collect();
            // auxiliary segment: random elements, Lagrange random elements and coefficients chosen by the harness
            let rands: Vec<Toy> = (0..sc.shape.aux_rands).map(|_| Toy::new(1 + rng.below(P - 1))).collect();
            let lrands: Vec<Toy> = if sc.shape.lagrange { (0..log_n).map(|_| Toy::new(2 + rng.below(P - 3))).collect() } else { vec![] };
            let lct: Vec<Toy> = if sc.shape.lagrange { (0..log_n).map(|_| Toy::new(1 + rng.below(P - 1))).collect() } else { vec![] };
            let lcb = Toy::new(1 + rng.below(P - 1));
            let coeffs = ConstraintCompositionCoefficients {
                transition: cct.clone(),
                boundary: ccb.clone(),
                lagrange: if sc.shape.lagrange { Some(LagrangeConstraintsCompositionCoefficients { transition: lct.clone(), boundary: lcb }) } else { None },
            };
            let domain = StarkDomain::new(&air);
            let main = ColMatrix::new(cols.clone());
            let (mut trace_lde, _polys) = DefaultTraceLde::<Toy, Blake3_256<Toy>>::new(air.trace_info(), &main, &domain);
            let aux_cols: Vec<Vec<Toy>> = if has_aux { sc.shape.build_aux::<Toy, Toy>(&cols, &rands, if sc.shape.lagrange { Some(&lrands) } else { None }) } else { vec![] };
            let aux_rand = if has_aux {
                trace_lde.set_aux_trace(&ColMatrix::new(aux_cols.clone()), &domain);
                Some(AuxRandElements::new_with_lagrange(rands.clone(), if sc.shape.lagrange { Some(LagrangeKernelRandElements::new(lrands.clone())) } else { None }))
            } else {
                None
            };
            let evaluator = DefaultConstraintEvaluator::<ShapeAir<Toy>, Toy>::new(&air, aux_rand, coeffs);
            let cp_trace = evaluator.evaluate(&trace_lde, &domain);
            let ccols = air.context().num_constraint_composition_columns();
            let cp = CompositionPoly::new(cp_trace, &domain, ccols);
            // evaluation points outside the trace and LDE domains: x^(n * blowup) != 1 and x != 0
            let big = (sc.shape.n * sc.opts.blowup) as u64;
            let mut points: Vec<Value> = vec![];
            while points.len() < 3 {
                let x = Toy::new(2 + rng.below(P - 2));
                if x.exp(big) == Toy::ONE || (x / Toy::GENERATOR).exp(big) == Toy::ONE {
                    continue;
                }
                let h: Vec<u64> = cp.evaluate_at(x).iter().map(|e| e.v()).collect();
                points.push(json!({"x": x.v(), "h": h}));
            }
            json!({"ev": "comp", "id": sc.id, "n": sc.shape.n, "width": sc.shape.width, "degs": sc.shape.degs, "pcol": sc.shape.pcol, "neg": sc.shape.neg,
                   "mode": sc.shape.mode, "exempt": sc.shape.exempt, "ccols": ccols,
                   "periodic": sc.shape.periodic_values::<Toy>().iter().map(|c| c.iter().map(|e| e.v()).collect::<Vec<_>>()).collect::<Vec<_>>(),
                   "asserts": sc.shape.asserts, "avalues": inputs.values.iter().map(|v| v.iter().map(|e| e.v()).collect::<Vec<_>>()).collect::<Vec<_>>(),
                   "trace": cols.iter().map(|c| c.iter().map(|e| e.v()).collect::<Vec<_>>()).collect::<Vec<_>>(),
                   "cct": cct.iter().map(|e| e.v()).collect::<Vec<_>>(), "ccb": ccb.iter().map(|e| e.v()).collect::<Vec<_>>(),
                   "aux_degs": sc.shape.aux_degs, "lagrange": sc.shape.lagrange, "aux_asserts": sc.shape.aux_asserts,
                   "aux": aux_cols.iter().map(|c| c.iter().map(|e| e.v()).collect::<Vec<_>>()).collect::<Vec<_>>(),
                   "rands": rands.iter().map(|e| e.v()).collect::<Vec<_>>(), "lrands": lrands.iter().map(|e| e.v()).collect::<Vec<_>>(),
                   "lct": lct.iter().map(|e| e.v()).collect::<Vec<_>>(), "lcb": lcb.v(), "nmain_asserts": sc.shape.asserts.len(),
                   "g": Toy::get_root_of_unity(sc.shape.n.ilog2()).v(), "points": points})
        });
        match r {
            Ok(v) => writeln!(out, "{}", v).unwrap(),
            Err(p) => panics.push(json!({"id": sc.id, "what": panic_key(&p), "full": p.chars().take(600).collect::<String>()})),
        }
    }
    out.flush().unwrap();
    println!("{}", json!({"scenarios": scs.len(), "panics": panics}));
    0
}
