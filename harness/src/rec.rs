//! Recording wrappers: a hasher that delegates to the real one and logs every call (arguments and result).
//! Substituted for the hash-function type parameter of the coin, the Merkle tree, the prover and the verifier,
//! it exposes their complete sequence of hash operations without any hook in the repository.
use std::cell::RefCell;
use std::marker::PhantomData;

use serde_json::{json, Value};
use winter_crypto::{Digest, ElementHasher, Hasher};
use winter_math::FieldElement;
use winter_utils::Serializable;

#[derive(Clone, Debug)]
pub struct HCall {
    pub f: &'static str,
    pub a: Vec<Vec<u8>>, // byte arguments (digests as 32 padded bytes; elements as canonical bytes)
    pub v: u64,          // integer argument of merge_with_int
    pub out: [u8; 32],
}
impl HCall {
    pub fn to_json(&self) -> Value {
        json!({"f": self.f, "a": self.a, "v": self.v.to_le_bytes().to_vec(), "out": self.out.to_vec()})
    }
}

thread_local! {
    pub static HLOG: RefCell<Vec<HCall>> = RefCell::new(Vec::new());
    pub static HLOG_ON: RefCell<bool> = RefCell::new(false);
}
pub fn hlog_enable(on: bool) {
    HLOG_ON.with(|f| *f.borrow_mut() = on);
}
pub fn hlog_take() -> Vec<HCall> {
    HLOG.with(|l| std::mem::take(&mut *l.borrow_mut()))
}
fn push(c: HCall) {
    if HLOG_ON.with(|f| *f.borrow()) {
        HLOG.with(|l| l.borrow_mut().push(c));
    }
}

pub struct RecHasher<H>(PhantomData<H>);

impl<H: Hasher> Hasher for RecHasher<H> {
    type Digest = H::Digest;
    const COLLISION_RESISTANCE: u32 = H::COLLISION_RESISTANCE;

    fn hash(bytes: &[u8]) -> Self::Digest {
        let d = H::hash(bytes);
        push(HCall { f: "hash", a: vec![bytes.to_vec()], v: 0, out: d.as_bytes() });
        d
    }
    fn merge(values: &[Self::Digest; 2]) -> Self::Digest {
        let d = H::merge(values);
        push(HCall { f: "merge", a: vec![values[0].as_bytes().to_vec(), values[1].as_bytes().to_vec()], v: 0, out: d.as_bytes() });
        d
    }
    fn merge_with_int(seed: Self::Digest, value: u64) -> Self::Digest {
        let d = H::merge_with_int(seed, value);
        push(HCall { f: "merge_with_int", a: vec![seed.as_bytes().to_vec()], v: value, out: d.as_bytes() });
        d
    }
}

impl<H: ElementHasher> ElementHasher for RecHasher<H> {
    type BaseField = H::BaseField;
    fn hash_elements<E: FieldElement<BaseField = Self::BaseField>>(elements: &[E]) -> Self::Digest {
        let d = H::hash_elements(elements);
        let mut bytes = Vec::new();
        for e in elements {
            e.write_into(&mut bytes);
        }
        push(HCall { f: "hash_elements", a: vec![bytes], v: elements.len() as u64, out: d.as_bytes() });
        d
    }
}

// ---------------------------------------------------------------------------------------------------------
// recording coin
// ---------------------------------------------------------------------------------------------------------
use winter_crypto::{DefaultRandomCoin, RandomCoin, RandomCoinError};
use winter_math::StarkField;

#[derive(Clone, Debug)]
pub struct CCall {
    pub op: &'static str, // new | reseed | draw | ints | clz
    pub data: Vec<u8>,    // seed elements (canonical bytes) | digest (32) | drawn element bytes | nonce (8 LE)
    pub ints: Vec<u64>,   // draw_integers: results; ints[..] ; for "ints" also [num, domain] appended in `args`
    pub args: Vec<u64>,
}
impl CCall {
    pub fn to_json(&self) -> Value {
        json!({"op": self.op, "data": self.data, "ints": self.ints, "args": self.args})
    }
}
thread_local! {
    pub static CLOG: RefCell<Vec<CCall>> = RefCell::new(Vec::new());
}
pub fn clog_take() -> Vec<CCall> {
    CLOG.with(|l| std::mem::take(&mut *l.borrow_mut()))
}
fn cpush(c: CCall) {
    CLOG.with(|l| l.borrow_mut().push(c));
}

/// A RandomCoin that delegates to DefaultRandomCoin<H> and records every operation of prover and verifier.
pub struct RecCoin<H: ElementHasher>(DefaultRandomCoin<H>);

impl<B: StarkField, H: ElementHasher<BaseField = B>> RandomCoin for RecCoin<H> {
    type BaseField = B;
    type Hasher = H;

    fn new(seed: &[B]) -> Self {
        let mut bytes = Vec::new();
        for e in seed {
            e.write_into(&mut bytes);
        }
        cpush(CCall { op: "new", data: bytes, ints: vec![], args: vec![seed.len() as u64] });
        RecCoin(DefaultRandomCoin::new(seed))
    }
    fn reseed(&mut self, data: H::Digest) {
        cpush(CCall { op: "reseed", data: data.as_bytes().to_vec(), ints: vec![], args: vec![] });
        self.0.reseed(data)
    }
    fn check_leading_zeros(&self, value: u64) -> u32 {
        let r = self.0.check_leading_zeros(value);
        cpush(CCall { op: "clz", data: value.to_le_bytes().to_vec(), ints: vec![r as u64], args: vec![] });
        r
    }
    fn draw<E: FieldElement<BaseField = B>>(&mut self) -> Result<E, RandomCoinError> {
        let r = self.0.draw::<E>();
        let bytes = match &r {
            Ok(e) => e.to_bytes(),
            Err(_) => vec![],
        };
        cpush(CCall { op: "draw", data: bytes, ints: vec![], args: vec![E::EXTENSION_DEGREE as u64] });
        r
    }
    fn draw_integers(&mut self, num_values: usize, domain_size: usize, nonce: u64) -> Result<Vec<usize>, RandomCoinError> {
        let r = self.0.draw_integers(num_values, domain_size, nonce);
        let ints = match &r {
            Ok(v) => v.iter().map(|x| *x as u64).collect(),
            Err(_) => vec![],
        };
        cpush(CCall { op: "ints", data: nonce.to_le_bytes().to_vec(), ints, args: vec![num_values as u64, domain_size as u64] });
        r
    }
}

/// A prover-side coin that hands out query positions even when more are requested than the domain has points (the honest
/// coin asserts): the positions of the largest admissible draw, repeated. With it a prover written against the protocol produces a
/// proof whose header asks for at least as many queries as the LDE domain has points and that is honest up to the query phase.
pub struct ClampCoin<H: ElementHasher>(DefaultRandomCoin<H>);

impl<B: StarkField, H: ElementHasher<BaseField = B>> RandomCoin for ClampCoin<H> {
    type BaseField = B;
    type Hasher = H;
    fn new(seed: &[B]) -> Self {
        ClampCoin(DefaultRandomCoin::<H>::new(seed))
    }
    fn reseed(&mut self, data: H::Digest) {
        self.0.reseed(data)
    }
    fn check_leading_zeros(&self, value: u64) -> u32 {
        self.0.check_leading_zeros(value)
    }
    fn draw<E: FieldElement<BaseField = B>>(&mut self) -> Result<E, RandomCoinError> {
        self.0.draw()
    }
    fn draw_integers(&mut self, num_values: usize, domain_size: usize, nonce: u64) -> Result<Vec<usize>, RandomCoinError> {
        let k = num_values.min(domain_size - 1);
        let mut v = self.0.draw_integers(k, domain_size, nonce)?;
        while v.len() < num_values {
            let x = v[v.len() % k];
            v.push(x);
        }
        Ok(v)
    }
}
