//! Recording wrappers: a hasher that delegates to the real one and logs every call (arguments and result).
//! Substituted for the hash-function type parameter of the coin, the Merkle tree, the prover and the verifier,
//! it exposes their complete sequence of hash operations without any hook in the repository.
use std::cell::RefCell;
use std::marker::PhantomData;

use serde_json::{json, Value};
use winter_crypto::{Digest, ElementHasher, Hasher};
use winter_math::FieldElement;
use winter_utils::Serializable;

#[derive(Clone, Debug)]
pub struct HCall {
    pub f: &'static str,
    pub a: Vec<Vec<u8>>, // byte arguments (digests as 32 padded bytes; elements as canonical bytes)
    pub v: u64,          // integer argument of merge_with_int
    pub out: [u8; 32],
}
impl HCall {
    pub fn to_json(&self) -> Value {
        json!({"f": self.f, "a": self.a, "v": self.v.to_le_bytes().to_vec(), "out": self.out.to_vec()})
    }
}

thread_local! {
    pub static HLOG: RefCell<Vec<HCall>> = RefCell::new(Vec::new());
    pub static HLOG_ON: RefCell<bool> = RefCell::new(false);
}
pub fn hlog_enable(on: bool) {
    HLOG_ON.with(|f| *f.borrow_mut() = on);
}
pub fn hlog_take() -> Vec<HCall> {
    HLOG.with(|l| std::mem::take(&mut *l.borrow_mut()))
}
fn push(c: HCall) {
    if HLOG_ON.with(|f| *f.borrow()) {
        HLOG.with(|l| l.borrow_mut().push(c));
    }
}

pub struct RecHasher<H>(PhantomData<H>);

impl<H: Hasher> Hasher for RecHasher<H> {
    type Digest = H::Digest;
    const COLLISION_RESISTANCE: u32 = H::COLLISION_RESISTANCE;

    fn hash(bytes: &[u8]) -> Self::Digest {
        let d = H::hash(bytes);
        push(HCall { f: "hash", a: vec![bytes.to_vec()], v: 0, out: d.as_bytes() });
        d
    }
    fn merge(values: &[Self::Digest; 2]) -> Self::Digest {
        let d = H::merge(values);
        push(HCall { f: "merge", a: vec![values[0].as_bytes().to_vec(), values[1].as_bytes().to_vec()], v: 0, out: d.as_bytes() });
        d
    }
    fn merge_with_int(seed: Self::Digest, value: u64) -> Self::Digest {
        let d = H::merge_with_int(seed, value);
        push(HCall { f: "merge_with_int", a: vec![seed.as_bytes().to_vec()], v: value, out: d.as_bytes() });
        d
    }
}

impl<H: ElementHasher> ElementHasher for RecHasher<H> {
    type BaseField = H::BaseField;
    fn hash_elements<E: FieldElement<BaseField = Self::BaseField>>(elements: &[E]) -> Self::Digest {
        let d = H::hash_elements(elements);
        let mut bytes = Vec::new();
        for e in elements {
            e.write_into(&mut bytes);
        }
        push(HCall { f: "hash_elements", a: vec![bytes], v: elements.len() as u64, out: d.as_bytes() });
        d
    }
}
