use std::panic::{catch_unwind, AssertUnwindSafe};
use std::sync::Mutex;

pub static LAST_PANIC: Mutex<Option<String>> = Mutex::new(None);

/// Panics of the code under test are observations: record location + message, print nothing.
pub fn quiet_panics() {
    std::panic::set_hook(Box::new(|info| {
        let loc = info.location().map(|l| format!("{}:{}", l.file(), l.line())).unwrap_or_default();
        let msg = if let Some(s) = info.payload().downcast_ref::<&str>() {
            s.to_string()
        } else if let Some(s) = info.payload().downcast_ref::<String>() {
            s.clone()
        } else {
            "<non-string panic>".to_string()
        };
        if std::env::var("WFH_DEBUG").is_ok() { eprintln!("PANIC {loc}: {msg}"); }
        *LAST_PANIC.lock().unwrap() = Some(format!("{loc}: {msg}"));
    }));
}

/// Runs `f`, converting a panic into Err(location: message).
pub fn guarded<T>(f: impl FnOnce() -> T) -> Result<T, String> {
    match catch_unwind(AssertUnwindSafe(f)) {
        Ok(v) => Ok(v),
        Err(_) => Err(LAST_PANIC.lock().unwrap().take().unwrap_or_else(|| "panic".into())),
    }
}

/// Strips line numbers and long payloads so that a panic key is stable across unrelated edits.
pub fn panic_key(msg: &str) -> String {
    // "path/file.rs:123: message" -> "file.rs: message-prefix"
    let (loc, rest) = match msg.find(": ") {
        Some(i) => (&msg[..i], &msg[i + 2..]),
        None => ("", msg),
    };
    let file = loc.rsplit('/').next().unwrap_or(loc);
    let file = file.split(':').next().unwrap_or(file);
    let short: String = rest.chars().take(64).map(|c| if c.is_ascii_digit() { '#' } else { c }).collect();
    format!("{file}: {short}")
}

pub fn arg_value<'a>(args: &'a [String], name: &str) -> Option<&'a str> {
    args.iter().position(|a| a == name).and_then(|i| args.get(i + 1)).map(|s| s.as_str())
}

/// Small deterministic generator (splitmix64) so that every run is reproducible from VERIF_SEED.
#[derive(Clone)]
pub struct Rng(pub u64);
impl Rng {
    pub fn next(&mut self) -> u64 {
        self.0 = self.0.wrapping_add(0x9E3779B97F4A7C15);
        let mut z = self.0;
        z = (z ^ (z >> 30)).wrapping_mul(0xBF58476D1CE4E5B9);
        z = (z ^ (z >> 27)).wrapping_mul(0x94D049BB133111EB);
        z ^ (z >> 31)
    }
    pub fn below(&mut self, n: u64) -> u64 {
        if n == 0 { 0 } else { self.next() % n }
    }
    pub fn u128(&mut self) -> u128 {
        ((self.next() as u128) << 64) | self.next() as u128
    }
}
