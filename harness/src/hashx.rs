//! C11: hash functions.  Part A (all six hashers): totality and determinism over byte strings of every length up to three
//! rate blocks, sensitivity to length and trailing zeros, hash_elements independent of representation and typing and equal
//! to the documented byte definition (Blake3/SHA3), merge = hash of the concatenation, merge_with_int injective in the
//! integer.  Part B/C (Rescue): sponge schedule and permutation rounds, recorded for Trace_Hash.tla / Trace_Rescue.tla.
use std::io::Write;

use serde_json::{json, Value};
use winter_crypto::{
    hashers::{Blake3_192, Blake3_256, Rp62_248, Rp64_256, RpJive64_256, Sha3_256},
    Digest, ElementHasher, Hasher,
};
use winter_math::{
    fields::{f128, f62, f64, QuadExtension},
    FieldElement, StarkField,
};
use winter_utils::Serializable;

use crate::common::{arg_value, guarded, panic_key, Rng};

fn d<H: Hasher>(x: H::Digest) -> Vec<u8> {
    x.as_bytes().to_vec()
}

fn part_a<B: StarkField + winter_math::ExtensibleField<2>, H: ElementHasher<BaseField = B>>(name: &str, byte_hasher: bool, maxlen: usize, out: &mut dyn Write, rng: &mut Rng) {
    writeln!(out, "{}", json!({"ev": "hasher", "name": name, "byte_hasher": byte_hasher})).unwrap();
    // byte strings of every length
    for n in 0..=maxlen {
        let x: Vec<u8> = (0..n).map(|_| rng.next() as u8).collect();
        let r = guarded(|| {
            let d0 = H::hash(&x);
            let mut x1 = x.clone();
            x1.push(0);
            let d1 = H::hash(&x1);
            let again = H::hash(&x);
            let dm = if n > 0 { Some(H::hash(&x[..n - 1])) } else { None };
            json!({"ev": "bytes", "len": n, "d0": d::<H>(d0), "d1": d::<H>(d1), "again": d::<H>(again), "shorter": dm.map(|v| d::<H>(v)).unwrap_or_default()})
        });
        match r {
            Ok(v) => writeln!(out, "{}", v).unwrap(),
            Err(p) => writeln!(out, "{}", json!({"ev": "panic", "what": panic_key(&p), "fn": "hash", "len": n})).unwrap(),
        }
    }
    // elements: lengths around the rate boundaries; base typing vs extension typing; canonical bytes definition
    for n in [0usize, 1, 2, 3, 4, 7, 8, 9, 15, 16, 17, 24, 25] {
        let base: Vec<B> = (0..2 * n).map(|i| match i % 5 {
            0 => B::ZERO,
            1 => -B::ONE,
            2 => B::ONE,
            _ => B::from(rng.next() as u32) * B::from(rng.next() as u32),
        }).collect();
        let r = guarded(|| {
            let as_base = H::hash_elements(&base);
            let ext: &[QuadExtension<B>] = QuadExtension::<B>::slice_from_base_elements(&base);
            let as_ext = H::hash_elements(ext);
            // the same residues reached through a different sequence of operations (internal representation may differ)
            let other: Vec<B> = base.iter().map(|e| (*e + B::ONE).double() - *e - B::ONE - B::ONE).collect();
            let as_other = H::hash_elements(&other);
            let mut bytes = Vec::new();
            for e in &base {
                e.write_into(&mut bytes);
            }
            let of_bytes = H::hash(&bytes);
            json!({"ev": "elements", "n": base.len(), "as_base": d::<H>(as_base), "as_ext": d::<H>(as_ext), "as_other": d::<H>(as_other), "of_bytes": d::<H>(of_bytes),
                   "canonical": base.iter().map(|e| e.to_bytes()).collect::<Vec<_>>()})
        });
        match r {
            Ok(v) => writeln!(out, "{}", v).unwrap(),
            Err(p) => writeln!(out, "{}", json!({"ev": "panic", "what": panic_key(&p), "fn": "hash_elements", "len": n})).unwrap(),
        }
    }
    // merge and merge_with_int
    for k in 0..8u64 {
        let a = H::hash(&[k as u8, 1]);
        let b = H::hash(&[k as u8, 2]);
        let r = guarded(|| {
            let m = H::merge(&[a, b]);
            let m_swapped = H::merge(&[b, a]);
            let mut cat = a.to_bytes();
            cat.extend(b.to_bytes());
            let of_cat = H::hash(&cat);
            json!({"ev": "merge", "out": d::<H>(m), "swapped": d::<H>(m_swapped), "of_concat": d::<H>(of_cat)})
        });
        match r {
            Ok(v) => writeln!(out, "{}", v).unwrap(),
            Err(p) => writeln!(out, "{}", json!({"ev": "panic", "what": panic_key(&p), "fn": "merge"})).unwrap(),
        }
        let m64: u64 = {
            let mb = B::get_modulus_le_bytes();
            let mut b8 = [0u8; 8];
            b8.copy_from_slice(&mb[..8]);
            u64::from_le_bytes(b8)
        };
        let ints: Vec<u64> = vec![0, 1, 2, m64.wrapping_sub(1), m64, m64.wrapping_add(1), m64.wrapping_add(2), u64::MAX, u64::MAX - 1, 1 << 32, (1 << 32) - 1, 1 << 63, 2u64.wrapping_mul(m64), 2u64.wrapping_mul(m64).wrapping_add(1)];
        let r = guarded(|| {
            let outs: Vec<Vec<u8>> = ints.iter().map(|v| d::<H>(H::merge_with_int(a, *v))).collect();
            let mut cat = a.to_bytes();
            cat.extend(ints[3].to_le_bytes());
            json!({"ev": "merge_int", "ints": ints.iter().map(|v| v.to_le_bytes().to_vec()).collect::<Vec<_>>(), "outs": outs, "of_concat3": d::<H>(H::hash(&cat))})
        });
        match r {
            Ok(v) => writeln!(out, "{}", v).unwrap(),
            Err(p) => writeln!(out, "{}", json!({"ev": "panic", "what": panic_key(&p), "fn": "merge_with_int"})).unwrap(),
        }
    }
}

pub fn main(args: &[String]) -> i32 {
    let outdir = arg_value(args, "--out").expect("--out");
    let maxlen: usize = arg_value(args, "--maxlen").and_then(|s| s.parse().ok()).unwrap_or(200);
    let seed: u64 = arg_value(args, "--seed").and_then(|s| s.parse().ok()).unwrap_or(1);
    let mut files = vec![];
    macro_rules! go {
        ($name:expr, $B:ty, $H:ty, $byte:expr) => {{
            let p = format!("{outdir}/hash_{}.ndjson", $name);
            let mut f = std::io::BufWriter::new(std::fs::File::create(&p).unwrap());
            let mut rng = Rng(seed);
            part_a::<$B, $H>($name, $byte, maxlen, &mut f, &mut rng);
            f.flush().unwrap();
            files.push(json!({"hasher": $name, "path": p}));
        }};
    }
    go!("blake3_256", f64::BaseElement, Blake3_256<f64::BaseElement>, true);
    go!("blake3_192", f62::BaseElement, Blake3_192<f62::BaseElement>, true);
    go!("sha3_256", f128::BaseElement, Sha3_256<f128::BaseElement>, true);
    go!("rp62_248", f62::BaseElement, Rp62_248, false);
    go!("rp64_256", f64::BaseElement, Rp64_256, false);
    go!("rpjive64_256", f64::BaseElement, RpJive64_256, false);
    println!("{}", json!({"files": files}));
    0
}

// ---------------------------------------------------------------------------------------------------------
// Rescue permutations (part C) and sponges (part B)
// ---------------------------------------------------------------------------------------------------------
trait RescueApi<const W: usize> {
    type F: StarkField;
    const NAME: &'static str;
    const ALPHA: u64;
    const INV_ALPHA: u64;
    const RATE_START: usize;
    const RATE_WIDTH: usize;
    const CAP_START: usize;
    const DIGEST_START: usize;
    fn mds() -> [[Self::F; W]; W];
    fn inv_mds() -> Option<[[Self::F; W]; W]> {
        None
    }
    fn ark1() -> Vec<[Self::F; W]>;
    fn ark2() -> Vec<[Self::F; W]>;
    fn round(s: &mut [Self::F; W], r: usize);
    fn perm(s: &mut [Self::F; W]);
    fn internal(v: u64) -> Self::F; // an element whose internal limb is v (where the type allows it)
    /// the internal (Montgomery) limb of an element, for the types whose MDS product works on limbs
    fn limb(_e: Self::F) -> Option<u64> {
        None
    }
    fn hash_bytes(_b: &[u8]) -> Option<Vec<Vec<u8>>> {
        None
    }
    fn hash_elems(_e: &[Self::F]) -> Option<Vec<Vec<u8>>> {
        None
    }
    /// Jive: the last partial block is completed by writing 1, 0, .. over the rate, the capacity holds a padding flag
    const JIVE: bool = false;
    /// (a, b, merge(a, b)) for two digests obtained by hashing seeded bytes; elements as canonical bytes
    fn merge_ev(k: u64) -> (Vec<Vec<u8>>, Vec<Vec<u8>>, Vec<Vec<u8>>);
    /// (seed, merge_with_int(seed, v))
    fn merge_int_ev(k: u64, v: u64) -> (Vec<Vec<u8>>, Vec<Vec<u8>>);
}
macro_rules! merge_impls {
    ($H:ty) => {
        fn merge_ev(k: u64) -> (Vec<Vec<u8>>, Vec<Vec<u8>>, Vec<Vec<u8>>) {
            let a = <$H>::hash(&[k as u8, 0xa1, (k >> 8) as u8]);
            let b = <$H>::hash(&[k as u8, 0xb2]);
            let m = <$H>::merge(&[a, b]);
            let e = |d: &<$H as Hasher>::Digest| d.as_elements().iter().map(|x| ib(*x)).collect::<Vec<_>>();
            (e(&a), e(&b), e(&m))
        }
        fn merge_int_ev(k: u64, v: u64) -> (Vec<Vec<u8>>, Vec<Vec<u8>>) {
            let a = <$H>::hash(&[k as u8, 0xc3]);
            let m = <$H>::merge_with_int(a, v);
            let e = |d: &<$H as Hasher>::Digest| d.as_elements().iter().map(|x| ib(*x)).collect::<Vec<_>>();
            (e(&a), e(&m))
        }
    };
}
struct A64;
impl RescueApi<12> for A64 {
    type F = f64::BaseElement;
    const NAME: &'static str = "rp64_256";
    const ALPHA: u64 = 7;
    const INV_ALPHA: u64 = 10540996611094048183;
    const RATE_START: usize = 4;
    const RATE_WIDTH: usize = 8;
    const CAP_START: usize = 0;
    const DIGEST_START: usize = 4;
    fn mds() -> [[Self::F; 12]; 12] {
        Rp64_256::MDS
    }
    fn inv_mds() -> Option<[[Self::F; 12]; 12]> {
        Some(Rp64_256::INV_MDS)
    }
    fn ark1() -> Vec<[Self::F; 12]> {
        Rp64_256::ARK1.to_vec()
    }
    fn ark2() -> Vec<[Self::F; 12]> {
        Rp64_256::ARK2.to_vec()
    }
    fn round(s: &mut [Self::F; 12], r: usize) {
        Rp64_256::apply_round(s, r)
    }
    fn perm(s: &mut [Self::F; 12]) {
        Rp64_256::apply_permutation(s)
    }
    fn internal(v: u64) -> Self::F {
        f64::BaseElement::from_mont(v % 0xFFFFFFFF00000001)
    }
    fn limb(e: Self::F) -> Option<u64> {
        Some(e.inner())
    }
    fn hash_bytes(b: &[u8]) -> Option<Vec<Vec<u8>>> {
        Some(Rp64_256::hash(b).as_elements().iter().map(|e| ib(*e)).collect())
    }
    fn hash_elems(e: &[Self::F]) -> Option<Vec<Vec<u8>>> {
        Some(Rp64_256::hash_elements(e).as_elements().iter().map(|e| ib(*e)).collect())
    }
    merge_impls!(Rp64_256);
}
struct AJ;
impl RescueApi<8> for AJ {
    type F = f64::BaseElement;
    const NAME: &'static str = "rpjive64_256";
    const ALPHA: u64 = 7;
    const INV_ALPHA: u64 = 10540996611094048183;
    const RATE_START: usize = 4;
    const RATE_WIDTH: usize = 4;
    const CAP_START: usize = 0;
    const DIGEST_START: usize = 4;
    fn mds() -> [[Self::F; 8]; 8] {
        RpJive64_256::MDS
    }
    fn inv_mds() -> Option<[[Self::F; 8]; 8]> {
        Some(RpJive64_256::INV_MDS)
    }
    fn ark1() -> Vec<[Self::F; 8]> {
        RpJive64_256::ARK1.to_vec()
    }
    fn ark2() -> Vec<[Self::F; 8]> {
        RpJive64_256::ARK2.to_vec()
    }
    fn round(s: &mut [Self::F; 8], r: usize) {
        RpJive64_256::apply_round(s, r)
    }
    fn perm(s: &mut [Self::F; 8]) {
        RpJive64_256::apply_permutation(s)
    }
    fn internal(v: u64) -> Self::F {
        f64::BaseElement::from_mont(v % 0xFFFFFFFF00000001)
    }
    fn limb(e: Self::F) -> Option<u64> {
        Some(e.inner())
    }
    const JIVE: bool = true;
    fn hash_bytes(b: &[u8]) -> Option<Vec<Vec<u8>>> {
        Some(RpJive64_256::hash(b).as_elements().iter().map(|e| ib(*e)).collect())
    }
    fn hash_elems(e: &[Self::F]) -> Option<Vec<Vec<u8>>> {
        Some(RpJive64_256::hash_elements(e).as_elements().iter().map(|e| ib(*e)).collect())
    }
    merge_impls!(RpJive64_256);
}
struct A62;
impl RescueApi<12> for A62 {
    type F = f62::BaseElement;
    const NAME: &'static str = "rp62_248";
    const ALPHA: u64 = 3;
    const INV_ALPHA: u64 = 3074416663688030891;
    const RATE_START: usize = 0;
    const RATE_WIDTH: usize = 8;
    const CAP_START: usize = 11;
    const DIGEST_START: usize = 0;
    fn mds() -> [[Self::F; 12]; 12] {
        Rp62_248::VERIF_MDS
    }
    fn ark1() -> Vec<[Self::F; 12]> {
        winter_crypto::hashers::Rp62_248::verif_ark1()
    }
    fn ark2() -> Vec<[Self::F; 12]> {
        winter_crypto::hashers::Rp62_248::verif_ark2()
    }
    fn round(s: &mut [Self::F; 12], r: usize) {
        Rp62_248::verif_apply_round(s, r)
    }
    fn perm(s: &mut [Self::F; 12]) {
        Rp62_248::verif_apply_permutation(s)
    }
    fn internal(v: u64) -> Self::F {
        f62::BaseElement::new(v)
    }
    fn hash_bytes(b: &[u8]) -> Option<Vec<Vec<u8>>> {
        Some(Rp62_248::hash(b).as_elements().iter().map(|e| ib(*e)).collect())
    }
    fn hash_elems(e: &[Self::F]) -> Option<Vec<Vec<u8>>> {
        Some(Rp62_248::hash_elements(e).as_elements().iter().map(|e| ib(*e)).collect())
    }
    merge_impls!(Rp62_248);
}

fn ib<F: StarkField>(e: F) -> Vec<u8> {
    e.to_bytes()
}
fn st<F: StarkField, const W: usize>(s: &[F; W]) -> Vec<Vec<u8>> {
    s.iter().map(|e| ib(*e)).collect()
}

fn rescue_trace<const W: usize, A: RescueApi<W>>(out: &mut dyn Write, nstates: usize, rng: &mut Rng) {
    let mds = A::mds();
    writeln!(out, "{}", json!({"ev": "consts", "name": A::NAME, "width": W, "alpha": A::ALPHA, "inv_alpha": A::INV_ALPHA.to_le_bytes().to_vec(),
        "mds": mds.iter().map(|r| st(r)).collect::<Vec<_>>(),
        "inv_mds": A::inv_mds().map(|m| m.iter().map(|r| st(r)).collect::<Vec<_>>()).unwrap_or_default(), "ark1": A::ark1().iter().map(|r| st(r)).collect::<Vec<_>>(),
        "ark2": A::ark2().iter().map(|r| st(r)).collect::<Vec<_>>()})).unwrap();
    // states with boundary limbs in every position, and random states
    let boundary: [u64; 8] = [0, 1, (1 << 32) - 1, 1 << 32, 0xFFFFFFFF00000000, 0xFFFFFFFEFFFFFFFF, (1 << 63) + 5, u64::MAX];
    let ncarry = if A::limb(A::F::ONE).is_some() { nstates.min(W) } else { 0 };
    for k in 0..nstates + ncarry {
        let mut s = [A::F::ZERO; W];
        for i in 0..W {
            s[i] = if k < 2 * W {
                // boundary limb in position k % W (internal image where possible), others small
                if i == k % W { A::internal(boundary[(k / W * 3 + i) % 8]) } else { A::F::from((i + 1) as u32) }
            } else if k % 3 == 0 {
                A::internal(boundary[(rng.next() % 8) as usize])
            } else {
                A::F::from(rng.next() as u32) * A::F::from(rng.next() as u32)
            };
        }
        // states that drive the limb-wise MDS product of the first half-round into its final carry branch: the state after
        // the S-box is chosen limb by limb (boundary limbs, one solved so that row k's integer dot product ends just below
        // a multiple of 2^64), the input of the round is its image under the inverse S-box
        if k >= nstates {
            let i = k - nstates;
            match carry_state::<W, A>(&mds, i * W / ncarry, i) {
                Some(x) => s = x,
                None => eprintln!("harness: no carry state for {} row {}", A::NAME, i * W / ncarry),
            }
        }
        let start = s;
        let mut chain = vec![st(&s)];
        let mut canon = true;
        for r in 0..7 {
            A::round(&mut s, r);
            chain.push(st(&s));
            canon &= s.iter().all(|e| *e == A::F::read_from_bytes(&e.to_bytes()).unwrap());
        }
        let mut p = start;
        A::perm(&mut p);
        writeln!(out, "{}", json!({"ev": "perm", "chain": chain, "perm": st(&p), "canon": canon})).unwrap();
    }
}
use winter_utils::Deserializable;

/// A round input whose post-S-box state makes `row` of the limb-wise MDS product overflow in the final reduction
/// (s_lo + (2^32-1)*s_hi >= 2^64), or None for types without limb access / when no such state is found.
fn carry_state<const W: usize, A: RescueApi<W>>(mds: &[[A::F; W]; W], row: usize, variant: usize) -> Option<[A::F; W]> {
    A::limb(A::F::ONE)?;
    const P: u64 = 0xFFFFFFFF00000001;
    let m: Vec<u128> = mds[row].iter().map(|e| { let b = e.to_bytes(); u64::from_le_bytes(b[..8].try_into().unwrap()) as u128 }).collect();
    let jj = (0..W).find(|&j| m[j] % 2 == 1)?;
    let pats: [u64; 6] = [1 << 32, (1 << 32) - 1, P - 1, 0xFFFFFFFEFFFFFFFF, 0xFFFFFFFF, 0x100000001];
    let mut t = [0u64; W];
    for j in 0..W {
        t[j] = pats[(j + row + variant) % pats.len()];
    }
    // inverse of the odd matrix entry modulo 2^64 (Newton iteration)
    let mm = m[jj] as u64;
    let mut inv: u64 = 1;
    for _ in 0..6 {
        inv = inv.wrapping_mul(2u64.wrapping_sub(mm.wrapping_mul(inv)));
    }
    let rest: u128 = (0..W).filter(|&j| j != jj).map(|j| m[j] * t[j] as u128).sum();
    for delta in [0u64, 1, 12345, 1 << 20, 1 << 31] {
        let target = u64::MAX - delta;
        let tj = target.wrapping_sub(rest as u64).wrapping_mul(inv);
        if tj >= P {
            continue;
        }
        t[jj] = tj;
        let sum: u128 = rest + m[jj] * tj as u128;
        let (s_hi, s_lo) = ((sum >> 64) as u64, sum as u64);
        let z = (s_hi << 32) - s_hi;
        if s_lo.checked_add(z).is_some() {
            continue; // no carry with this choice
        }
        // the round input: inverse S-box of the chosen state; keep it only if the S-box really lands on the chosen limbs
        let mut x = [A::F::ZERO; W];
        let mut ok = true;
        for j in 0..W {
            let target_e = A::internal(t[j]);
            x[j] = target_e.exp(A::INV_ALPHA.into());
            let back = x[j].exp(A::ALPHA.into());
            ok &= back == target_e && A::limb(back) == Some(t[j]);
        }
        if ok {
            return Some(x);
        }
    }
    None
}

/// Part B: the harness feeds the library's permutation along the sponge and records every state before and after each
/// permutation call together with the digest the library's own hash function returns; Trace_Rescue.tla recomputes the
/// absorbed states from the sponge definition and uses the recorded permutation images as an oracle.
fn sponge_trace<const W: usize, A: RescueApi<W>>(out: &mut dyn Write, rng: &mut Rng) {
    let drive = |elems: &[A::F]| -> Vec<(Vec<Vec<u8>>, Vec<Vec<u8>>)> {
        let mut state = [A::F::ZERO; W];
        state[A::CAP_START] = if A::JIVE { A::F::from((elems.len() % A::RATE_WIDTH != 0) as u32) } else { A::F::from(elems.len() as u32) };
        let mut pairs = vec![];
        for block in elems.chunks(A::RATE_WIDTH) {
            for (i, e) in block.iter().enumerate() {
                state[A::RATE_START + i] += *e;
            }
            if A::JIVE && block.len() < A::RATE_WIDTH {
                state[A::RATE_START + block.len()] = A::F::ONE;
                for i in block.len() + 1..A::RATE_WIDTH {
                    state[A::RATE_START + i] = A::F::ZERO;
                }
            }
            let pre = st(&state);
            A::perm(&mut state);
            pairs.push((pre, st(&state)));
        }
        pairs
    };
    for n in [0usize, 1, 2, 3, 4, 5, 6, 7, 8, 9, 10, 11, 12, 13, 15, 16, 17, 24] {
        let elems: Vec<A::F> = (0..n).map(|i| if i % 4 == 0 { -A::F::ONE } else { A::F::from(rng.next() as u32) * A::F::from(rng.next() as u32) }).collect();
        let hd = match guarded(|| A::hash_elems(&elems)) {
            Ok(d) => d,
            Err(p) => {
                writeln!(out, "{}", json!({"ev": "panic", "fn": "hash_elements", "len": n, "what": panic_key(&p)})).unwrap();
                None
            },
        };
        if let Some(digest) = hd {
            let pairs = drive(&elems);
            writeln!(out, "{}", json!({"ev": "sponge", "kind": "elements", "elems": elems.iter().map(|e| ib(*e)).collect::<Vec<_>>(), "bytes": Vec::<u8>::new(),
                "pre": pairs.iter().map(|p| p.0.clone()).collect::<Vec<_>>(), "post": pairs.iter().map(|p| p.1.clone()).collect::<Vec<_>>(), "digest": digest})).unwrap();
        }
    }
    for n in [0usize, 1, 6, 7, 8, 13, 14, 15, 55, 56, 57, 62, 63, 64, 112, 113, 120] {
        let bytes: Vec<u8> = (0..n).map(|i| if i % 5 == 4 { 0 } else { rng.next() as u8 }).collect();
        let hd = match guarded(|| A::hash_bytes(&bytes)) {
            Ok(d) => d,
            Err(p) => {
                writeln!(out, "{}", json!({"ev": "panic", "fn": "hash", "len": n, "what": panic_key(&p)})).unwrap();
                None
            },
        };
        if let Some(digest) = hd {
            // elements of a byte string: 7-byte chunks, the last one padded with a 1 byte
            let nchunks = (n + 6) / 7;
            let elems: Vec<A::F> = bytes.chunks(7).enumerate().map(|(k, c)| {
                let mut buf = [0u8; 8];
                buf[..c.len()].copy_from_slice(c);
                if k == nchunks - 1 {
                    buf[c.len()] = 1;
                }
                A::F::read_from_bytes(&buf).unwrap()
            }).collect();
            let pairs = drive(&elems);
            writeln!(out, "{}", json!({"ev": "sponge", "kind": "bytes", "elems": elems.iter().map(|e| ib(*e)).collect::<Vec<_>>(), "bytes": bytes,
                "pre": pairs.iter().map(|p| p.0.clone()).collect::<Vec<_>>(), "post": pairs.iter().map(|p| p.1.clone()).collect::<Vec<_>>(), "digest": digest})).unwrap();
        }
    }
    // merge and merge_with_int: the state handed to the permutation is rebuilt here from the documented layout; TLC derives the
    // same state from (a, b) / (seed, integer) and the digest from the recorded permutation image
    let from_b = |x: &Vec<u8>| A::F::read_from_bytes(x).unwrap();
    let m64: u64 = {
        let mb = A::F::get_modulus_le_bytes();
        u64::from_le_bytes(mb[..8].try_into().unwrap())
    };
    for k in 0..4u64 {
        let (a, b, m) = A::merge_ev(k);
        let mut state = [A::F::ZERO; W];
        if A::JIVE {
            for i in 0..4 {
                state[i] = from_b(&a[i]);
                state[4 + i] = from_b(&b[i]);
            }
        } else {
            state[A::CAP_START] = A::F::from(8u32);
            for i in 0..4 {
                state[A::RATE_START + i] = from_b(&a[i]);
                state[A::RATE_START + 4 + i] = from_b(&b[i]);
            }
        }
        let pre = st(&state);
        A::perm(&mut state);
        writeln!(out, "{}", json!({"ev": "rmerge", "a": a, "b": b, "pre": pre, "post": st(&state), "digest": m})).unwrap();
    }
    let ints: Vec<u64> = vec![0, 1, 5, m64 - 1, m64, m64 + 1, m64 + 2, m64.wrapping_mul(2).wrapping_sub(1), m64.wrapping_mul(2), m64.wrapping_mul(2).wrapping_add(1),
                              m64.wrapping_mul(3), m64.wrapping_mul(4).wrapping_add(3), u64::MAX, u64::MAX - 1, 1 << 32, 1 << 62, 1 << 63, rng.next(), rng.next() | (1 << 63)];
    for (k, v) in ints.into_iter().enumerate() {
        let (seed, m) = A::merge_int_ev(k as u64, v);
        let mut state = [A::F::ZERO; W];
        let lo = A::F::read_from_bytes(&(v % m64).to_le_bytes()).unwrap();
        let hi = v / m64;
        let cnt = A::F::from(if hi == 0 { 5u32 } else { 6u32 });
        let base = if A::JIVE { 0 } else { A::RATE_START };
        for i in 0..4 {
            state[base + i] = from_b(&seed[i]);
        }
        state[base + 4] = lo;
        if hi > 0 {
            state[base + 5] = A::F::from(hi as u32);
        }
        if A::JIVE { state[W - 1] = cnt } else { state[A::CAP_START] = cnt }
        let pre = st(&state);
        A::perm(&mut state);
        writeln!(out, "{}", json!({"ev": "rmergeint", "seed": seed, "v": v.to_le_bytes().to_vec(), "pre": pre, "post": st(&state), "digest": m})).unwrap();
    }
}

pub fn main_rescue(args: &[String]) -> i32 {
    let outdir = arg_value(args, "--out").expect("--out");
    let n: usize = arg_value(args, "--states").and_then(|s| s.parse().ok()).unwrap_or(4);
    let seed: u64 = arg_value(args, "--seed").and_then(|s| s.parse().ok()).unwrap_or(1);
    let mut files = vec![];
    macro_rules! go {
        ($W:expr, $A:ty) => {{
            let p = format!("{outdir}/rescue_{}.ndjson", <$A as RescueApi<$W>>::NAME);
            let mut f = std::io::BufWriter::new(std::fs::File::create(&p).unwrap());
            let mut rng = Rng(seed);
            rescue_trace::<$W, $A>(&mut f, n, &mut rng);
            sponge_trace::<$W, $A>(&mut f, &mut rng);
            f.flush().unwrap();
            files.push(json!({"hasher": <$A as RescueApi<$W>>::NAME, "path": p}));
        }};
    }
    go!(12, A64);
    go!(8, AJ);
    go!(12, A62);
    println!("{}", json!({"files": files}));
    0
}
