//! C16: replay of MC_Air.tla cases (assertion / transition / candidate) on the real divisors, boundary
//! constraints, overlap test and constructors, in the three base fields.
use std::collections::{BTreeMap, BTreeSet};
use std::io::BufRead;

use serde::Deserialize;
use serde_json::{json, Value};
use winter_air::{
    AirContext, Assertion, BoundaryConstraints, ConstraintDivisor, FieldExtension, ProofOptions, TraceInfo,
    TransitionConstraintDegree, TransitionConstraints,
};
use winter_math::{fields::f128, fields::f62, fields::f64, FieldElement, StarkField};

use crate::common::{arg_value, guarded, panic_key, Rng};

#[derive(Deserialize, Clone, Debug, PartialEq, Eq, PartialOrd, Ord)]
pub struct Asr {
    pub kind: String,
    pub col: usize,
    pub first: usize,
    pub stride: usize,
    pub count: usize,
}

#[derive(Deserialize, Clone, Debug)]
struct Case {
    kind: String,
    n: usize,
    #[serde(default)]
    a: Option<Asr>,
    #[serde(default)]
    k: usize,
    #[serde(default)]
    steps: Vec<usize>,
    #[serde(default)]
    overlaps: Vec<Asr>,
    #[serde(default)]
    pairs: bool,
    #[serde(default)]
    wellformed: bool,
}

pub struct Fails {
    pub map: BTreeMap<String, (String, usize, Value)>,
}
impl Fails {
    pub fn new() -> Self {
        Fails { map: BTreeMap::new() }
    }
    pub fn add(&mut self, key: String, what: String, replay: Value) {
        self.map.entry(key).and_modify(|e| e.1 += 1).or_insert((what, 1, replay));
    }
    pub fn to_json(&self) -> Vec<Value> {
        self.map.iter().map(|(k, (w, n, r))| json!({"key": k, "what": w, "count": n, "replay": r})).collect()
    }
}

fn values<B: StarkField>(count: usize, rng: &mut Rng) -> Vec<B> {
    // distinct non-zero values
    (0..count).map(|i| B::from((rng.below(1 << 30) as u32) | 1) + B::from((i as u32) << 1) * B::from(1u32 << 31)).collect()
}

pub fn build<B: StarkField>(a: &Asr, rng: &mut Rng) -> (Assertion<B>, Vec<B>) {
    build_with(a, rng, false)
}

/// `constant`: a sequence assertion whose values are all the same (the same checkpoint value at every named step)
pub fn build_with<B: StarkField>(a: &Asr, rng: &mut Rng, constant: bool) -> (Assertion<B>, Vec<B>) {
    match a.kind.as_str() {
        "single" => {
            let v = values::<B>(1, rng);
            (Assertion::single(a.col, a.first, v[0]), v)
        },
        "periodic" => {
            let v = values::<B>(1, rng);
            (Assertion::periodic(a.col, a.first, a.stride, v[0]), v)
        },
        "sequence" => {
            let v = if constant { vec![values::<B>(1, rng)[0]; a.count] } else { values::<B>(a.count, rng) };
            (Assertion::sequence(a.col, a.first, a.stride, v.clone()), v)
        },
        k => panic!("harness: unknown assertion kind {k}"),
    }
}

/// steps i of the trace domain at which the divisor vanishes as a polynomial: numerator zero and
/// exemption product non-zero
fn divisor_zeros<B: StarkField>(d: &ConstraintDivisor<B>, n: usize) -> Vec<usize> {
    let g = B::get_root_of_unity(n.ilog2());
    let mut x = B::ONE;
    let mut out = vec![];
    for i in 0..n {
        let mut num = B::ONE;
        for (deg, c) in d.numerator() {
            num *= x.exp((*deg as u64).into()) - *c;
        }
        let ex = d.evaluate_exemptions_at(x);
        if num == B::ZERO && ex != B::ZERO {
            out.push(i);
        }
        x *= g;
    }
    out
}

fn context<B: StarkField>(n: usize, num_assertions: usize) -> AirContext<B> {
    let opts = ProofOptions::new(20, 8, 0, FieldExtension::None, 4, 31);
    AirContext::new(TraceInfo::new(2, n), vec![TransitionConstraintDegree::new(2)], num_assertions, opts)
}

fn check_assertion<B: StarkField>(fname: &str, c: &Case, all: &[Asr], rng: &mut Rng, fails: &mut Fails, evals: &mut usize) {
    let a = c.a.as_ref().unwrap();
    let n = c.n;
    let rp = json!({"field": fname, "n": n, "a": {"kind": a.kind, "col": a.col, "first": a.first, "stride": a.stride, "count": a.count}, "expected_steps": c.steps});
    let key = |what: &str| format!("air/{fname}/{}/{what}", a.kind);
    let r = guarded(|| {
        let mut out: Vec<(String, String)> = vec![];
        // a sequence whose values are all equal names the same steps as any other sequence: (1)-(3) run for both kinds of values
        if a.kind == "sequence" && a.count >= 2 {
            let (casr, cvals) = build_with::<B>(a, rng, true);
            let mut named: Vec<usize> = vec![];
            casr.apply(n, |s, _| named.push(s));
            if named != c.steps || casr.get_num_steps(n) != c.steps.len() {
                out.push(("constant-sequence-steps".into(), format!("a sequence of {} equal values names steps {:?}", a.count, &named[..named.len().min(8)])));
            }
            let z = divisor_zeros(&ConstraintDivisor::<B>::from_assertion(&casr, n), n);
            if z != c.steps {
                out.push(("constant-sequence-divisor".into(), format!("the divisor of a sequence of {} equal values vanishes on {:?}", a.count, &z[..z.len().min(8)])));
            }
            let ctx = context::<B>(n, 1);
            let bc = BoundaryConstraints::<B>::new(&ctx, vec![casr.clone()], vec![], &[B::ONE]);
            for g in bc.main_constraints() {
                let z2 = divisor_zeros(g.divisor(), n);
                if z2 != c.steps {
                    out.push(("constant-sequence-group-divisor".into(), format!("group divisor of a sequence of equal values vanishes on {:?}", &z2[..z2.len().min(8)])));
                }
                let gen = B::get_root_of_unity(n.ilog2());
                for con in g.constraints() {
                    for &s in c.steps.iter() {
                        let x = gen.exp((s as u64).into());
                        if con.evaluate_at(x, cvals[0]) != B::ZERO || con.evaluate_at(x, cvals[0] + B::ONE) == B::ZERO {
                            out.push(("constant-sequence-value".into(), format!("the constraint of a sequence of equal values does not bind the value at step {s}")));
                            break;
                        }
                    }
                }
            }
        }
        let (asr, vals) = build::<B>(a, rng);
        // (1) steps named through the public API
        let mut named: Vec<(usize, B)> = vec![];
        asr.apply(n, |s, v| named.push((s, v)));
        let named_steps: Vec<usize> = named.iter().map(|x| x.0).collect();
        if named_steps != c.steps {
            out.push(("apply-steps".into(), format!("apply() names steps {:?}", &named_steps[..named_steps.len().min(8)])));
        }
        if asr.get_num_steps(n) != c.steps.len() {
            out.push(("num-steps".into(), format!("get_num_steps = {}", asr.get_num_steps(n))));
        }
        // (2) the divisor built directly
        let d = ConstraintDivisor::<B>::from_assertion(&asr, n);
        let z = divisor_zeros(&d, n);
        if z != c.steps {
            out.push(("divisor-zeros".into(), format!("divisor {} vanishes on {:?}", d, &z[..z.len().min(8)])));
        }
        if d.degree() != c.steps.len() {
            out.push(("divisor-degree".into(), format!("degree {}", d.degree())));
        }
        // (3) the path prover and verifier use: BoundaryConstraints -> group -> divisor / constraint
        let ctx = context::<B>(n, 1);
        let bc = BoundaryConstraints::<B>::new(&ctx, vec![asr.clone()], vec![], &[B::ONE]);
        let groups = bc.main_constraints();
        if groups.len() != 1 || groups[0].constraints().len() != 1 {
            out.push(("grouping".into(), "one assertion did not produce one group with one constraint".into()));
        } else {
            let z2 = divisor_zeros(groups[0].divisor(), n);
            if z2 != c.steps {
                out.push(("group-divisor-zeros".into(), format!("group divisor vanishes on {:?}", &z2[..z2.len().min(8)])));
            }
            let bcon = &groups[0].constraints()[0];
            let g = B::get_root_of_unity(n.ilog2());
            for (j, &s) in c.steps.iter().enumerate() {
                let x = g.exp((s as u64).into());
                let v = if vals.len() == 1 { vals[0] } else { vals[j] };
                if bcon.evaluate_at(x, v) != B::ZERO {
                    out.push(("value-not-reproduced".into(), format!("constraint does not vanish for the asserted value at step {s}")));
                    break;
                }
                if bcon.evaluate_at(x, v + B::ONE) == B::ZERO {
                    out.push(("value-not-bound".into(), format!("constraint vanishes for a different value at step {s}")));
                    break;
                }
            }
        }
        // (3b) two assertions in one constraint set: every constraint must sit in a group whose divisor vanishes on exactly
        // the steps of the assertion it came from (groups share one divisor among their members)
        if c.pairs && n <= 32 {
            let ctx2 = context::<B>(n, 2);
            for b in all {
                let mut bb = b.clone();
                bb.col = 1;
                let (basr, _) = build::<B>(&bb, rng);
                let bsteps: Vec<usize> = {
                    let mut v = vec![];
                    basr.apply(n, |s, _| v.push(s));
                    v
                };
                let bc2 = BoundaryConstraints::<B>::new(&ctx2, vec![asr.clone(), basr], vec![], &[B::ONE, B::ONE]);
                let mut seen = 0;
                for g in bc2.main_constraints() {
                    let z = divisor_zeros(g.divisor(), n);
                    for con in g.constraints() {
                        seen += 1;
                        let want = if con.column() == 0 { &c.steps } else { &bsteps };
                        if &z != want {
                            out.push(("pair-group-divisor".into(), format!("together with {:?} the constraint of column {} is divided by a divisor vanishing on {:?}", bb, con.column(), &z[..z.len().min(8)])));
                        }
                    }
                }
                if seen != 2 {
                    out.push(("pair-grouping".into(), format!("two assertions produced {seen} constraints")));
                }
            }
        }
        // (4) overlaps with every other well-formed assertion of this length (both columns)
        if c.pairs {
            let expected: BTreeSet<&Asr> = c.overlaps.iter().collect();
            for b in all {
                for col in 0..2 {
                    let mut bb = b.clone();
                    bb.col = col;
                    let (basr, _) = build::<B>(&bb, rng);
                    let got = asr.overlaps_with(&basr);
                    let exp = expected.contains(&bb);
                    if got != exp {
                        out.push(("overlap".into(), format!("overlaps_with({:?}) = {got}, the step sets {}", bb, if exp { "intersect" } else { "are disjoint" })));
                    }
                    let got2 = basr.overlaps_with(&asr);
                    if got2 != exp {
                        out.push(("overlap-sym".into(), format!("{:?}.overlaps_with(a) = {got2}", bb)));
                    }
                    // the constraint set as prover and verifier build it: two assertions of one column are refused exactly when
                    // they name a common cell (identical cells included), and otherwise both become constraints
                    if n <= 16 && bb.col == a.col {
                        let ctx2 = context::<B>(n, 2);
                        let (x, y) = (asr.clone(), basr.clone());
                        let built = guarded(move || BoundaryConstraints::<B>::new(&ctx2, vec![x, y], vec![], &[B::ONE, B::ONE]).main_constraints().iter().map(|g| g.constraints().len()).sum::<usize>());
                        match (built, exp) {
                            (Ok(k), true) => out.push(("set-accepts-overlap".into(), format!("a constraint set with {:?}, which names a common cell, is accepted ({k} constraints)", bb))),
                            (Ok(k), false) if k != 2 => out.push(("set-drops-assertion".into(), format!("a constraint set with the disjoint {:?} has {k} constraints", bb))),
                            (Err(p), false) => out.push(("set-refuses-disjoint".into(), format!("a constraint set with the disjoint {:?} is refused: {p}", bb))),
                            _ => {},
                        }
                    }
                }
            }
        }
        out
    });
    *evals += 1;
    match r {
        Ok(list) => {
            for (k, w) in list {
                fails.add(key(&k), format!("n={n} {:?}: {w}; named steps must be {:?}", a, &c.steps[..c.steps.len().min(8)]), rp.clone());
            }
        },
        Err(p) => {
            if p.contains("harness:") {
                eprintln!("{p}");
                std::process::exit(2);
            }
            fails.add(key(&format!("panic@{}", panic_key(&p))), format!("well-formed assertion refused or panicked: {p}"), rp)
        },
    }
}

fn check_transition<B: StarkField>(fname: &str, c: &Case, fails: &mut Fails, evals: &mut usize) {
    let (n, k) = (c.n, c.k);
    let rp = json!({"field": fname, "n": n, "k": k, "expected_steps_len": c.steps.len()});
    let r = guarded(|| {
        let mut out: Vec<(String, String)> = vec![];
        let d = ConstraintDivisor::<B>::from_transition(n, k);
        let z = divisor_zeros(&d, n);
        if z != c.steps {
            out.push(("divisor-zeros".into(), format!("transition divisor vanishes on {} steps, last {:?}", z.len(), z.last())));
        }
        if d.degree() != c.steps.len() {
            out.push(("divisor-degree".into(), format!("degree {}", d.degree())));
        }
        let ctx = context::<B>(n, 1).set_num_transition_exemptions(k);
        let tc = TransitionConstraints::<B>::new(&ctx, &[B::ONE]);
        let z2 = divisor_zeros(tc.divisor(), n);
        if z2 != c.steps {
            out.push(("context-divisor-zeros".into(), format!("divisor from the context vanishes on {} steps, last {:?}", z2.len(), z2.last())));
        }
        out
    });
    *evals += 1;
    match r {
        Ok(list) => {
            for (kk, w) in list {
                fails.add(format!("air/{fname}/transition/{kk}"), format!("n={n} exemptions={k}: {w}; must vanish exactly on 0..{}", n - k - 1), rp.clone());
            }
        },
        Err(p) => fails.add(format!("air/{fname}/transition/panic@{}", panic_key(&p)), format!("n={n} exemptions={k}: {p}"), rp),
    }
}

fn check_candidate<B: StarkField>(fname: &str, c: &Case, rng: &mut Rng, fails: &mut Fails, evals: &mut usize) {
    let a = c.a.as_ref().unwrap();
    let n = c.n;
    let rp = json!({"field": fname, "n": n, "a": format!("{:?}", a), "wellformed": c.wellformed});
    // refused = the constructor panics, or validation fails, or the constraint builder refuses it
    let built = guarded(|| build::<B>(a, rng).0);
    let refused_early = match &built {
        Err(_) => true,
        Ok(asr) => asr.validate_trace_length(n).is_err(),
    };
    let refused_full = match &built {
        Err(_) => true,
        Ok(asr) => guarded(|| {
            let ctx = context::<B>(n, 1);
            let _ = BoundaryConstraints::<B>::new(&ctx, vec![asr.clone()], vec![], &[B::ONE]);
        })
        .is_err(),
    };
    // every other public entry point that takes (assertion, trace length) refuses what the validator refuses
    if let Ok(asr) = &built {
        let entries: [(&str, bool); 3] = [
            ("divisor", guarded(|| { let _ = ConstraintDivisor::<B>::from_assertion(asr, n); }).is_err()),
            ("num-steps", guarded(|| { let _ = asr.get_num_steps(n); }).is_err()),
            ("apply", guarded(|| asr.apply(n, |_, _| {})).is_err()),
        ];
        for (name, refused) in entries {
            if refused == c.wellformed {
                fails.add(
                    format!("air/{fname}/candidate-{name}/{}", if c.wellformed { "wellformed-refused" } else { "illformed-accepted" }),
                    format!("n={n} {:?}: {} {} it", a, match name { "divisor" => "ConstraintDivisor::from_assertion", "num-steps" => "Assertion::get_num_steps", _ => "Assertion::apply" },
                            if refused { "refuses" } else { "accepts" }),
                    rp.clone(),
                );
            }
        }
    }
    *evals += 1;
    if refused_early == c.wellformed {
        fails.add(
            format!("air/{fname}/candidate/{}", if c.wellformed { "wellformed-refused" } else { "illformed-accepted" }),
            format!("n={n} {:?}: constructor/validator {} it", a, if refused_early { "refuses" } else { "accepts" }),
            rp.clone(),
        );
    }
    if refused_full == c.wellformed {
        fails.add(
            format!("air/{fname}/candidate-builder/{}", if c.wellformed { "wellformed-refused" } else { "illformed-accepted" }),
            format!("n={n} {:?}: BoundaryConstraints::new {} it", a, if refused_full { "refuses" } else { "accepts" }),
            rp,
        );
    }
}

pub fn main(args: &[String]) -> i32 {
    let path = arg_value(args, "--scenarios").expect("--scenarios");
    let seed: u64 = arg_value(args, "--seed").and_then(|s| s.parse().ok()).unwrap_or(1);
    let fields = arg_value(args, "--fields").unwrap_or("f62,f64,f128").to_string();
    let f = std::io::BufReader::new(std::fs::File::open(path).expect("open"));
    let cases: Vec<Case> = f.lines().map(|l| l.unwrap()).filter(|l| !l.trim().is_empty()).map(|l| serde_json::from_str(&l).expect("case")).collect();
    let mut by_n: BTreeMap<usize, Vec<Asr>> = BTreeMap::new();
    for c in &cases {
        if c.kind == "assertion" {
            by_n.entry(c.n).or_default().push(c.a.clone().unwrap());
        }
    }
    let mut fails = Fails::new();
    let mut rng = Rng(seed);
    let mut evals = 0usize;
    let mut counts: BTreeMap<String, usize> = BTreeMap::new();
    let mut pair_checks = 0usize;
    for c in &cases {
        *counts.entry(c.kind.clone()).or_default() += 1;
        for fname in fields.split(',') {
            macro_rules! go {
                ($B:ty) => {
                    match c.kind.as_str() {
                        "assertion" => {
                            let all = &by_n[&c.n];
                            if c.pairs {
                                pair_checks += all.len() * 2;
                            }
                            check_assertion::<$B>(fname, c, all, &mut rng, &mut fails, &mut evals)
                        },
                        "transition" => check_transition::<$B>(fname, c, &mut fails, &mut evals),
                        "candidate" => check_candidate::<$B>(fname, c, &mut rng, &mut fails, &mut evals),
                        _ => {},
                    }
                };
            }
            match fname {
                "f62" => go!(f62::BaseElement),
                "f64" => go!(f64::BaseElement),
                "f128" => go!(f128::BaseElement),
                _ => panic!("field"),
            }
        }
    }
    println!("{}", json!({"cases": cases.len(), "by_kind": counts, "evaluations": evals, "pair_checks": pair_checks, "failures": fails.to_json()}));
    0
}
