//! C09 at sizes beyond the toy field's two-adicity: transforms of 2^14 .. 2^18 elements over the real fields. The polynomials
//! are sparse (a handful of non-zero coefficients at seeded positions), so Trace_FFTBig.tla can recompute any output
//! offset * w^i |-> sum c_j x^(e_j) by modular exponentiation on BigNat; outputs are compared at seeded sample positions
//! (plus first / middle / last), interpolation results as complete sparse vectors.
use std::io::Write;

use serde_json::{json, Value};
use winter_math::{
    fft,
    fields::{f128, f62, f64},
    FieldElement, StarkField,
};
use winter_prover::{
    matrix::{ColMatrix, RowMatrix},
    StarkDomain,
};
use winter_utils::Serializable;

use crate::common::{arg_value, guarded, panic_key, Rng};

fn rand_elem<B: StarkField>(rng: &mut Rng) -> B {
    let mut bytes = vec![0u8; B::ELEMENT_BYTES];
    loop {
        for b in bytes.iter_mut() {
            *b = rng.next() as u8;
        }
        if let Some(e) = B::from_random_bytes(&bytes) {
            if e != B::ZERO {
                return e;
            }
        }
    }
}
fn by<B: StarkField>(e: B) -> Vec<u8> {
    e.to_bytes()
}
fn sparse<B: StarkField>(n: usize, k: usize, rng: &mut Rng) -> (Vec<B>, Vec<(usize, B)>) {
    let mut p = vec![B::ZERO; n];
    let mut idx: Vec<usize> = vec![n - 1, rng.below(n as u64) as usize | 1];
    while idx.len() < k {
        idx.push(rng.below(n as u64) as usize);
    }
    idx.sort_unstable();
    idx.dedup();
    let mut terms = vec![];
    for i in idx {
        let c = rand_elem::<B>(rng);
        p[i] = c;
        terms.push((i, c));
    }
    (p, terms)
}
fn terms_json<B: StarkField>(t: &[(usize, B)]) -> Vec<Value> {
    t.iter().map(|(i, c)| json!([i, by(*c)])).collect()
}
fn sample_positions(total: usize, k: usize, rng: &mut Rng) -> Vec<usize> {
    let mut v = vec![0, 1, total / 2, total / 2 + 1, total - 1];
    for _ in 0..k {
        v.push(rng.below(total as u64) as usize);
    }
    v
}
fn nonzero<B: StarkField>(v: &[B]) -> Vec<Value> {
    v.iter().enumerate().filter(|(_, c)| **c != B::ZERO).map(|(i, c)| json!([i, by(*c)])).collect()
}

fn run_field<B: StarkField>(name: &str, logs: &[u32], nsamples: usize, rng: &mut Rng, out: &mut dyn Write, panics: &mut Vec<Value>) {
    for (ci, &ln) in logs.iter().enumerate() {
        let n = 1usize << ln;
        let lb = 1 + (ci % 2) as u32;
        let b = 1usize << lb;
        let offset = if ci % 3 == 0 { B::GENERATOR } else { rand_elem::<B>(rng) };
        let r = guarded(|| {
            let mut ev: Vec<Value> = vec![];
            let (poly, terms) = sparse::<B>(n, 4, rng);
            let tw = fft::get_twiddles::<B>(n);
            let w_n = B::get_root_of_unity(ln);
            let w_nb = B::get_root_of_unity(ln + lb);
            let head = |fnname: &str, log_total: u32, off: B, w: B| json!({"field": name, "fn": fnname, "logn": ln, "logN": log_total, "offset": by(off), "w": by(w)});
            // forward transforms
            let mut v = poly.clone();
            fft::evaluate_poly(&mut v, &tw);
            let pos = sample_positions(n, nsamples, rng);
            let mut e = head("evaluate_poly", ln, B::ONE, w_n);
            e["ev"] = json!("bigeval");
            e["terms"] = json!(terms_json(&terms));
            e["samples"] = json!(pos.iter().map(|&i| json!([i, by(v[i])])).collect::<Vec<_>>());
            e["len"] = json!(v.len());
            ev.push(e);
            let lde = fft::evaluate_poly_with_offset(&poly, &tw, offset, b);
            let pos = sample_positions(n * b, nsamples, rng);
            let mut e = head("evaluate_poly_with_offset", ln + lb, offset, w_nb);
            e["ev"] = json!("bigeval");
            e["terms"] = json!(terms_json(&terms));
            e["samples"] = json!(pos.iter().map(|&i| json!([i, by(lde[i])])).collect::<Vec<_>>());
            e["len"] = json!(lde.len());
            ev.push(e);
            // degree inference on the extension
            let d = fft::infer_degree(&lde, offset);
            ev.push(json!({"ev": "bigdegree", "field": name, "fn": "infer_degree", "logn": ln, "terms": terms_json(&terms), "got": d}));
            // interpolation of the evaluations over the coset offset * <w_n> (forward transform validated by its own samples)
            let coset = fft::evaluate_poly_with_offset(&poly, &tw, offset, 1);
            let pos = sample_positions(n, nsamples / 2, rng);
            let mut e = head("evaluate_poly_with_offset", ln, offset, w_n);
            e["ev"] = json!("bigeval");
            e["terms"] = json!(terms_json(&terms));
            e["samples"] = json!(pos.iter().map(|&i| json!([i, by(coset[i])])).collect::<Vec<_>>());
            e["len"] = json!(coset.len());
            ev.push(e);
            let inv_tw = fft::get_inv_twiddles::<B>(n);
            let mut back = coset.clone();
            fft::interpolate_poly_with_offset(&mut back, &inv_tw, offset);
            ev.push(json!({"ev": "biginterp", "field": name, "fn": "interpolate_poly_with_offset", "logn": ln, "terms": terms_json(&terms), "nonzero": nonzero(&back), "len": back.len()}));
            let mut back = v.clone();
            fft::interpolate_poly(&mut back, &inv_tw);
            ev.push(json!({"ev": "biginterp", "field": name, "fn": "interpolate_poly", "logn": ln, "terms": terms_json(&terms), "nonzero": nonzero(&back), "len": back.len()}));
            // column-batched variants: three sparse columns
            let cols: Vec<(Vec<B>, Vec<(usize, B)>)> = (0..3).map(|_| sparse::<B>(n, 3, rng)).collect();
            let cm = ColMatrix::new(cols.iter().map(|c| c.0.clone()).collect());
            let domain = StarkDomain::from_twiddles(tw.clone(), b, offset);
            let rm = RowMatrix::<B>::evaluate_polys_over::<8>(&cm, &domain);
            let cm2 = cm.evaluate_columns_over(&domain);
            for (k, c) in cols.iter().enumerate() {
                let pos = sample_positions(n * b, nsamples / 3, rng);
                let mut e = head("RowMatrix::evaluate_polys_over<8>", ln + lb, offset, w_nb);
                e["ev"] = json!("bigeval");
                e["terms"] = json!(terms_json(&c.1));
                e["samples"] = json!(pos.iter().map(|&i| json!([i, by(rm.get(k, i))])).collect::<Vec<_>>());
                e["len"] = json!(rm.num_rows());
                ev.push(e);
                let mut e = head("ColMatrix::evaluate_columns_over", ln + lb, offset, w_nb);
                e["ev"] = json!("bigeval");
                e["terms"] = json!(terms_json(&c.1));
                e["samples"] = json!(pos.iter().map(|&i| json!([i, by(cm2.get(k, i))])).collect::<Vec<_>>());
                e["len"] = json!(cm2.num_rows());
                ev.push(e);
            }
            // interpolate_columns gives the columns' polynomials back (trace domain, offset 1)
            let evals = ColMatrix::new(cols.iter().map(|c| {
                let mut x = c.0.clone();
                fft::evaluate_poly(&mut x, &tw);
                x
            }).collect());
            let ip = evals.interpolate_columns();
            for (k, c) in cols.iter().enumerate() {
                ev.push(json!({"ev": "biginterp", "field": name, "fn": "ColMatrix::interpolate_columns", "logn": ln, "terms": terms_json(&c.1), "nonzero": nonzero(ip.get_column(k)), "len": ip.num_rows()}));
            }
            ev
        });
        match r {
            Ok(ev) => {
                for e in ev {
                    writeln!(out, "{}", e).unwrap();
                }
            },
            Err(p) => panics.push(json!({"cfg": format!("{name} 2^{ln} blowup {b}"), "what": panic_key(&p)})),
        }
    }
}

pub fn main(args: &[String]) -> i32 {
    let field = arg_value(args, "--field").expect("--field");
    let outp = arg_value(args, "--out").expect("--out");
    let seed: u64 = arg_value(args, "--seed").and_then(|s| s.parse().ok()).unwrap_or(1);
    let nsamples: usize = arg_value(args, "--samples").and_then(|s| s.parse().ok()).unwrap_or(12);
    let logs: Vec<u32> = arg_value(args, "--logs").expect("--logs").split(',').map(|s| s.parse().unwrap()).collect();
    let mut out = std::io::BufWriter::new(std::fs::File::create(outp).unwrap());
    let mut rng = Rng(seed ^ 0xb16f);
    let mut panics = vec![];
    match field {
        "f64" => run_field::<f64::BaseElement>("f64", &logs, nsamples, &mut rng, &mut out, &mut panics),
        "f62" => run_field::<f62::BaseElement>("f62", &logs, nsamples, &mut rng, &mut out, &mut panics),
        _ => run_field::<f128::BaseElement>("f128", &logs, nsamples, &mut rng, &mut out, &mut panics),
    }
    out.flush().unwrap();
    println!("{}", json!({"panics": panics}));
    0
}
