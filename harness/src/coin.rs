//! C19: executes TLC-generated coin histories on DefaultRandomCoin over a recording hasher and writes the
//! observation trace validated by Trace_Coin.tla.
use std::io::BufRead;

use serde::Deserialize;
use serde_json::{json, Value};
use winter_crypto::{
    hashers::{Blake3_192, Blake3_256, Rp62_248, Rp64_256, RpJive64_256, Sha3_256},
    DefaultRandomCoin, Digest, ElementHasher, Hasher, RandomCoin,
};
use winter_math::{fields::f128, fields::f62, fields::f64, fields::CubeExtension, fields::QuadExtension, FieldElement, StarkField};
use winter_utils::Serializable;

use crate::common::{arg_value, guarded, panic_key};
use crate::rec::{hlog_enable, hlog_take, RecHasher};

#[derive(Deserialize, Clone, Debug)]
struct Op {
    op: String,
    a: u64,
    b: u64,
}
#[derive(Deserialize, Clone, Debug)]
struct Hist {
    hist: Vec<Op>,
}

const NONCES: [u64; 3] = [0, 1, u64::MAX];
// one small nonce and two that exceed every field modulus (the integer is split into two field elements there)
const INT_NONCES: [u64; 3] = [7, 0xFFFF_FFFF_0000_0002, u64::MAX - 1];
const LGS: [u32; 8] = [1, 2, 3, 8, 16, 24, 31, 32];

fn calls_json() -> Vec<Value> {
    hlog_take().iter().map(|c| c.to_json()).collect()
}

trait DrawExt<B: StarkField> {
    fn draw_deg<C: RandomCoin<BaseField = B>>(coin: &mut C, deg: u64) -> (u64, Option<Vec<u8>>);
}
struct With23;
struct With2;
impl<B: StarkField + winter_math::ExtensibleField<2> + winter_math::ExtensibleField<3>> DrawExt<B> for With23 {
    fn draw_deg<C: RandomCoin<BaseField = B>>(coin: &mut C, deg: u64) -> (u64, Option<Vec<u8>>) {
        match deg {
            2 => (2, coin.draw::<QuadExtension<B>>().ok().map(|e| e.to_bytes())),
            3 => (3, coin.draw::<CubeExtension<B>>().ok().map(|e| e.to_bytes())),
            _ => (1, coin.draw::<B>().ok().map(|e| e.to_bytes())),
        }
    }
}
impl<B: StarkField + winter_math::ExtensibleField<2>> DrawExt<B> for With2 {
    fn draw_deg<C: RandomCoin<BaseField = B>>(coin: &mut C, deg: u64) -> (u64, Option<Vec<u8>>) {
        match deg {
            2 | 3 => (2, coin.draw::<QuadExtension<B>>().ok().map(|e| e.to_bytes())),
            _ => (1, coin.draw::<B>().ok().map(|e| e.to_bytes())),
        }
    }
}

/// a value s such that the coin seeded with [1, s] has, as its first base-field candidate (counter 1), an integer in
/// [modulus, 2^modulus_bits): the rejection rule "below the modulus" and "fits into modulus_bits bits" differ exactly there
fn witness_seed<B: StarkField, H: ElementHasher<BaseField = B>>() -> Option<u32> {
    use std::collections::HashMap;
    use std::sync::Mutex;
    static CACHE: Mutex<Option<HashMap<String, Option<u32>>>> = Mutex::new(None);
    if B::ELEMENT_BYTES != 8 || B::MODULUS_BITS >= 64 {
        return None;
    }
    let key = std::any::type_name::<H>().to_string();
    if let Some(v) = CACHE.lock().unwrap().get_or_insert_with(HashMap::new).get(&key) {
        return *v;
    }
    let m = u64::from_le_bytes(B::get_modulus_le_bytes()[..8].try_into().unwrap());
    let mut found = None;
    // an algebraic hasher whose digest starts with a canonical element never produces such a candidate: bounded search
    let t0 = std::time::Instant::now();
    for s in 3u32..6_000_000 {
        if s % 4096 == 0 && t0.elapsed().as_secs() >= 6 {
            break;
        }
        let d = H::hash_elements(&[B::from(1u32), B::from(s)]);
        let c = H::merge_with_int(d, 1);
        let v = u64::from_le_bytes(c.as_bytes()[..8].try_into().unwrap());
        if v >= m && (v >> B::MODULUS_BITS) == 0 {
            found = Some(s);
            break;
        }
    }
    CACHE.lock().unwrap().get_or_insert_with(HashMap::new).insert(key, found);
    found
}

fn run_hist<B: StarkField, H: ElementHasher<BaseField = B>, D: DrawExt<B>>(hname: &str, idx: usize, h: &Hist, out: &mut Vec<String>) {
    type C<H> = DefaultRandomCoin<RecHasher<H>>;
    let modulus = B::get_modulus_le_bytes();
    out.push(json!({"ev": "reset", "hasher": hname, "modulus": modulus, "cb": B::ELEMENT_BYTES}).to_string());
    let mut coin: Option<C<H>> = None;
    hlog_enable(true);
    hlog_take();
    for (i, o) in h.hist.iter().enumerate() {
        let rec = match o.op.as_str() {
            "new" => {
                // seed 2 of a field whose modulus leaves room below the next power of two (the 62-bit field): a seed whose first
                // candidate for a base-field draw lies in [modulus, 2^bits) and therefore has to be skipped (found by search)
                let second = if o.a == 2 { witness_seed::<B, H>().unwrap_or(1 + o.a as u32) } else { 1 + o.a as u32 };
                let seed: Vec<B> = vec![B::from(1u32), B::from(second)];
                let mut sb = Vec::new();
                for e in &seed {
                    e.write_into(&mut sb);
                }
                coin = Some(C::<H>::new(&seed));
                json!({"ev": "new", "id": o.a, "seed": sb, "calls": calls_json()})
            },
            "reseed" => {
                hlog_enable(false);
                let d = if o.a == 3 { <H::Digest as Default>::default() } else { H::hash(&[o.a as u8, 0xd1]) };
                hlog_enable(true);
                coin.as_mut().unwrap().reseed(d);
                json!({"ev": "reseed", "id": o.a, "data": d.as_bytes().to_vec(), "calls": calls_json()})
            },
            "draw" => {
                let (deg, r) = D::draw_deg(coin.as_mut().unwrap(), o.a);
                json!({"ev": "draw", "deg": deg, "ok": r.is_some(), "res": r.unwrap_or_default(), "calls": calls_json()})
            },
            "clz" => {
                let n = NONCES[(o.a as usize - 1) % 3];
                let z = coin.as_ref().unwrap().check_leading_zeros(n);
                json!({"ev": "clz", "id": o.a, "nonce": n.to_le_bytes().to_vec(), "res": z, "calls": calls_json()})
            },
            "ints" => {
                // over a field whose modulus several multiples of fit into 64 bits (the 62-bit field) the two large nonces are congruent
                // modulo it: M + 9 and 3M + 9 differ only in the quotient limb the hasher absorbs
                let n = if B::MODULUS_BITS < 64 {
                    let m62: u64 = 4611624995532046337; // the modulus of the 62-bit field
                    [7, m62 + 9, 3 * m62 + 9][(o.a as usize - 1) % 3]
                } else {
                    INT_NONCES[(o.a as usize - 1) % 3]
                };
                let m = o.b as usize;
                let mut lg = LGS[(idx + i) % LGS.len()];
                while (1u64 << lg) <= m as u64 {
                    lg += 1;
                }
                let r = coin.as_mut().unwrap().draw_integers(m, 1usize << lg, n);
                let ok = r.is_ok();
                let vals: Vec<Vec<u8>> = r.unwrap_or_default().iter().map(|v| (*v as u64).to_le_bytes().to_vec()).collect();
                json!({"ev": "ints", "id": o.a, "nonce": n.to_le_bytes().to_vec(), "m": m, "lg": lg, "ok": ok, "res": vals, "calls": calls_json()})
            },
            x => panic!("harness: op {x}"),
        };
        out.push(rec.to_string());
    }
    // probe: two base-field draws; equal abstract states must give equal probes, different states different probes
    let c = coin.as_mut().unwrap();
    let p1: Option<B> = c.draw().ok();
    let c1 = calls_json();
    let p2: Option<B> = c.draw().ok();
    let c2 = calls_json();
    let mut pb = Vec::new();
    if let (Some(a), Some(b)) = (p1, p2) {
        a.write_into(&mut pb);
        b.write_into(&mut pb);
    }
    out.push(json!({"ev": "probe", "res": pb, "calls1": c1, "calls2": c2}).to_string());
    hlog_enable(false);
}

/// direct contract checks that need no oracle beyond the property text: draw_integers over all boundary sizes/counts
fn ints_grid<B: StarkField, H: ElementHasher<BaseField = B>>(hname: &str, fails: &mut crate::air::Fails, evals: &mut usize, thorough: bool) {
    let lgs: Vec<u32> = (1..=32).collect();
    let ms: Vec<usize> = if thorough { (1..=255).collect() } else { vec![1, 2, 3, 7, 8, 31, 32, 127, 128, 254, 255] };
    for &lg in &lgs {
        for &m in &ms {
            let size = 1u64 << lg;
            if (m as u64) >= size {
                continue;
            }
            *evals += 1;
            let r = guarded(|| {
                let mut c = DefaultRandomCoin::<H>::new(&[B::from(lg), B::from(m as u32)]);
                c.draw_integers(m, size as usize, m as u64 ^ 0x55)
            });
            match r {
                Ok(Ok(v)) => {
                    if v.len() != m {
                        fails.add(format!("coin/{hname}/ints/count"), format!("draw_integers({m}, 2^{lg}) returned {} values", v.len()), json!({"m": m, "lg": lg}));
                    }
                    if v.iter().any(|x| (*x as u64) >= size) {
                        fails.add(format!("coin/{hname}/ints/range"), format!("draw_integers({m}, 2^{lg}) returned a value outside the domain"), json!({"m": m, "lg": lg}));
                    }
                },
                Ok(Err(e)) => fails.add(format!("coin/{hname}/ints/error"), format!("draw_integers({m}, 2^{lg}) failed: {e}"), json!({"m": m, "lg": lg})),
                Err(p) => fails.add(format!("coin/{hname}/ints/panic@{}", panic_key(&p)), format!("draw_integers({m}, 2^{lg}) panicked: {p}"), json!({"m": m, "lg": lg})),
            }
        }
    }
}

pub fn main(args: &[String]) -> i32 {
    let path = arg_value(args, "--scenarios").expect("--scenarios");
    let outdir = arg_value(args, "--out").expect("--out");
    let thorough = args.iter().any(|a| a == "--thorough");
    let f = std::io::BufReader::new(std::fs::File::open(path).expect("open"));
    let hists: Vec<Hist> = f.lines().map(|l| l.unwrap()).filter(|l| !l.trim().is_empty()).map(|l| serde_json::from_str(&l).expect("hist")).collect();
    let mut fails = crate::air::Fails::new();
    let mut evals = 0usize;
    let mut files = vec![];
    macro_rules! go {
        ($name:expr, $B:ty, $H:ty, $D:ty) => {{
            let mut out: Vec<String> = Vec::new();
            for (i, h) in hists.iter().enumerate() {
                let r = guarded(|| {
                    let mut o = Vec::new();
                    run_hist::<$B, $H, $D>($name, i, h, &mut o);
                    o
                });
                match r {
                    Ok(o) => out.extend(o),
                    Err(p) => {
                        if p.contains("harness:") {
                            eprintln!("{p}");
                            std::process::exit(2);
                        }
                        fails.add(format!("coin/{}/panic@{}", $name, panic_key(&p)), format!("coin operation panicked: {p}"), json!({"hist": format!("{:?}", h.hist)}))
                    },
                }
            }
            let p = format!("{}/coin_{}.ndjson", outdir, $name);
            std::fs::write(&p, out.join("\n") + "\n").unwrap();
            files.push(json!({"hasher": $name, "path": p, "events": out.len()}));
            ints_grid::<$B, $H>($name, &mut fails, &mut evals, thorough);
        }};
    }
    go!("blake3_256_f128", f128::BaseElement, Blake3_256<f128::BaseElement>, With2);
    go!("blake3_192_f64", f64::BaseElement, Blake3_192<f64::BaseElement>, With23);
    go!("sha3_256_f62", f62::BaseElement, Sha3_256<f62::BaseElement>, With23);
    go!("rp62_248", f62::BaseElement, Rp62_248, With23);
    go!("rp64_256", f64::BaseElement, Rp64_256, With23);
    go!("rpjive64_256", f64::BaseElement, RpJive64_256, With23);
    println!("{}", json!({"histories": hists.len(), "files": files, "grid_evaluations": evals, "failures": fails.to_json()}));
    0
}
