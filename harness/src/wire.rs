//! Byte-level view of a serialized proof following the grammar of Wire.tla, and application of its mutations.
use serde::Deserialize;

#[derive(Deserialize, Clone, Debug)]
pub struct Field {
    pub name: String,
    pub kind: String, // scalar | blob
    pub width: usize,
}
#[derive(Deserialize, Clone, Debug)]
pub struct Mutation {
    pub field: String,
    pub m: String,
    #[serde(default)]
    pub may_keep_content: bool,
}

#[derive(Clone, Debug)]
pub struct Span {
    pub name: String,
    pub kind: String,
    pub off: usize,   // offset of the scalar, or of the length prefix of a blob
    pub width: usize, // width of the scalar / of the prefix
    pub len: usize,   // blob content length
}

fn rd(b: &[u8], off: usize, w: usize) -> Option<u64> {
    if off + w > b.len() {
        return None;
    }
    let mut v = 0u64;
    for i in 0..w {
        v |= (b[off + i] as u64) << (8 * i);
    }
    Some(v)
}
fn wr(b: &mut [u8], off: usize, w: usize, v: u64) {
    for i in 0..w {
        b[off + i] = (v >> (8 * i)) as u8;
    }
}

/// Lays the grammar over the bytes of an honest proof. Returns None if the bytes do not follow the grammar.
pub fn spans(bytes: &[u8], grammar: &[Field]) -> Option<Vec<Span>> {
    let mut out = vec![];
    let mut p = 0usize;
    for f in grammar {
        if f.kind == "scalar" {
            rd(bytes, p, f.width)?;
            out.push(Span { name: f.name.clone(), kind: f.kind.clone(), off: p, width: f.width, len: 0 });
            p += f.width;
        } else {
            // "vblob": the prefix is a one-byte vint64 (2 * length + 1)
            let l = if f.kind == "vblob" {
                let x = rd(bytes, p, 1)?;
                if x & 1 != 1 {
                    return None;
                }
                (x >> 1) as usize
            } else {
                rd(bytes, p, f.width)? as usize
            };
            if p + f.width + l > bytes.len() {
                return None;
            }
            out.push(Span { name: f.name.clone(), kind: f.kind.clone(), off: p, width: f.width, len: l });
            p += f.width + l;
        }
    }
    if p != bytes.len() {
        return None;
    }
    Some(out)
}

/// eight-byte length values for a vint64 prefix in its nine-byte form: the largest values, and values that make
/// "position + length" wrap around 2^64 (content_at = offset of the first content byte, len = honest content length)
fn wide_len(which: &str, content_at: u64, len: u64) -> Option<u64> {
    Some(match which {
        "max" => u64::MAX,
        "max-1" => u64::MAX - 1,
        "wrap" => 0u64.wrapping_sub(content_at),
        "wrap+len" => 0u64.wrapping_sub(content_at).wrapping_add(len),
        "wrap-1" => 0u64.wrapping_sub(content_at).wrapping_sub(1),
        "2^63" => 1u64 << 63,
        "2^32" => 1u64 << 32,
        "2^31" => 1u64 << 31,
        _ => return None,
    })
}

/// Shape mutations inside a serialized batch Merkle opening (vector count byte, then per vector a digest count byte and the
/// digests); the outer length prefix is kept consistent. `dl` = serialized digest length.
fn apply_inner_paths(bytes: &[u8], s: &Span, m: &str, dl: usize) -> Option<Vec<u8>> {
    let start = s.off + s.width;
    let body = &bytes[start..start + s.len];
    // parse
    let nv = *body.first()? as usize;
    let mut vecs: Vec<Vec<Vec<u8>>> = vec![];
    let mut p = 1usize;
    for _ in 0..nv {
        let cnt = *body.get(p)? as usize;
        p += 1;
        let mut v = vec![];
        for _ in 0..cnt {
            v.push(body.get(p..p + dl)?.to_vec());
            p += dl;
        }
        vecs.push(v);
    }
    if p != body.len() {
        return None;
    }
    match m {
        "inner-drop-last-digest" => {
            let v = vecs.iter_mut().rev().find(|v| !v.is_empty())?;
            v.pop();
        },
        "inner-add-digest" => {
            let d = vecs.iter().flatten().next().cloned().unwrap_or(vec![0x11; dl]);
            let v = vecs.first_mut()?;
            if v.len() >= 255 {
                return None;
            }
            v.push(d);
        },
        "inner-drop-vector" => {
            vecs.pop()?;
        },
        "inner-add-empty-vector" => {
            if vecs.len() >= 255 {
                return None;
            }
            vecs.push(vec![]);
        },
        "inner-move-digest" => {
            if vecs.len() < 2 {
                return None;
            }
            let d = vecs[0].pop()?;
            vecs[1].push(d);
        },
        "inner-empty-vector" => {
            let v = vecs.iter_mut().find(|v| !v.is_empty())?;
            v.clear();
        },
        _ => return None,
    }
    let mut nb: Vec<u8> = vec![vecs.len() as u8];
    for v in &vecs {
        nb.push(v.len() as u8);
        for d in v {
            nb.extend_from_slice(d);
        }
    }
    let mut out = bytes[..s.off].to_vec();
    let mut pre = vec![0u8; s.width];
    wr(&mut pre, 0, s.width, nb.len() as u64);
    out.extend(pre);
    out.extend(nb);
    out.extend_from_slice(&bytes[start + s.len..]);
    Some(out)
}

/// Applies one mutation; `chunk` is the element size used for chunk mutations. Returns None when not applicable.
pub fn apply(bytes: &[u8], sp: &[Span], mu: &Mutation, chunk: usize) -> Option<Vec<u8>> {
    let s = sp.iter().find(|s| s.name == mu.field)?;
    if mu.m.starts_with("inner-") {
        return apply_inner_paths(bytes, s, &mu.m, chunk);
    }
    if let Some(spec) = mu.m.strip_prefix("header:") {
        // s is the commitments blob. A different statement header (trace length exponent, blowup, folding factor, remainder degree)
        // with the rest of the proof kept structurally consistent with it: as many FRI layers and layer commitments as the
        // verifier will expect for that header (Fri.tla NumLayers, computed by TLC)
        let v: Vec<usize> = spec.split(',').filter_map(|x| x.parse().ok()).collect();
        if v.len() != 5 || v[4] > 200 {
            return None;
        }
        let (ln, blowup, fold, rem, layers) = (v[0], v[1], v[2], v[3], v[4]);
        let find = |n: &str| sp.iter().find(|x| x.name == n);
        let (s_ln, s_b, s_f, s_r, s_nl) = (find("ti.len_log2")?, find("opt.blowup")?, find("opt.folding")?, find("opt.remainder")?, find("fri.num_layers")?);
        if bytes[s_ln.off] as usize == ln && bytes[s_b.off] as usize == blowup && bytes[s_f.off] as usize == fold && bytes[s_r.off] as usize == rem {
            return None;
        }
        let n = bytes[s_nl.off] as usize;
        let group = |k: usize| -> Option<(usize, usize)> {
            let lv = sp.iter().find(|x| x.name == format!("fl{}.values", k))?;
            let lp = sp.iter().find(|x| x.name == format!("fl{}.paths", k))?;
            Some((lv.off, lp.off + lp.width + lp.len))
        };
        let stand_in = {
            let lv = find("cq.values")?;
            let lp = find("cq.paths")?;
            (lv.off, lp.off + lp.width + lp.len)
        };
        let mut groups: Vec<Vec<u8>> = vec![];
        for k in 0..layers {
            let (a, e) = if k < n { group(k + 1)? } else if n > 0 { group(n)? } else { stand_in };
            groups.push(bytes[a..e].to_vec());
        }
        let fri_end = if n > 0 { group(n)?.1 } else { s_nl.off + 1 };
        let mut b = bytes[..s_nl.off].to_vec();
        b.push(layers as u8);
        for g in &groups {
            b.extend_from_slice(g);
        }
        b.extend_from_slice(&bytes[fri_end..]);
        // commitments: trace segments, constraints, one per layer, remainder
        let start = s.off + s.width;
        let mut digs: Vec<Vec<u8>> = bytes[start..start + s.len].chunks(chunk).map(|c| c.to_vec()).collect();
        if digs.len() < n + 2 || s.len % chunk != 0 {
            return None;
        }
        let last = digs.pop()?;
        let fixed = digs.len() - n; // trace segments + constraint commitment
        let layer_digs: Vec<Vec<u8>> = (0..layers).map(|k| if k < n { digs[fixed + k].clone() } else { digs.last().cloned().unwrap_or(last.clone()) }).collect();
        digs.truncate(fixed);
        digs.extend(layer_digs);
        digs.push(last);
        let body: Vec<u8> = digs.concat();
        if body.len() > 0xffff {
            return None;
        }
        let mut pre = vec![0u8; s.width];
        wr(&mut pre, 0, s.width, body.len() as u64);
        b.splice(s.off..start + s.len, pre.into_iter().chain(body));
        b[s_ln.off] = ln as u8;
        b[s_b.off] = blowup as u8;
        b[s_f.off] = fold as u8;
        b[s_r.off] = rem as u8;
        return Some(b);
    }
    if let Some(d) = mu.m.strip_prefix("reextend:") {
        // s is opt.extension. The proof claims another field extension and every component made of extension-field elements is
        // re-sized to the element size of that extension (contents cut or zero-padded element by element, every length prefix
        // consistent): the claimed extension reaches the verifier's own dispatch instead of failing at a length check
        let new_ext: usize = d.parse().ok()?;
        let old_ext = bytes[s.off] as usize;
        if old_ext == 0 || old_ext > 3 || new_ext == old_ext || chunk % old_ext != 0 {
            return None;
        }
        let base = chunk / old_ext;
        let (old_sz, new_sz) = (chunk, base * new_ext);
        let mut b = bytes.to_vec();
        for x in sp.iter().rev() {
            let ext_valued = x.name == "cq.values" || x.name == "tq2.values" || x.name.starts_with("ood.") || x.name == "fri.remainder"
                || (x.name.starts_with("fl") && x.name.ends_with(".values"));
            if !ext_valued || x.kind == "scalar" {
                continue;
            }
            let start = x.off + x.width;
            let content = &bytes[start..start + x.len];
            // out-of-domain frames start with a count byte
            let head = if x.name == "ood.trace" || x.name == "ood.lagrange" { 1.min(content.len()) } else { 0 };
            if (content.len() - head) % old_sz != 0 {
                return None;
            }
            let mut nc: Vec<u8> = content[..head].to_vec();
            for el in content[head..].chunks(old_sz) {
                for k in 0..new_sz {
                    nc.push(if k < old_sz { el[k] } else { 0 });
                }
            }
            if x.width < 8 && (nc.len() as u64) >= (1u64 << (8 * x.width)) {
                return None;
            }
            let mut pre = vec![0u8; x.width];
            wr(&mut pre, 0, x.width, nc.len() as u64);
            b.splice(x.off..start + x.len, pre.into_iter().chain(nc));
        }
        b[s.off] = new_ext as u8;
        return Some(b);
    }
    if mu.m.starts_with("add-layer-copies:") || mu.m == "remove-last-layer" {
        // s is fri.num_layers; the layer groups fl<k>.values / fl<k>.paths follow it
        let n = rd(bytes, s.off, 1)? as usize;
        if n == 0 {
            return None;
        }
        let lv = sp.iter().find(|x| x.name == format!("fl{}.values", n))?;
        let lp = sp.iter().find(|x| x.name == format!("fl{}.paths", n))?;
        let (g0, g1) = (lv.off, lp.off + lp.width + lp.len);
        let mut b = bytes.to_vec();
        match mu.m.as_str() {
            "remove-last-layer" => {
                b.drain(g0..g1);
                b[s.off] = (n - 1) as u8;
            },
            m => {
                let copies: usize = m.strip_prefix("add-layer-copies:")?.parse().ok()?;
                if n + copies > 255 {
                    return None;
                }
                let group = bytes[g0..g1].to_vec();
                for _ in 0..copies {
                    let at = g1;
                    b.splice(at..at, group.iter().cloned());
                }
                b[s.off] = (n + copies) as u8;
            },
        }
        return Some(b);
    }
    if mu.m.starts_with("lag-") {
        // content: one count byte, then `count` elements of `chunk` bytes
        let start = s.off + s.width;
        let body = &bytes[start..start + s.len];
        let n = *body.first()? as usize;
        if body.len() != 1 + n * chunk {
            return None;
        }
        let mut nb = body.to_vec();
        match mu.m.as_str() {
            "lag-drop-element" if n >= 1 => {
                nb.truncate(1 + (n - 1) * chunk);
                nb[0] = (n - 1) as u8;
            },
            "lag-add-element" if n >= 1 && n < 255 => {
                let last = nb[1 + (n - 1) * chunk..].to_vec();
                nb.extend(last);
                nb[0] = (n + 1) as u8;
            },
            "lag-make-frame" if n == 0 => {
                nb[0] = 4;
                for k in 0..4 * chunk {
                    nb.push(if k % chunk == 0 { 3 } else { 0 });
                }
            },
            _ => return None,
        }
        let mut out = bytes[..s.off].to_vec();
        let mut pre = vec![0u8; s.width];
        wr(&mut pre, 0, s.width, nb.len() as u64);
        out.extend(pre);
        out.extend(nb);
        out.extend_from_slice(&bytes[start + s.len..]);
        return Some(out);
    }
    let mut b = bytes.to_vec();
    let maxv: u64 = if s.width == 8 { u64::MAX } else { (1u64 << (8 * s.width)) - 1 };
    if s.kind == "scalar" {
        let v = rd(&b, s.off, s.width)?;
        if mu.m == "set-some" {
            if v != 0 || s.off + 1 != b.len() {
                return None;
            }
            b[s.off] = 1;
            b.extend([7u8, 1, 2, 3]); // vint64(3), then three bytes
            return Some(b);
        }
        if let Some(which) = mu.m.strip_prefix("set-some-wide:") {
            // tag set, followed by a nine-byte vint64 length (first byte 0) that no input can satisfy
            if v != 0 || s.off + 1 != b.len() {
                return None;
            }
            b[s.off] = 1;
            let content_at = (s.off + 10) as u64;
            let l = wide_len(which, content_at, 3)?;
            b.push(0);
            b.extend(l.to_le_bytes());
            b.extend([1u8, 2, 3]);
            return Some(b);
        }
        if mu.m == "set-none" {
            if v != 1 || s.name != "gkr.tag" {
                return None;
            }
            b[s.off] = 0;
            b.truncate(s.off + 1);
            return Some(b);
        }
        if let Some(x) = mu.m.strip_prefix("add:") {
            // 64-bit scalars: the value shifted by a field modulus or a limb boundary (aliases of a value reduced modulo a field)
            if s.width != 8 {
                return None;
            }
            let d: u64 = match x {
                "p64" => 0xffff_ffff_0000_0001,
                "p62" => 0x3fff_c880_0000_0001,
                "2^32" => 1 << 32,
                "2^62" => 1 << 62,
                "2^63" => 1 << 63,
                _ => return None,
            };
            let nv = v.checked_add(d)?;
            wr(&mut b, s.off, s.width, nv);
            return Some(b);
        }
        if let Some(x) = mu.m.strip_prefix("set:") {
            let nv: u64 = x.parse().ok()?;
            if nv == v || nv > maxv {
                return None;
            }
            wr(&mut b, s.off, s.width, nv);
            return Some(b);
        }
        let nv = match mu.m.as_str() {
            "zero" => 0,
            "one" => 1,
            "max" => maxv,
            "max-1" => maxv - 1,
            "plus1" => v.wrapping_add(1) & maxv,
            "minus1" => v.wrapping_sub(1) & maxv,
            "flip-high-bit" => v ^ (1u64 << (8 * s.width - 1)),
            _ => return None,
        };
        if nv == v {
            return None;
        }
        wr(&mut b, s.off, s.width, nv);
        return Some(b);
    }
    let start = s.off + s.width;
    let end = start + s.len;
    let vint = s.kind == "vblob";
    let maxv = if vint { 127 } else { maxv };
    let wr = |b: &mut [u8], off: usize, w: usize, v: u64| if vint { b[off] = ((v << 1) | 1) as u8 } else { wr(b, off, w, v) };
    match mu.m.as_str() {
        "shorten" => {
            if s.len == 0 {
                return None;
            }
            b.remove(end - 1);
            wr(&mut b, s.off, s.width, (s.len - 1) as u64);
        },
        "lengthen" => {
            if (s.len as u64) >= maxv {
                return None;
            }
            b.insert(end, 0x5a);
            wr(&mut b, s.off, s.width, (s.len + 1) as u64);
        },
        // every byte maximal: a chunk of whole element width that is not below any modulus
        "fill-ff" => {
            if s.len == 0 || b[start..end].iter().all(|x| *x == 0xff) {
                return None;
            }
            for x in &mut b[start..end] {
                *x = 0xff;
            }
        },
        m if m.starts_with("resize-ff:") => {
            let n: usize = m[10..].parse().ok()?;
            if n as u64 > maxv {
                return None;
            }
            b.splice(start..end, std::iter::repeat(0xffu8).take(n));
            wr(&mut b, s.off, s.width, n as u64);
        },
        "append-zero" => {
            if (s.len as u64) >= maxv {
                return None;
            }
            b.insert(end, 0);
            wr(&mut b, s.off, s.width, (s.len + 1) as u64);
        },
        "prefix+1" => wr(&mut b, s.off, s.width, (s.len as u64 + 1) & maxv),
        "prefix-1" => {
            if s.len == 0 {
                return None;
            }
            wr(&mut b, s.off, s.width, s.len as u64 - 1)
        },
        "prefix-max" => wr(&mut b, s.off, s.width, maxv),
        m if m.starts_with("prefix-wide:") => {
            if !vint {
                return None;
            }
            let l = wide_len(&m["prefix-wide:".len()..], (s.off + 9) as u64, s.len as u64)?;
            // the one-byte prefix becomes the nine-byte form; the content stays
            b.splice(s.off..s.off + 1, std::iter::once(0u8).chain(l.to_le_bytes()));
        },
        "prefix-wide" => {
            if !vint || b.len() < s.off + 9 {
                // make room for the eight length bytes that a zero first byte announces
                b.resize(b.len().max(s.off + 9), 0xff);
            }
            b[s.off] = 0;
            for x in b[s.off + 1..s.off + 9].iter_mut() {
                *x = 0x7f;
            }
        },
        "empty" => {
            if s.len == 0 {
                return None;
            }
            b.drain(start..end);
            wr(&mut b, s.off, s.width, 0);
        },
        "flip-first-bit" => {
            if s.len == 0 {
                return None;
            }
            b[start] ^= 1;
        },
        "flip-last-bit" => {
            if s.len == 0 {
                return None;
            }
            b[end - 1] ^= 0x80;
        },
        "zero-first-chunk" => {
            if s.len < chunk {
                return None;
            }
            if b[start..start + chunk].iter().all(|x| *x == 0) {
                return None;
            }
            for x in b[start..start + chunk].iter_mut() {
                *x = 0;
            }
        },
        "swap-chunks" => {
            if s.len < 2 * chunk {
                return None;
            }
            let a = b[start..start + chunk].to_vec();
            let c = b[start + chunk..start + 2 * chunk].to_vec();
            if a == c {
                return None;
            }
            b[start..start + chunk].copy_from_slice(&c);
            b[start + chunk..start + 2 * chunk].copy_from_slice(&a);
        },
        "dup-last-chunk" => {
            if s.len < chunk || (s.len + chunk) as u64 > maxv {
                return None;
            }
            let a = b[end - chunk..end].to_vec();
            for (i, x) in a.iter().enumerate() {
                b.insert(end + i, *x);
            }
            wr(&mut b, s.off, s.width, (s.len + chunk) as u64);
        },
        "drop-first-chunk" => {
            if s.len < chunk {
                return None;
            }
            b.drain(start..start + chunk);
            wr(&mut b, s.off, s.width, (s.len - chunk) as u64);
        },
        _ => return None,
    }
    Some(b)
}
