//! C15 (folding identity): apply_drp over ToyField for every folding factor, recorded with the polynomial, its evaluations over
//! the coset, the challenge and the folded evaluations for Trace_Fold.tla, which recomputes the folded polynomial from the
//! coefficient slices.  fold_positions is recorded as well.
use std::io::Write;

use serde_json::json;
use winter_fri::folding::{apply_drp, fold_positions};
use winter_math::{fft, FieldElement, StarkField};

use crate::common::{arg_value, Rng};
use crate::toy::{Toy, P};

fn fold<const N: usize>(evals: &[Toy], offset: Toy, alpha: Toy) -> Vec<Toy> {
    let t: Vec<[Toy; N]> = winter_utils::transpose_slice(evals);
    apply_drp::<Toy, Toy, N>(&t, offset, alpha)
}

pub fn main(args: &[String]) -> i32 {
    let outp = arg_value(args, "--out").expect("--out");
    let max_log: u32 = arg_value(args, "--maxlog").and_then(|s| s.parse().ok()).unwrap_or(6);
    let seed: u64 = arg_value(args, "--seed").and_then(|s| s.parse().ok()).unwrap_or(1);
    let mut out = std::io::BufWriter::new(std::fs::File::create(outp).unwrap());
    let mut rng = Rng(seed ^ 0xf01d);
    let mut n_events = 0usize;
    for n in [2usize, 4, 8, 16] {
        for lm in 1..=max_log {
            let m = 1usize << lm;
            if m < 2 * n && m != n {
                continue;
            }
            if m < n {
                continue;
            }
            for (oi, offset) in [Toy::ONE, Toy::GENERATOR, Toy::new(12345)].into_iter().enumerate() {
                for (ai, alpha) in [Toy::new(1 + rng.below(P - 1)), Toy::ZERO, Toy::ONE, Toy::new(P - 1)].into_iter().enumerate() {
                    if ai > 0 && (oi + lm as usize) % 3 != 0 {
                        continue; // boundary challenges on a third of the configurations
                    }
                    let poly: Vec<Toy> = (0..m).map(|i| if (i + ai) % 7 == 3 { Toy::ZERO } else { Toy::new(rng.below(P)) }).collect();
                    let tw = fft::get_twiddles::<Toy>(m);
                    let evals = fft::evaluate_poly_with_offset(&poly, &tw, offset, 1);
                    let folded = match n {
                        2 => fold::<2>(&evals, offset, alpha),
                        4 => fold::<4>(&evals, offset, alpha),
                        8 => fold::<8>(&evals, offset, alpha),
                        _ => fold::<16>(&evals, offset, alpha),
                    };
                    let v = |x: &[Toy]| x.iter().map(|e| e.v()).collect::<Vec<u64>>();
                    writeln!(out, "{}", json!({"ev": "fold", "N": n, "m": m, "offset": offset.v(), "alpha": alpha.v(), "poly": v(&poly), "evals": v(&evals), "out": v(&folded)})).unwrap();
                    n_events += 1;
                }
            }
            // position folding: first-occurrence order of p mod m/N, duplicates removed
            let positions: Vec<usize> = (0..6).map(|_| rng.below(m as u64) as usize).chain([0, m - 1, m / 2]).collect();
            let fp = fold_positions(&positions, m, n);
            writeln!(out, "{}", json!({"ev": "positions", "N": n, "m": m, "ps": positions, "folded": fp})).unwrap();
            n_events += 1;
        }
    }
    out.flush().unwrap();
    println!("{}", json!({"events": n_events}));
    0
}
