//! C18: tabulates Proof::security_level and AcceptableOptions::validate over the parameter grid for
//! Trace_Security.tla (which holds the documented formula and the monotonicity / policy relations).
use serde_json::{json, Value};
use winter_air::{proof::Context, proof::Proof, FieldExtension, ProofOptions, TraceInfo};
use winter_crypto::hashers::{Blake3_192, Blake3_256, Rp62_248};
use winter_crypto::Hasher;
use winter_math::fields::{f128, f62, f64};
use winter_verifier::AcceptableOptions;

use crate::common::{arg_value, guarded, panic_key};

fn ext_of(e: u32) -> FieldExtension {
    match e {
        1 => FieldExtension::None,
        2 => FieldExtension::Quadratic,
        _ => FieldExtension::Cubic,
    }
}

fn proof_for(bits: u32, ext: u32, lb: u32, g: u32, ln: u32, q: usize, fold: usize, rem: usize) -> Proof {
    let opts = ProofOptions::new(q, 1usize << lb, g, ext_of(ext), fold, rem);
    let ti = TraceInfo::new(1, 1usize << ln);
    let mut p = Proof::new_dummy();
    p.context = match bits {
        62 => Context::new::<f62::BaseElement>(ti, opts),
        64 => Context::new::<f64::BaseElement>(ti, opts),
        _ => Context::new::<f128::BaseElement>(ti, opts),
    };
    p
}

fn level(p: &Proof, cr: u32, conj: bool) -> u32 {
    match cr {
        96 => p.security_level::<Blake3_192<f64::BaseElement>>(conj),
        124 => p.security_level::<Rp62_248>(conj),
        _ => p.security_level::<Blake3_256<f64::BaseElement>>(conj),
    }
}
fn validate(p: &Proof, cr: u32, a: &AcceptableOptions) -> bool {
    match cr {
        96 => a.validate::<Blake3_192<f64::BaseElement>>(p).is_ok(),
        124 => a.validate::<Rp62_248>(p).is_ok(),
        _ => a.validate::<Blake3_256<f64::BaseElement>>(p).is_ok(),
    }
}

fn process(bits: u32, ext: u32, lb: u32, g: u32, ln: u32, cr: u32, f: &mut Vec<String>, rows: &mut usize, panics: &mut Vec<Value>) {
    let r = guarded(|| {
        let mut conj = Vec::with_capacity(255);
        let mut prov = Vec::with_capacity(255);
        for q in 1..=255usize {
            let p = proof_for(bits, ext, lb, g, ln, q, 4, 31);
            conj.push(level(&p, cr, true));
            prov.push(level(&p, cr, false));
        }
        (conj, prov)
    });
    let (conj, prov) = match r {
        Ok(x) => x,
        Err(p) => {
            panics.push(json!({"key": format!("security/panic@{}", panic_key(&p)), "what": p, "params": [bits, ext, lb, g, ln, cr]}));
            return;
        },
    };
    *rows += 1;
    f.push(json!({"ev": "row", "bits": bits, "ext": ext, "lb": lb, "g": g, "ln": ln, "cr": cr, "conj": conj, "prov": prov}).to_string());
    // neighbours along the monotone axes (grinding, extension degree, collision resistance)
    let mut nb: Vec<(&str, [u32; 6])> = vec![];
    if g < 32 {
        nb.push(("g", [bits, ext, lb, g + 1, ln, cr]));
    }
    if ext < 3 {
        nb.push(("ext", [bits, ext + 1, lb, g, ln, cr]));
    }
    if cr < 128 {
        nb.push(("cr", [bits, ext, lb, g, ln, if cr == 96 { 124 } else { 128 }]));
    }
    for (axis, pr) in nb {
        let mut c2 = Vec::with_capacity(255);
        let mut p2 = Vec::with_capacity(255);
        for q in 1..=255usize {
            let p = proof_for(pr[0], pr[1], pr[2], pr[3], pr[4], q, 4, 31);
            c2.push(level(&p, pr[5], true));
            p2.push(level(&p, pr[5], false));
        }
        f.push(json!({"ev": "mono", "axis": axis, "conj_lo": conj, "conj_hi": c2, "prov_lo": prov, "prov_hi": p2}).to_string());
    }
    // the proven estimate as a maximum over the admissible proximity parameters (hook): per-m levels for short traces, where
    // the admissible range is small and its upper end matters
    if ln <= 10 && g <= 16 {
        for q in [1usize, 20, 36, 80, 255] {
            let p = proof_for(bits, ext, lb, g, ln, q, 4, 31);
            let m_max = winter_air::proof::verif::upper_m(1usize << ln);
            let hi = (m_max + 1).min(1001);
            let fm: Vec<u64> = (3..=hi).map(|m| winter_air::proof::verif::proven_security_for_m(p.options(), bits, 1usize << ln, m as usize)).collect();
            f.push(json!({"ev": "prov_m", "bits": bits, "ext": ext, "lb": lb, "g": g, "ln": ln, "cr": cr, "q": q, "m_max": m_max, "f": fm, "level": prov[q - 1]}).to_string());
        }
    }
    // acceptance policy at the boundary of the level, for a few query counts
    for q in [1usize, 27, 80, 255] {
        let p = proof_for(bits, ext, lb, g, ln, q, 4, 31);
        let (lc, lp) = (conj[q - 1], prov[q - 1]);
        for d in [-1i64, 0, 1] {
            let mc = (lc as i64 + d).max(0) as u32;
            let mp = (lp as i64 + d).max(0) as u32;
            f.push(json!({"ev": "policy", "kind": "conj", "bits": bits, "ext": ext, "lb": lb, "g": g, "ln": ln, "cr": cr, "q": q,
                "level": lc, "min": mc, "ok": validate(&p, cr, &AcceptableOptions::MinConjecturedSecurity(mc))}).to_string());
            f.push(json!({"ev": "policy", "kind": "prov", "level": lp, "min": mp,
                "ok": validate(&p, cr, &AcceptableOptions::MinProvenSecurity(mp))}).to_string());
        }
        // option sets: the proof's own options, and sets differing in exactly one field
        let me = [q as u32, 1 << lb, g, ext, 4, 31];
        let variants: Vec<[u32; 6]> = vec![
            [if q == 255 { 254 } else { q as u32 + 1 }, 1 << lb, g, ext, 4, 31],
            [q as u32, if lb == 7 { 64 } else { 1 << (lb + 1) }, g, ext, 4, 31],
            [q as u32, 1 << lb, if g == 32 { 31 } else { g + 1 }, ext, 4, 31],
            [q as u32, 1 << lb, g, if ext == 3 { 1 } else { ext + 1 }, 4, 31],
            [q as u32, 1 << lb, g, ext, 8, 31],
            [q as u32, 1 << lb, g, ext, 4, 63],
        ];
        let mk = |o: &[u32; 6]| ProofOptions::new(o[0] as usize, o[1] as usize, o[2], ext_of(o[3]), o[4] as usize, o[5] as usize);
        let without: Vec<ProofOptions> = variants.iter().map(mk).collect();
        let mut with = without.clone();
        with.insert(3, mk(&me));
        f.push(json!({"ev": "optset", "opt": me, "set": variants, "ok": validate(&p, cr, &AcceptableOptions::OptionSet(without))}).to_string());
        let mut set2 = variants.clone();
        set2.insert(3, me);
        f.push(json!({"ev": "optset", "opt": me, "set": set2, "ok": validate(&p, cr, &AcceptableOptions::OptionSet(with))}).to_string());
    }
}

pub fn main(args: &[String]) -> i32 {
    let out = arg_value(args, "--out").expect("--out");
    let shards: usize = arg_value(args, "--shards").and_then(|s| s.parse().ok()).unwrap_or(4);
    let thorough = args.iter().any(|a| a == "--thorough");
    // the collision resistance each hash function declares and the cap it puts on a proof whose other terms are saturated
    // (128-bit field, cubic extension, 255 queries, blowup 128, grinding 32): events for Trace_Security (`hasher`)
    let mut hasher_events: Vec<String> = vec![];
    {
        use winter_crypto::hashers::{Rp64_256, RpJive64_256, Sha3_256};
        let sat = proof_for(128, 3, 7, 32, 10, 255, 4, 31);
        macro_rules! hev {
            ($name:expr, $h:ty) => {
                hasher_events.push(json!({"ev": "hasher", "name": $name, "cr": <$h as Hasher>::COLLISION_RESISTANCE,
                    "cap_conj": sat.security_level::<$h>(true), "cap_prov": sat.security_level::<$h>(false)}).to_string());
            };
        }
        hev!("blake3_192", Blake3_192<f64::BaseElement>);
        hev!("blake3_256", Blake3_256<f64::BaseElement>);
        hev!("sha3_256", Sha3_256<f64::BaseElement>);
        hev!("rp62_248", Rp62_248);
        hev!("rp64_256", Rp64_256);
        hev!("rpjive64_256", RpJive64_256);
    }
    let gs: Vec<u32> = if thorough { (0..=32).collect() } else { vec![0, 1, 16, 32] };
    let lns: Vec<u32> = if thorough { (3..=30).collect() } else { vec![3, 10, 20, 24] };
    let mut params: Vec<[u32; 6]> = vec![];
    for bits in [62u32, 64, 128] {
        for ext in 1..=3u32 {
            for lb in 1..=7u32 {
                for &ln in &lns {
                    if ln + lb > 31 {
                        continue; // Context::new refuses LDE domains above 2^32 - 1
                    }
                    for &g in &gs {
                        for cr in [96u32, 124, 128] {
                            params.push([bits, ext, lb, g, ln, cr]);
                        }
                    }
                }
            }
        }
    }
    let nthreads = 16usize;
    let results: Vec<(Vec<Vec<String>>, usize, Vec<Value>)> = std::thread::scope(|sc| {
        let handles: Vec<_> = (0..nthreads)
            .map(|t| {
                let params = &params;
                sc.spawn(move || {
                    let mut files: Vec<Vec<String>> = vec![Vec::new(); shards];
                    let mut rows = 0usize;
                    let mut panics: Vec<Value> = vec![];
                    for (k, pr) in params.iter().enumerate().filter(|(k, _)| k % nthreads == t) {
                        let [bits, ext, lb, g, ln, cr] = *pr;
                        process(bits, ext, lb, g, ln, cr, &mut files[k % shards], &mut rows, &mut panics);
                    }
                    (files, rows, panics)
                })
            })
            .collect();
        handles.into_iter().map(|h| h.join().unwrap()).collect()
    });
    let mut files: Vec<Vec<String>> = vec![Vec::new(); shards];
    let mut rows = 0usize;
    let mut panics: Vec<Value> = vec![];
    for (f, r, p) in results {
        for (i, v) in f.into_iter().enumerate() {
            files[i].extend(v);
        }
        rows += r;
        panics.extend(p);
    }
    files[0].extend(hasher_events);
    let mut paths = vec![];
    for (i, f) in files.iter().enumerate() {
        let p = format!("{out}/security_{i}.ndjson");
        std::fs::write(&p, f.join("\n") + "\n").unwrap();
        paths.push(json!({"path": p, "events": f.len()}));
    }
    println!("{}", json!({"rows": rows, "files": paths, "failures": panics}));
    0
}
