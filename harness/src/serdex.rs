//! C12: serialization round trips.  Primitive encodings are compared byte for byte with the encodings computed by
//! Serde.tla; every value is decoded with SliceReader, Cursor and ReadAdapter (several chunkings) from the encoding followed
//! by junk bytes, and must come back equal having consumed exactly the encoding.
use std::collections::{BTreeMap, BTreeSet};
use std::io::BufRead;

use serde::Deserialize;
use serde_json::{json, Value};
use winter_air::{proof::Proof, FieldExtension, ProofOptions, TraceInfo};
use winter_crypto::{hashers::{Blake3_192, Blake3_256, Rp62_248, Rp64_256}, Hasher};
use winter_math::fields::{f128, f62, f64, CubeExtension, QuadExtension};
use winter_math::FieldElement;
use winter_utils::{ByteReader, ByteWriter, Deserializable, ReadAdapter, Serializable, SliceReader};

use crate::air::Fails;
use crate::common::{arg_value, guarded, panic_key, Rng};

struct Chunked<'a> {
    data: &'a [u8],
    pos: usize,
    size: usize,
}
impl<'a> std::io::Read for Chunked<'a> {
    fn read(&mut self, buf: &mut [u8]) -> std::io::Result<usize> {
        let n = self.size.min(buf.len()).min(self.data.len() - self.pos);
        buf[..n].copy_from_slice(&self.data[self.pos..self.pos + n]);
        self.pos += n;
        Ok(n)
    }
}

const JUNK: [u8; 5] = [0xa5, 0x00, 0xff, 0x01, 0x80];

/// decode T with reader R from enc ++ JUNK; Ok if the value is equal (by `same`) and exactly enc was consumed
fn with_reader<T, R: ByteReader>(r: &mut R, decode: &dyn Fn(&mut R) -> Result<T, String>, same: &dyn Fn(&T) -> bool) -> Result<(), String> {
    let v = decode(r)?;
    if !same(&v) {
        return Err("decoded value differs".into());
    }
    // what is left must be exactly the junk
    let mut rest = vec![];
    while let Ok(b) = r.read_u8() {
        rest.push(b);
        if rest.len() > JUNK.len() {
            break;
        }
    }
    if rest != JUNK {
        return Err(format!("consumed a different number of bytes ({} bytes left instead of {})", rest.len(), JUNK.len()));
    }
    Ok(())
}

/// decode T with reader R from exactly enc (the stream ends with the value): equal value, nothing left
fn with_reader_exact<T, R: ByteReader>(r: &mut R, decode: &dyn Fn(&mut R) -> Result<T, String>, same: &dyn Fn(&T) -> bool) -> Result<(), String> {
    let v = decode(r).map_err(|e| format!("at-end-of-stream {e}"))?;
    if !same(&v) {
        return Err("at-end-of-stream decoded value differs".into());
    }
    if r.has_more_bytes() {
        return Err("at-end-of-stream bytes left".into());
    }
    Ok(())
}

macro_rules! all_readers {
    ($ty:ty, $enc:expr, $decode:expr, $same:expr, $fails:expr, $key:expr, $what:expr, $count:expr) => {{
        let mut data = $enc.clone();
        data.extend(JUNK);
        let mut results: Vec<(String, Result<(), String>)> = vec![];
        results.push(("slice".into(), guarded(|| with_reader::<$ty, SliceReader>(&mut SliceReader::new(&data), &|r| $decode(r), &$same)).unwrap_or_else(|p| Err(format!("panic@{}", panic_key(&p))))));
        results.push(("cursor".into(), guarded(|| with_reader::<$ty, std::io::Cursor<&[u8]>>(&mut std::io::Cursor::new(data.as_slice()), &|r| $decode(r), &$same)).unwrap_or_else(|p| Err(format!("panic@{}", panic_key(&p))))));
        for size in [1usize, 7, 256, 1 << 20] {
            let res = guarded(|| {
                let mut src = Chunked { data: &data, pos: 0, size };
                let mut a = ReadAdapter::new(&mut src);
                with_reader::<$ty, ReadAdapter>(&mut a, &|r| $decode(r), &$same)
            })
            .unwrap_or_else(|p| Err(format!("panic@{}", panic_key(&p))));
            results.push((format!("adapter{size}"), res));
        }
        let exact = $enc.clone();
        results.push(("slice".into(), guarded(|| with_reader_exact::<$ty, SliceReader>(&mut SliceReader::new(&exact), &|r| $decode(r), &$same)).unwrap_or_else(|p| Err(format!("panic@{}", panic_key(&p))))));
        results.push(("cursor".into(), guarded(|| with_reader_exact::<$ty, std::io::Cursor<&[u8]>>(&mut std::io::Cursor::new(exact.as_slice()), &|r| $decode(r), &$same)).unwrap_or_else(|p| Err(format!("panic@{}", panic_key(&p))))));
        for size in [1usize, 5, 1 << 20] {
            let res = guarded(|| {
                let mut src = Chunked { data: &exact, pos: 0, size };
                let mut a = ReadAdapter::new(&mut src);
                with_reader_exact::<$ty, ReadAdapter>(&mut a, &|r| $decode(r), &$same)
            })
            .unwrap_or_else(|p| Err(format!("panic@{}", panic_key(&p))));
            results.push((format!("adapter{size}"), res));
        }
        for (who, r) in results {
            $count += 1;
            if let Err(e) = r {
                let kind = e.split(' ').next().unwrap_or("").to_string();
                $fails.add(format!("serde/{}/{}/{}", $key, if who.starts_with("adapter") { "adapter" } else { &who }, kind), format!("{}: reader {}: {}", $what, who, e), json!({"what": $what, "reader": who}));
            }
        }
    }};
}

#[derive(Deserialize, Clone, Debug)]
struct Case {
    kind: String,
    #[serde(default)]
    v: Vec<u8>,
    #[serde(default)]
    w: usize,
    #[serde(default)]
    enc: Vec<u8>,
    #[serde(default)]
    d: Value,
}

fn roundtrip_generic<T: Serializable + Deserializable + PartialEq + Clone>(name: &str, v: &T, fails: &mut Fails, count: &mut usize) {
    let enc = match guarded(|| v.to_bytes()) {
        Ok(e) => e,
        Err(p) => {
            fails.add(format!("serde/{name}/encode/panic@{}", panic_key(&p)), format!("{name}: encoding panics"), json!({}));
            return;
        },
    };
    let vv = v.clone();
    let mut c = *count;
    all_readers!(T, enc, |r: &mut _| T::read_from(r).map_err(|e| format!("error: {e}")), |x: &T| *x == vv, fails, name, name, c);
    *count = c;
}

pub fn main(args: &[String]) -> i32 {
    let path = arg_value(args, "--scenarios").expect("--scenarios");
    let proofs = arg_value(args, "--proofs");
    let seed: u64 = arg_value(args, "--seed").and_then(|s| s.parse().ok()).unwrap_or(1);
    let f = std::io::BufReader::new(std::fs::File::open(path).expect("open"));
    let cases: Vec<Case> = f.lines().map(|l| l.unwrap()).filter(|l| !l.trim().is_empty()).map(|l| serde_json::from_str(&l).expect("case")).collect();
    let mut fails = Fails::new();
    let mut count = 0usize;
    let mut drift = 0usize;
    let mut rng = Rng(seed);
    for c in &cases {
        match c.kind.as_str() {
            "usize" => {
                let v = u64::from_le_bytes(c.v[..8].try_into().unwrap()) as usize;
                let mut enc = Vec::new();
                enc.write_usize(v);
                if enc != c.enc {
                    fails.add("serde/usize/encoding".into(), format!("write_usize({v}) = {:?}, the documented vint64 encoding is {:?}", enc, c.enc), json!({"v": v}));
                }
                all_readers!(usize, enc, |r: &mut _| ByteReader::read_usize(r).map_err(|e| format!("error: {e}")), |x: &usize| *x == v, fails, "usize", format!("usize {v}"), count);
                let enc2 = v.to_bytes();
                if enc2 != enc {
                    fails.add("serde/usize/serializable".into(), format!("usize::to_bytes({v}) differs from write_usize"), json!({"v": v}));
                }
            },
            "uint" => {
                macro_rules! int {
                    ($t:ty, $rd:ident, $wr:ident) => {{
                        let mut b = [0u8; 16];
                        b[..c.v.len().min(16)].copy_from_slice(&c.v[..c.v.len().min(16)]);
                        let v = u128::from_le_bytes(b) as $t;
                        let mut enc = Vec::new();
                        enc.$wr(v);
                        if enc != c.enc {
                            fails.add(format!("serde/u{}/encoding", c.w * 8), format!("{}({v}) = {:?}, little-endian encoding is {:?}", stringify!($wr), enc, c.enc), json!({}));
                        }
                        all_readers!($t, enc, |r: &mut _| ByteReader::$rd(r).map_err(|e| format!("error: {e}")), |x: &$t| *x == v, fails, format!("u{}", c.w * 8), format!("u{} {v}", c.w * 8), count);
                        roundtrip_generic::<$t>(stringify!($t), &v, &mut fails, &mut count);
                    }};
                }
                match c.w {
                    1 => int!(u8, read_u8, write_u8),
                    2 => int!(u16, read_u16, write_u16),
                    4 => int!(u32, read_u32, write_u32),
                    8 => int!(u64, read_u64, write_u64),
                    _ => int!(u128, read_u128, write_u128),
                }
            },
            "traceinfo" => {
                let g = |k: &str| c.d[k].as_u64().unwrap() as usize;
                let meta: Vec<u8> = (1..=g("metalen")).map(|i| (i % 251) as u8).collect();
                let what = format!("TraceInfo(main {}, aux {}, rands {}, 2^{}, {} meta bytes)", g("main"), g("aux"), g("rands"), g("ln"), g("metalen"));
                match guarded(|| TraceInfo::new_multi_segment(g("main"), g("aux"), g("rands"), 1usize << g("ln"), meta.clone())) {
                    Ok(ti) => {
                        if ti.to_bytes() != c.enc {
                            drift += 1;
                        }
                        roundtrip_generic::<TraceInfo>("traceinfo", &ti, &mut fails, &mut count);
                    },
                    // admission limits of the constructors are the model's reading of the code, not part of the round-trip property
                    Err(p) => {
                        eprintln!("SPEC-DRIFT {what}: the constructor refuses a value the specification admits: {p}");
                        drift += 1;
                    },
                }
            },
            "options" => {
                let g = |k: &str| c.d[k].as_u64().unwrap() as usize;
                let ext = match g("ext") {
                    1 => FieldExtension::None,
                    2 => FieldExtension::Quadratic,
                    _ => FieldExtension::Cubic,
                };
                match guarded(|| ProofOptions::new(g("q"), g("blowup"), g("grind") as u32, ext, g("fold"), g("rem"))) {
                    Ok(o) => {
                        if o.to_bytes() != c.enc {
                            drift += 1;
                        }
                        roundtrip_generic::<ProofOptions>("options", &o, &mut fails, &mut count);
                    },
                    Err(p) => {
                        eprintln!("SPEC-DRIFT ProofOptions {:?}: the constructor refuses a value the specification admits: {p}", c.d);
                        drift += 1;
                    },
                }
            },
            "context" => {
                use winter_air::proof::Context;
                use winter_math::fields::{f128, f62, f64};
                let g = |k: &str| c.d[k].as_u64().unwrap() as usize;
                let what = format!("Context(2^{} rows, blowup 2^{}, {}-bit field, {} auxiliary columns)", g("ln"), g("lb"), g("field"), g("aux"));
                let build = || {
                    let ti = TraceInfo::new_multi_segment(2, g("aux"), g("aux").min(1) * 2, 1usize << g("ln"), vec![7u8; g("aux")]);
                    let o = ProofOptions::new(27, 1usize << g("lb"), 5, FieldExtension::Quadratic, 4, 31);
                    match g("field") {
                        62 => Context::new::<f62::BaseElement>(ti, o),
                        64 => Context::new::<f64::BaseElement>(ti, o),
                        _ => Context::new::<f128::BaseElement>(ti, o),
                    }
                };
                match guarded(build) {
                    Ok(ctx) => roundtrip_generic::<Context>(&format!("context/lde2^{}", g("ln") + g("lb")), &ctx, &mut fails, &mut count),
                    Err(p) => {
                        eprintln!("SPEC-DRIFT {what}: the constructor refuses a value the specification admits: {p}");
                        drift += 1;
                    },
                }
            },
            "oodframe" => {
                // an out-of-domain frame built through the public API from random elements: encode, decode with every reader, and
                // parse the decoded frame back into the values it was made from
                use winter_air::proof::{OodFrame, TraceOodFrame};
                use winter_air::LagrangeKernelEvaluationFrame;
                use winter_math::fields::{f128, f62, f64, CubeExtension, QuadExtension};
                use winter_math::FieldElement;
                let g = |k: &str| c.d[k].as_u64().unwrap() as usize;
                fn run<E: FieldElement, H: winter_crypto::ElementHasher<BaseField = E::BaseField>>(main: usize, aux: usize, lag: usize, ccols: usize, rng: &mut Rng, fails: &mut Fails, count: &mut usize, what: &str) {
                    let mut el = || -> E {
                        let bs: Vec<E::BaseField> = (0..E::EXTENSION_DEGREE).map(|_| E::BaseField::from(rng.next() as u32) * E::BaseField::from(rng.next() as u32)).collect();
                        E::slice_from_base_elements(&bs)[0]
                    };
                    let cur: Vec<E> = (0..main + aux).map(|_| el()).collect();
                    let nxt: Vec<E> = (0..main + aux).map(|_| el()).collect();
                    let lagv: Vec<E> = (0..lag).map(|_| el()).collect();
                    let evals: Vec<E> = (0..ccols).map(|_| el()).collect();
                    let r = guarded(|| {
                        let mut f = OodFrame::default();
                        let tf = TraceOodFrame::new(cur.clone(), nxt.clone(), main, if lag > 0 { Some(LagrangeKernelEvaluationFrame::new(lagv.clone())) } else { None });
                        f.set_trace_states::<E, H>(&tf);
                        f.set_constraint_evaluations(&evals);
                        f
                    });
                    match r {
                        Ok(f) => {
                            roundtrip_generic::<OodFrame>(what, &f, fails, count);
                            // the values survive: decode from the frame's own bytes and parse
                            use winter_utils::{Deserializable, Serializable};
                            let back = guarded(|| OodFrame::read_from_bytes(&f.to_bytes()).ok().and_then(|d| d.parse::<E>(main, aux + (lag > 0) as usize, ccols).ok()));
                            match back {
                                Ok(Some((tf2, ev2))) => {
                                    let lag2: Vec<E> = tf2.lagrange_kernel_frame().map(|l| l.inner().to_vec()).unwrap_or_default();
                                    if tf2.current_row() != &cur[..] || tf2.next_row() != &nxt[..] || ev2 != evals || lag2 != lagv {
                                        fails.add(format!("serde/{what}/values-changed"), format!("{what}: the out-of-domain frame decodes to other values"), json!({"main": main, "aux": aux, "lag": lag, "ccols": ccols}));
                                    }
                                },
                                Ok(None) => fails.add(format!("serde/{what}/undecodable"), format!("{what}: the out-of-domain frame cannot be decoded / parsed from its own encoding"), json!({"main": main, "aux": aux, "lag": lag, "ccols": ccols})),
                                Err(p) => fails.add(format!("serde/{what}/panic"), format!("{what}: decoding panics: {p}"), json!({"main": main, "aux": aux, "lag": lag, "ccols": ccols})),
                            }
                        },
                        Err(p) => {
                            eprintln!("SPEC-DRIFT {what}: the frame cannot be built: {p}");
                        },
                    }
                }
                let (m, a, l, cc) = (g("main"), g("aux"), g("lag"), g("ccols"));
                let what = format!("ood_frame/f{}x{}", g("field"), g("ext"));
                match (g("field"), g("ext")) {
                    (62, 1) => run::<f62::BaseElement, Blake3_256<f62::BaseElement>>(m, a, l, cc, &mut rng, &mut fails, &mut count, &what),
                    (62, 2) => run::<QuadExtension<f62::BaseElement>, Blake3_256<f62::BaseElement>>(m, a, l, cc, &mut rng, &mut fails, &mut count, &what),
                    (62, 3) => run::<CubeExtension<f62::BaseElement>, Blake3_256<f62::BaseElement>>(m, a, l, cc, &mut rng, &mut fails, &mut count, &what),
                    (64, 1) => run::<f64::BaseElement, Blake3_256<f64::BaseElement>>(m, a, l, cc, &mut rng, &mut fails, &mut count, &what),
                    (64, 2) => run::<QuadExtension<f64::BaseElement>, Blake3_256<f64::BaseElement>>(m, a, l, cc, &mut rng, &mut fails, &mut count, &what),
                    (64, 3) => run::<CubeExtension<f64::BaseElement>, Blake3_256<f64::BaseElement>>(m, a, l, cc, &mut rng, &mut fails, &mut count, &what),
                    (128, 1) => run::<f128::BaseElement, Blake3_256<f128::BaseElement>>(m, a, l, cc, &mut rng, &mut fails, &mut count, &what),
                    _ => run::<QuadExtension<f128::BaseElement>, Blake3_256<f128::BaseElement>>(m, a, l, cc, &mut rng, &mut fails, &mut count, &what),
                }
            },
            k => {
                eprintln!("harness: unknown serde case {k}");
                return 2;
            },
        }
    }
    // ---- generic values: options, strings, vectors, maps, tuples, arrays, field and extension elements, digests ----------
    for i in 0..40u64 {
        let n = [0usize, 1, 2, 63, 64, 127, 128, 129, 300][i as usize % 9];
        let bytes: Vec<u8> = (0..n).map(|_| rng.next() as u8).collect();
        roundtrip_generic::<Vec<u8>>("vec_u8", &bytes, &mut fails, &mut count);
        roundtrip_generic::<Option<u64>>("option_u64", &(if i % 2 == 0 { None } else { Some(rng.next()) }), &mut fails, &mut count);
        roundtrip_generic::<Option<Vec<u8>>>("option_vec", &(if i % 3 == 0 { None } else { Some(bytes.clone()) }), &mut fails, &mut count);
        let s: String = (0..n).map(|k| ['a', 'é', 'z', '\u{10348}', '0'][(k + i as usize) % 5]).collect();
        roundtrip_generic::<String>("string", &s, &mut fails, &mut count);
        let vv: Vec<Vec<u16>> = (0..(n % 7)).map(|k| (0..k).map(|x| (x * 977 + i as usize) as u16).collect()).collect();
        roundtrip_generic::<Vec<Vec<u16>>>("vec_vec_u16", &vv, &mut fails, &mut count);
        let m: BTreeMap<u32, Vec<u8>> = (0..(n % 5) as u32).map(|k| (k * 1000 + i as u32, bytes.iter().take(k as usize).cloned().collect())).collect();
        roundtrip_generic::<BTreeMap<u32, Vec<u8>>>("btreemap", &m, &mut fails, &mut count);
        let st: BTreeSet<u64> = (0..(n % 6) as u64).map(|k| k.wrapping_mul(rng.next() | 1)).collect();
        roundtrip_generic::<BTreeSet<u64>>("btreeset", &st, &mut fails, &mut count);
        roundtrip_generic::<(u8, u64, Vec<u8>)>("tuple3", &(i as u8, rng.next(), bytes.clone()), &mut fails, &mut count);
        roundtrip_generic::<[u32; 4]>("array4", &[rng.next() as u32, 0, u32::MAX, i as u32], &mut fails, &mut count);
        macro_rules! elems {
            ($B:ty, $name:expr) => {{
                // values reached through arithmetic as well as through constructors: the internal representation of a residue is
                // not unique in every field (a zero obtained by cancellation, a one obtained from it)
                let x = <$B>::from(rng.next() as u32) * <$B>::from(rng.next() as u32);
                let z = x + (-x);
                let boundary: [$B; 9] = [<$B>::ZERO, <$B>::ONE, -<$B>::ONE, x, z, (-<$B>::ONE) + <$B>::ONE, z.double(), <$B>::ONE + z, <$B>::ZERO - z];
                let e = boundary[i as usize % 9];
                roundtrip_generic::<$B>($name, &e, &mut fails, &mut count);
                roundtrip_generic::<QuadExtension<$B>>(&format!("quad_{}", $name), &QuadExtension::<$B>::new(e, boundary[(i as usize + 1) % 9]), &mut fails, &mut count);
                roundtrip_generic::<CubeExtension<$B>>(&format!("cube_{}", $name), &CubeExtension::<$B>::new(boundary[(i as usize + 4) % 9], e, boundary[(i as usize + 5) % 9]), &mut fails, &mut count);
                roundtrip_generic::<Vec<$B>>(&format!("vec_{}", $name), &boundary.to_vec(), &mut fails, &mut count);
            }};
        }
        elems!(f62::BaseElement, "f62");
        elems!(f64::BaseElement, "f64");
        {
            // f128 has no cubic extension
            type B = f128::BaseElement;
            use winter_math::FieldElement;
            let x = B::from(rng.next() as u32) * B::from(rng.next() as u32);
            let z = x + (-x);
            let boundary: [B; 6] = [B::ZERO, B::ONE, -B::ONE, x, z, B::ONE + z];
            let e = boundary[i as usize % 6];
            roundtrip_generic::<B>("f128", &e, &mut fails, &mut count);
            roundtrip_generic::<QuadExtension<B>>("quad_f128", &QuadExtension::<B>::new(e, boundary[(i as usize + 1) % 6]), &mut fails, &mut count);
            roundtrip_generic::<Vec<B>>("vec_f128", &boundary.to_vec(), &mut fails, &mut count);
        }
        let c3 = CubeExtension::<f64::BaseElement>::new(f64::BaseElement::from(i as u32), -f64::BaseElement::ONE, f64::BaseElement::from(rng.next() as u32));
        roundtrip_generic::<CubeExtension<f64::BaseElement>>("cube_f64", &c3, &mut fails, &mut count);
        roundtrip_generic::<<Blake3_256<f64::BaseElement> as Hasher>::Digest>("digest32", &Blake3_256::<f64::BaseElement>::hash(&bytes), &mut fails, &mut count);
        roundtrip_generic::<<Blake3_192<f64::BaseElement> as Hasher>::Digest>("digest24", &Blake3_192::<f64::BaseElement>::hash(&bytes), &mut fails, &mut count);
        roundtrip_generic::<<Rp64_256 as Hasher>::Digest>("digest_rp64", &Rp64_256::hash(&bytes[..bytes.len().min(20)]), &mut fails, &mut count);
        roundtrip_generic::<<Rp62_248 as Hasher>::Digest>("digest_rp62", &Rp62_248::hash(&bytes[..bytes.len().min(20)]), &mut fails, &mut count);
    }
    // ---- whole proofs and their components (hex lines produced by the completeness scenarios) ------------------------------
    let mut nproofs = 0usize;
    if let Some(pp) = proofs {
        for line in std::fs::read_to_string(pp).unwrap_or_default().lines() {
            let bytes: Vec<u8> = match serde_json::from_str::<Vec<u8>>(line) {
                Ok(b) => b,
                Err(_) => continue,
            };
            let p = match Proof::from_bytes(&bytes) {
                Ok(p) => p,
                Err(e) => {
                    fails.add("serde/proof/honest-unparsable".into(), format!("an honest proof cannot be parsed: {e}"), json!({}));
                    continue;
                },
            };
            nproofs += 1;
            roundtrip_generic::<Proof>("proof", &p, &mut fails, &mut count);
            // every value of the optional GKR component: absent, present and empty, present with 1 / 3 / 300 bytes (Option<Vec<u8>>:
            // "options ... empty and maximal collections, nested compositions")
            for g in [None, Some(vec![]), Some(vec![0u8]), Some(vec![1u8, 2, 3]), Some(vec![0xa5u8; 300])] {
                let mut q = p.clone();
                q.gkr_proof = g;
                roundtrip_generic::<Proof>("proof-gkr-variant", &q, &mut fails, &mut count);
            }
            roundtrip_generic::<winter_air::proof::Context>("context", &p.context, &mut fails, &mut count);
            roundtrip_generic::<winter_air::proof::Commitments>("commitments", &p.commitments, &mut fails, &mut count);
            roundtrip_generic::<winter_air::proof::Queries>("queries", &p.constraint_queries, &mut fails, &mut count);
            roundtrip_generic::<winter_air::proof::OodFrame>("ood_frame", &p.ood_frame, &mut fails, &mut count);
            roundtrip_generic::<winter_fri::FriProof>("fri_proof", &p.fri_proof, &mut fails, &mut count);
        }
    }
    println!("{}", json!({"cases": cases.len(), "reader_runs": count, "proofs": nproofs, "spec_drift": drift, "failures": fails.to_json()}));
    0
}
