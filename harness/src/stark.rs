//! STARK-level scenarios (C01 completeness, C02 soundness, C03 integrity, C04 transcript, C06 untrusted input).
use std::marker::PhantomData;

use serde::Deserialize;
use serde_json::{json, Value};
use winter_air::{proof::Proof, FieldExtension, ProofOptions};
use winter_crypto::{
    hashers::{Blake3_192, Blake3_256, Rp62_248, Rp64_256, RpJive64_256, Sha3_256},
    DefaultRandomCoin, ElementHasher, RandomCoin,
};
use winter_math::fields::{f128, f62, f64};
use winter_prover::Prover;
use winter_verifier::{verify, AcceptableOptions};

use crate::common::{guarded, panic_key};
use crate::shape::{SField, Shape, ShapeAir, ShapeInputs, ShapeProver};

#[derive(Deserialize, Clone, Debug)]
pub struct Opts {
    pub q: usize,
    pub blowup: usize,
    pub grind: u32,
    pub fold: usize,
    pub rem: usize,
}

#[derive(Deserialize, Clone, Debug)]
pub struct Scenario {
    pub id: u64,
    pub field: String,
    pub hasher: String,
    pub ext: u32,
    pub shape: Shape,
    pub opts: Opts,
    #[serde(default)]
    pub seed: u64,
    #[serde(default)]
    pub free_tail: bool,
    #[serde(default)]
    pub corrupt: Option<(usize, usize)>, // (column, step)
    /// (column, step) of the auxiliary segment to corrupt while proving
    #[serde(default)]
    pub aux_corrupt: Option<(usize, usize)>,
    /// commit to a segment that differs from the one proved about: (auxiliary segment?, column, step)
    #[serde(default)]
    pub lde_cheat: Option<(bool, usize, usize)>,
    #[serde(default)]
    pub lde_cheats: Vec<LdeCheat>,
    /// commit to constraint composition columns other than the ones the out-of-domain evaluations come from
    #[serde(default)]
    pub comp_cheat: bool,
    #[serde(default)]
    pub expect: String,
    #[serde(default)]
    pub corruptions: Vec<Corruption>,
    /// cells of the auxiliary segment to corrupt (C02), with the model's verdict
    #[serde(default)]
    pub aux_corruptions: Vec<Corruption>,
    /// the statement of Stark.tla this scenario was made from, with the model's derived quantities
    #[serde(default)]
    pub stmt: Option<Value>,
    #[serde(default)]
    pub ccols: usize,
    #[serde(default)]
    pub layers: usize,
}

#[derive(Deserialize, Clone, Debug)]
pub struct LdeCheat {
    pub aux: bool,
    pub c: usize,
    pub i: usize,
}

#[derive(Deserialize, Clone, Debug)]
pub struct Corruption {
    pub c: usize,
    pub i: usize,
    pub violated: bool,
}

pub fn ext_of(e: u32) -> FieldExtension {
    match e {
        1 => FieldExtension::None,
        2 => FieldExtension::Quadratic,
        _ => FieldExtension::Cubic,
    }
}

pub fn options_of(sc: &Scenario) -> ProofOptions {
    ProofOptions::new(sc.opts.q, sc.opts.blowup, sc.opts.grind, ext_of(sc.ext), sc.opts.fold, sc.opts.rem)
}

/// A job that is generic in the base field, the hash function and the coin.
pub trait Job {
    fn run<B: SField, H: ElementHasher<BaseField = B> + Sync + Send>(&mut self, sc: &Scenario) -> Value;
}

pub fn dispatch<J: Job>(job: &mut J, sc: &Scenario) -> Value {
    match (sc.field.as_str(), sc.hasher.as_str()) {
        ("f62", "blake3_256") => job.run::<f62::BaseElement, Blake3_256<f62::BaseElement>>(sc),
        ("f62", "blake3_192") => job.run::<f62::BaseElement, Blake3_192<f62::BaseElement>>(sc),
        ("f62", "sha3_256") => job.run::<f62::BaseElement, Sha3_256<f62::BaseElement>>(sc),
        ("f62", "rp62_248") => job.run::<f62::BaseElement, Rp62_248>(sc),
        ("f64", "blake3_256") => job.run::<f64::BaseElement, Blake3_256<f64::BaseElement>>(sc),
        ("f64", "blake3_192") => job.run::<f64::BaseElement, Blake3_192<f64::BaseElement>>(sc),
        ("f64", "sha3_256") => job.run::<f64::BaseElement, Sha3_256<f64::BaseElement>>(sc),
        ("f64", "rp64_256") => job.run::<f64::BaseElement, Rp64_256>(sc),
        ("f64", "rpjive64_256") => job.run::<f64::BaseElement, RpJive64_256>(sc),
        ("f128", "blake3_256") => job.run::<f128::BaseElement, Blake3_256<f128::BaseElement>>(sc),
        ("f128", "blake3_192") => job.run::<f128::BaseElement, Blake3_192<f128::BaseElement>>(sc),
        ("f128", "sha3_256") => job.run::<f128::BaseElement, Sha3_256<f128::BaseElement>>(sc),
        (f, h) => {
            eprintln!("harness: unsupported field/hasher combination {f}/{h}");
            std::process::exit(2)
        },
    }
}

pub struct Built<B: SField> {
    pub cols: Vec<Vec<B>>,
    pub inputs: ShapeInputs<B>,
}

pub fn build<B: SField>(sc: &Scenario) -> Built<B> {
    let cols = sc.shape.build_trace::<B>(sc.seed, sc.free_tail, false);
    let inputs = ShapeInputs::from_trace(&sc.shape, &cols);
    Built { cols, inputs }
}

/// prove with coin R; returns Ok(proof) / Err(description)
pub fn prove_with<B: SField, H: ElementHasher<BaseField = B> + Sync + Send, R: RandomCoin<BaseField = B, Hasher = H> + Send>(
    sc: &Scenario,
    cols: Vec<Vec<B>>,
    claim: Option<ShapeInputs<B>>,
) -> Result<Proof, String> {
    let r = guarded(|| {
        let prover = ShapeProver::<B, H, R> { options: options_of(sc), shape: sc.shape.clone(), claim, aux_corrupt: sc.aux_corrupt, lde_cheat: sc.lde_cheat, comp_cheat: sc.comp_cheat, _p: PhantomData };
        let trace = crate::shape::ShapeTrace::new(&sc.shape, cols);
        prover.prove(trace)
    });
    match r {
        Ok(Ok(p)) => Ok(p),
        Ok(Err(e)) => Err(format!("error: {e}")),
        Err(p) => Err(format!("panic@{}", panic_key(&p))),
    }
}

pub fn verify_with<B: SField, H: ElementHasher<BaseField = B> + Sync + Send, R: RandomCoin<BaseField = B, Hasher = H> + Send>(
    proof: Proof,
    inputs: ShapeInputs<B>,
) -> Result<(), String> {
    let r = guarded(|| verify::<ShapeAir<B>, H, R>(proof, inputs, &AcceptableOptions::MinConjecturedSecurity(0)));
    match r {
        Ok(Ok(())) => Ok(()),
        Ok(Err(e)) => Err(format!("rejected: {e} <<{e:?}>>")),
        Err(p) => Err(format!("panic@{}", panic_key(&p))),
    }
}

/// the variant of VerifierError behind a "rejected: ..." outcome of verify_with (e.g. "FriVerificationFailed(LayerCommitmentMismatch)")
pub fn error_class(e: &str) -> String {
    match (e.rfind("<<"), e.rfind(">>")) {
        (Some(a), Some(b)) if a + 2 <= b => {
            let full = &e[a + 2..b];
            // keep the variant names, drop payload values: ProofDeserializationError("..") -> ProofDeserializationError
            let head: String = full.chars().take_while(|c| c.is_alphanumeric()).collect();
            if head == "FriVerificationFailed" {
                let inner: String = full[head.len()..].chars().skip(1).take_while(|c| c.is_alphanumeric()).collect();
                format!("{head}/{inner}")
            } else {
                head
            }
        },
        _ => "?".into(),
    }
}

pub fn res_json(r: &Result<(), String>) -> Value {
    match r {
        Ok(()) => json!("ok"),
        Err(e) => json!(e),
    }
}

// ---------------------------------------------------------------------------------------------------------
// C01: honest prove -> verify -> serialize -> parse -> verify
// ---------------------------------------------------------------------------------------------------------
pub struct Complete;
impl Job for Complete {
    fn run<B: SField, H: ElementHasher<BaseField = B> + Sync + Send>(&mut self, sc: &Scenario) -> Value {
        let b = build::<B>(sc);
        let proof = match prove_with::<B, H, DefaultRandomCoin<H>>(sc, b.cols.clone(), None) {
            Ok(p) => p,
            Err(e) => return json!({"id": sc.id, "prove": e}),
        };
        let bytes = match guarded(|| proof.to_bytes()) {
            Ok(b) => b,
            Err(p) => return json!({"id": sc.id, "prove": "ok", "to_bytes": format!("panic@{}", panic_key(&p))}),
        };
        if let Ok(p) = std::env::var("WFH_DUMP_PROOFS") {
            use std::io::Write;
            if let Ok(mut f) = std::fs::OpenOptions::new().create(true).append(true).open(p) {
                let _ = writeln!(f, "{}", serde_json::to_string(&bytes).unwrap());
            }
        }
        let unique = proof.num_unique_queries as usize;
        let v1 = verify_with::<B, H, DefaultRandomCoin<H>>(proof, b.inputs.clone());
        let parsed = guarded(|| Proof::from_bytes(&bytes));
        let (parse, v2) = match parsed {
            Ok(Ok(p2)) => {
                let same = guarded(|| p2.to_bytes() == bytes).unwrap_or(false);
                (if same { "ok".to_string() } else { "reencoding-differs".to_string() }, Some(verify_with::<B, H, DefaultRandomCoin<H>>(p2, b.inputs.clone())))
            },
            Ok(Err(e)) => (format!("error: {e}"), None),
            Err(p) => (format!("panic@{}", panic_key(&p)), None),
        };
        json!({"id": sc.id, "prove": "ok", "verify": res_json(&v1), "bytes": bytes.len(), "parse": parse, "unique": unique,
               "verify2": v2.map(|r| res_json(&r)).unwrap_or(json!("n/a"))})
    }
}

// ---------------------------------------------------------------------------------------------------------
// C02: corrupted cells and perturbed statements
// ---------------------------------------------------------------------------------------------------------
/// Reference validity predicate, independent of the library's constraint evaluation: every enforced transition is the
/// functional step and every asserted cell holds the claimed value.
pub fn reference_valid<B: SField>(shape: &Shape, cols: &[Vec<B>], inputs: &ShapeInputs<B>) -> bool {
    let pv = shape.periodic_values::<B>();
    let n = shape.n;
    for j in 0..(n - shape.exempt) {
        let cur: Vec<B> = cols.iter().map(|c| c[j]).collect();
        let next = shape.step_fn(&cur, j, &pv);
        for c in 0..shape.width {
            if cols[c][j + 1] != next[c] {
                return false;
            }
        }
    }
    for (a, vals) in shape.asserts.iter().zip(inputs.values.iter()) {
        for (x, s) in shape.steps_of(a).iter().enumerate() {
            let v = if vals.len() == 1 { vals[0] } else { vals[x] };
            if cols[a.col][*s] != v {
                return false;
            }
        }
    }
    // the auxiliary segment the prover builds from these main columns must meet the claimed auxiliary assertions: the
    // value of a running-sum column at step s is r times the prefix sum of its main column, claimed as a public input
    for (a, vals) in shape.aux_asserts.iter().zip(inputs.aux_values.iter()) {
        if shape.aux_degs[a.col] != 1 {
            continue;
        }
        let col = &cols[a.col % shape.width];
        for (x, s) in shape.steps_of(a).iter().enumerate() {
            let v = if vals.len() == 1 { vals[0] } else { vals[x] };
            if col[..*s].iter().fold(B::ZERO, |acc, &e| acc + e) != v {
                return false;
            }
        }
    }
    true
}

/// Reference predicate for one changed cell of the auxiliary segment: the cell is determined by the statement iff it is
/// in the Lagrange kernel column, or named by an auxiliary assertion, or is the `next` or the `cur` of an enforced transition.
pub fn aux_cell_constrained(shape: &Shape, c: usize, i: usize) -> bool {
    if shape.lagrange && c == shape.aux_width() - 1 {
        return true;
    }
    let enforced = shape.n - shape.exempt; // transitions j -> j+1 for j < enforced
    if (i >= 1 && i - 1 < enforced) || i < enforced {
        return true;
    }
    shape.aux_asserts.iter().any(|a| a.col == c && shape.steps_of(a).contains(&i))
}

pub struct Sound;
impl Job for Sound {
    fn run<B: SField, H: ElementHasher<BaseField = B> + Sync + Send>(&mut self, sc: &Scenario) -> Value {
        use winter_air::proof::Context;
        use winter_air::TraceInfo;
        let b = build::<B>(sc);
        let honest_valid = reference_valid(&sc.shape, &b.cols, &b.inputs);
        let mut out = json!({"id": sc.id, "honest_ref_valid": honest_valid});
        // ---- corrupted cells -------------------------------------------------------------------------------
        let mut cells = vec![];
        for k in &sc.corruptions {
            let mut cols = b.cols.clone();
            cols[k.c][k.i] += B::ONE;
            let ref_valid = reference_valid(&sc.shape, &cols, &b.inputs);
            let (prove, verdict) = match prove_with::<B, H, DefaultRandomCoin<H>>(sc, cols, Some(b.inputs.clone())) {
                Ok(p) => ("ok".to_string(), res_json(&verify_with::<B, H, DefaultRandomCoin<H>>(p, b.inputs.clone()))),
                Err(e) => (e, json!("n/a")),
            };
            cells.push(json!({"c": k.c, "i": k.i, "violated": k.violated, "ref_valid": ref_valid, "prove": prove, "verify": verdict}));
        }
        // ---- corrupted cells of the auxiliary segment (built inside the prover from the honest main segment) -----
        for k in &sc.aux_corruptions {
            let mut sc2 = sc.clone();
            sc2.aux_corrupt = Some((k.c, k.i));
            let ref_valid = !aux_cell_constrained(&sc.shape, k.c, k.i);
            let (prove, verdict) = match prove_with::<B, H, DefaultRandomCoin<H>>(&sc2, b.cols.clone(), Some(b.inputs.clone())) {
                Ok(p) => ("ok".to_string(), res_json(&verify_with::<B, H, DefaultRandomCoin<H>>(p, b.inputs.clone()))),
                Err(e) => (e, json!("n/a")),
            };
            cells.push(json!({"aux": true, "c": k.c, "i": k.i, "violated": k.violated, "ref_valid": ref_valid, "prove": prove, "verify": verdict}));
        }
        // ---- the committed segment is not the one the proof is about (openings of a different polynomial) -------------
        for k in &sc.lde_cheats {
            let mut sc2 = sc.clone();
            sc2.lde_cheat = Some((k.aux, k.c, k.i));
            let (prove, verdict) = match prove_with::<B, H, DefaultRandomCoin<H>>(&sc2, b.cols.clone(), Some(b.inputs.clone())) {
                Ok(p) => ("ok".to_string(), res_json(&verify_with::<B, H, DefaultRandomCoin<H>>(p, b.inputs.clone()))),
                Err(e) => (e, json!("n/a")),
            };
            cells.push(json!({"lde": true, "aux": k.aux, "c": k.c, "i": k.i, "violated": true, "ref_valid": false, "prove": prove, "verify": verdict}));
        }
        if !sc.lde_cheats.is_empty() {
            let mut sc2 = sc.clone();
            sc2.comp_cheat = true;
            let (prove, verdict) = match prove_with::<B, H, DefaultRandomCoin<H>>(&sc2, b.cols.clone(), Some(b.inputs.clone())) {
                Ok(p) => ("ok".to_string(), res_json(&verify_with::<B, H, DefaultRandomCoin<H>>(p, b.inputs.clone()))),
                Err(e) => (e, json!("n/a")),
            };
            cells.push(json!({"lde": true, "comp": true, "aux": false, "c": 0, "i": 0, "violated": true, "ref_valid": false, "prove": prove, "verify": verdict}));
        }
        out["cells"] = json!(cells);
        // ---- perturbed statements on an honest proof ---------------------------------------------------------
        let proof = match prove_with::<B, H, DefaultRandomCoin<H>>(sc, b.cols.clone(), None) {
            Ok(p) => p,
            Err(e) => {
                out["honest_prove"] = json!(e);
                return out;
            },
        };
        let bytes = proof.to_bytes();
        let fresh = || Proof::from_bytes(&bytes).unwrap();
        out["honest_verify"] = res_json(&verify_with::<B, H, DefaultRandomCoin<H>>(fresh(), b.inputs.clone()));
        let mut perts = vec![];
        let mut add = |name: String, r: Result<(), String>| perts.push(json!({"what": name, "verify": res_json(&r)}));
        // every public input value
        for (ai, vals) in b.inputs.values.iter().enumerate() {
            for vi in [0usize, vals.len() - 1] {
                let mut inp = b.inputs.clone();
                inp.values[ai][vi] += B::ONE;
                add(format!("assertion {ai} value {vi} + 1"), verify_with::<B, H, DefaultRandomCoin<H>>(fresh(), inp));
                if vals.len() == 1 {
                    break;
                }
            }
        }
        for (ai, vals) in b.inputs.aux_values.iter().enumerate() {
            if sc.shape.aux_degs[sc.shape.aux_asserts[ai].col] != 1 {
                continue; // the value of a product column's assertion is the constant 1, not a public input
            }
            let mut inp = b.inputs.clone();
            let vi = vals.len() - 1;
            inp.aux_values[ai][vi] += B::ONE;
            add(format!("auxiliary assertion {ai} value {vi} + 1"), verify_with::<B, H, DefaultRandomCoin<H>>(fresh(), inp));
        }
        // the statement's shape parameters that keep the description well-formed
        {
            let mut inp = b.inputs.clone();
            inp.shape.exempt = if sc.shape.exempt > 1 { sc.shape.exempt - 1 } else { 2 };
            add(format!("exemptions {} -> {}", sc.shape.exempt, inp.shape.exempt), verify_with::<B, H, DefaultRandomCoin<H>>(fresh(), inp));
        }
        // proof parameters and trace shape bound into the proof context
        let o = &sc.opts;
        let variants: Vec<(String, ProofOptions)> = vec![
            ("queries".into(), ProofOptions::new(if o.q > 1 { o.q - 1 } else { 2 }, o.blowup, o.grind, ext_of(sc.ext), o.fold, o.rem)),
            ("grinding".into(), ProofOptions::new(o.q, o.blowup, if o.grind > 0 { o.grind - 1 } else { 1 }, ext_of(sc.ext), o.fold, o.rem)),
            ("folding".into(), ProofOptions::new(o.q, o.blowup, o.grind, ext_of(sc.ext), if o.fold == 2 { 4 } else { 2 }, o.rem)),
            ("remainder".into(), ProofOptions::new(o.q, o.blowup, o.grind, ext_of(sc.ext), o.fold, if o.rem == 0 { 1 } else { (o.rem + 1) / 2 - 1 })),
            ("blowup".into(), ProofOptions::new(o.q, if o.blowup == 128 { 64 } else { o.blowup * 2 }, o.grind, ext_of(sc.ext), o.fold, o.rem)),
            ("extension".into(), ProofOptions::new(o.q, o.blowup, o.grind, ext_of(if sc.ext == 1 { 2 } else { 1 }), o.fold, o.rem)),
        ];
        for (name, opts) in variants {
            let mut p = fresh();
            let ti = p.context.trace_info().clone();
            let r = guarded(|| Context::new::<B>(ti, opts));
            match r {
                Ok(ctx) => {
                    p.context = ctx;
                    add(format!("option {name}"), verify_with::<B, H, DefaultRandomCoin<H>>(p, b.inputs.clone()));
                },
                Err(_) => {},
            }
        }
        for (name, ti) in [
            ("trace length x2", guarded(|| TraceInfo::new_multi_segment(sc.shape.width, sc.shape.aux_width(), sc.shape.aux_rands, sc.shape.n * 2, sc.shape.meta.clone()))),
            ("trace meta", guarded(|| TraceInfo::new_multi_segment(sc.shape.width, sc.shape.aux_width(), sc.shape.aux_rands, sc.shape.n, [sc.shape.meta.clone(), vec![1]].concat()))),
        ] {
            if let Ok(ti) = ti {
                let mut p = fresh();
                if let Ok(ctx) = guarded(|| Context::new::<B>(ti, options_of(sc))) {
                    p.context = ctx;
                    add(format!("{name}"), verify_with::<B, H, DefaultRandomCoin<H>>(p, b.inputs.clone()));
                }
            }
        }
        out["perturbations"] = json!(perts);
        out
    }
}

// ---------------------------------------------------------------------------------------------------------
// C04: transcript of prover and verifier through the recording coin
// ---------------------------------------------------------------------------------------------------------
fn expected_messages<B: SField, E: winter_math::FieldElement<BaseField = B>, H: ElementHasher<BaseField = B>>(
    proof: &Proof,
    inputs: &ShapeInputs<B>,
    ccols: usize,
    layers: usize,
) -> Result<Vec<Vec<u8>>, String> {
    use winter_crypto::Digest;
    use winter_math::ToElements;
    use winter_utils::Serializable;
    let mut msgs: Vec<Vec<u8>> = vec![];
    let mut seed: Vec<B> = ToElements::<B>::to_elements(&proof.context);
    seed.append(&mut inputs.to_elements());
    let mut sb = Vec::new();
    for e in &seed {
        e.write_into(&mut sb);
    }
    msgs.push(sb);
    let segments = 1 + (inputs.shape.aux_width() > 0) as usize;
    let (troots, croot, froots) = proof.commitments.clone().parse::<H>(segments, layers).map_err(|e| format!("commitments: {e}"))?;
    for r in troots {
        msgs.push(r.as_bytes().to_vec());
    }
    msgs.push(croot.as_bytes().to_vec());
    let (frame, evals) = proof.ood_frame.clone().parse::<E>(inputs.shape.width, inputs.shape.aux_width(), ccols).map_err(|e| format!("ood frame: {e}"))?;
    // the digest of the out-of-domain trace frame, from its definition (not through TraceOodFrame::hash): the values of
    // every main and auxiliary column at z and z*g interleaved, then the Lagrange kernel frame
    let mut states: Vec<E> = vec![];
    for (c, n) in frame.current_row().iter().zip(frame.next_row().iter()) {
        states.push(*c);
        states.push(*n);
    }
    if frame.current_row().len() != inputs.shape.width + inputs.shape.aux_degs.len() {
        return Err(format!("ood frame: {} columns", frame.current_row().len()));
    }
    match (frame.lagrange_kernel_frame(), inputs.shape.lagrange) {
        (Some(l), true) => states.extend(l.inner().iter().cloned()),
        (None, false) => {},
        _ => return Err("ood frame: Lagrange kernel frame presence".into()),
    }
    msgs.push(H::hash_elements(&states).as_bytes().to_vec());
    msgs.push(H::hash_elements(&evals).as_bytes().to_vec());
    for r in froots {
        msgs.push(r.as_bytes().to_vec());
    }
    Ok(msgs)
}

/// C04, "the coin has absorbed the proof context": the seed elements of contexts that differ in at least one parameter must
/// differ (the layout itself is not prescribed by the property; Trace_Stark compares it with the documented one as a note).
/// The contexts: the proof's own, and families around it in which one group of parameters takes several values at once
/// (parameters that share a seed element must not alias): segment widths x auxiliary random elements, trace length,
/// metadata edits, extension x folding factor x remainder degree, queries x blowup x grinding, the field modulus.
fn seed_binding<B: SField>(sc: &Scenario) -> Vec<Value> {
    use std::collections::BTreeMap;
    use winter_air::{proof::Context, TraceInfo};
    use winter_math::{StarkField, ToElements};
    use winter_utils::Serializable;
    let sh = &sc.shape;
    let o = &sc.opts;
    // (main width, aux width, aux rands, length, metadata, queries, blowup, grinding, extension, folding, remainder, field)
    type P = (usize, usize, usize, usize, Vec<u8>, usize, usize, u32, u32, usize, usize, u8);
    let base: P = (sh.width, sh.aux_width(), sh.aux_rands, sh.n, sh.meta.clone(), o.q, o.blowup, o.grind, sc.ext, o.fold, o.rem, 0);
    let mut ps: Vec<P> = vec![base.clone()];
    for w in [1usize, 2, base.0, base.0 + 1] {
        for aw in [0usize, 1, 2, base.1] {
            for ar in [0usize, 1, 2, base.2, 255] {
                if w + aw <= 255 && (aw > 0 || ar == 0) {
                    let mut p = base.clone();
                    (p.0, p.1, p.2) = (w, aw, ar);
                    ps.push(p);
                }
            }
        }
    }
    for n in [base.3 * 2, base.3 / 2, base.3 * 256] {
        if n >= 8 {
            let mut p = base.clone();
            p.3 = n;
            ps.push(p);
        }
    }
    let mut metas: Vec<Vec<u8>> = vec![];
    if !base.4.is_empty() {
        let mut m = base.4.clone();
        let k = m.len() - 1;
        m[k] ^= 0x55;
        metas.push(m);
        let mut m = base.4.clone();
        m[0] ^= 1;
        metas.push(m);
    }
    if base.4.len() < 65535 {
        let mut m = base.4.clone();
        m.push(7);
        metas.push(m);
    }
    for m in metas {
        let mut p = base.clone();
        p.4 = m;
        ps.push(p);
    }
    for e in [1u32, 2, 3] {
        for f in [2usize, 4, 8, 16] {
            for r in [0usize, 1, 3, 7, 15, 31, 63, 127, 255] {
                let mut p = base.clone();
                (p.8, p.9, p.10) = (e, f, r);
                ps.push(p);
            }
        }
    }
    for q in [base.5, if base.5 < 255 { base.5 + 1 } else { 254 }, 1, 255] {
        for b in [2usize, 4, 8, 16, 128] {
            for g in [0u32, 1, 2, 4, 8, 16, 32, base.7] {
                let mut p = base.clone();
                (p.5, p.6, p.7) = (q, b, g);
                ps.push(p);
            }
        }
    }
    if B::ELEMENT_BYTES == 8 {
        let mut p = base.clone();
        p.11 = 1;
        ps.push(p);
    }
    ps.sort();
    ps.dedup();
    let is62 = B::get_modulus_le_bytes() == f62::BaseElement::get_modulus_le_bytes();
    let seed_of = |p: &P| -> Vec<u8> {
        let ti = TraceInfo::new_multi_segment(p.0, p.1, p.2, p.3, p.4.clone());
        let op = ProofOptions::new(p.5, p.6, p.7, ext_of(p.8), p.9, p.10);
        // field 1 = the other 8-byte field
        let ctx = match (p.11, is62) {
            (0, _) => Context::new::<B>(ti, op),
            (_, true) => Context::new::<f64::BaseElement>(ti, op),
            (_, false) => Context::new::<f62::BaseElement>(ti, op),
        };
        let e: Vec<B> = ToElements::<B>::to_elements(&ctx);
        let mut v = Vec::new();
        for x in e {
            x.write_into(&mut v);
        }
        v
    };
    let mut seen: BTreeMap<Vec<u8>, P> = BTreeMap::new();
    let mut out = vec![];
    let mut n = 0usize;
    for p in ps.iter() {
        if let Ok(sd) = guarded(|| seed_of(p)) {
            n += 1;
            if let Some(q) = seen.get(&sd) {
                if out.len() < 4 {
                    out.push(json!({"param": format!("{:?} and {:?} (main width, aux width, aux rands, length, metadata, queries, blowup, grinding, extension, folding, remainder, field)", q, p), "differs": false}));
                }
            } else {
                seen.insert(sd, p.clone());
            }
        }
    }
    out.push(json!({"param": format!("{} contexts", n), "differs": n >= 100}));
    out
}


/// C04, "challenges depend on all earlier prover messages", measured on the real coin: for every absorption in a recorded
/// transcript the history up to it is replayed on a fresh DefaultRandomCoin, a different digest is absorbed in its place, and the
/// draws that follow (up to the next absorption) are repeated: a draw that returns the recorded value although the absorbed
/// message differs does not depend on that message.  Returns, per event of the log, whether the value changed (true for events
/// that are not draws; query positions are compared when they carry at least 40 bits).
fn dependency<B: SField, H: ElementHasher<BaseField = B>>(log: &[crate::rec::CCall]) -> Vec<bool> {
    use winter_math::fields::{CubeExtension, QuadExtension};
    use winter_utils::{ByteReader, Deserializable, Serializable, SliceReader};
    let mut dep = vec![true; log.len()];
    let apply = |coin: &mut DefaultRandomCoin<H>, c: &crate::rec::CCall| -> Option<Vec<u8>> {
        match c.op {
            "reseed" => {
                coin.reseed(H::Digest::read_from_bytes(&c.data).ok()?);
                None
            },
            "draw" => match c.args.first().copied().unwrap_or(1) {
                1 => coin.draw::<B>().ok().map(|e| e.to_bytes()),
                2 => coin.draw::<QuadExtension<B>>().ok().map(|e| e.to_bytes()),
                _ => coin.draw::<CubeExtension<B>>().ok().map(|e| e.to_bytes()),
            },
            "ints" => {
                let nonce = u64::from_le_bytes(c.data[..8].try_into().ok()?);
                coin.draw_integers(c.args[0] as usize, c.args[1] as usize, nonce).ok().map(|v| v.iter().flat_map(|x| (*x as u64).to_le_bytes()).collect())
            },
            _ => None,
        }
    };
    for k in 0..log.len() {
        if log[k].op != "reseed" {
            continue;
        }
        let seed: Vec<B> = match log.first() {
            Some(c) if c.op == "new" => match SliceReader::new(&c.data).read_many(c.args[0] as usize) {
                Ok(v) => v,
                Err(_) => return dep,
            },
            _ => return dep,
        };
        let mut coin = DefaultRandomCoin::<H>::new(&seed);
        for c in &log[1..k] {
            apply(&mut coin, c);
        }
        coin.reseed(H::hash(&log[k].data));
        for j in k + 1..log.len() {
            let c = &log[j];
            match c.op {
                "reseed" => break,
                "draw" => {
                    if let Some(v) = apply(&mut coin, c) {
                        dep[j] = v != c.data;
                    }
                },
                "ints" => {
                    let bits = (c.args[0] as f64) * (c.args[1] as f64).log2();
                    if let Some(v) = apply(&mut coin, c) {
                        let rec: Vec<u8> = c.ints.iter().flat_map(|x| x.to_le_bytes()).collect();
                        if bits >= 40.0 {
                            dep[j] = v != rec;
                        }
                    }
                    break;
                },
                _ => {},
            }
        }
    }
    dep
}

pub struct Transcript {
    pub out: Vec<String>,
}
impl Job for Transcript {
    fn run<B: SField, H: ElementHasher<BaseField = B> + Sync + Send>(&mut self, sc: &Scenario) -> Value {
        use crate::rec::{clog_take, RecCoin};
        use winter_math::fields::{CubeExtension, QuadExtension};
        let b = build::<B>(sc);
        clog_take();
        let proof = match prove_with::<B, H, RecCoin<H>>(sc, b.cols.clone(), None) {
            Ok(p) => p,
            Err(e) => return json!({"id": sc.id, "prove": e}),
        };
        let plog = clog_take();
        let bytes = proof.to_bytes();
        let v = verify_with::<B, H, RecCoin<H>>(Proof::from_bytes(&bytes).unwrap(), b.inputs.clone());
        let vlog = clog_take();
        let st = sc.stmt.clone().unwrap_or(json!({}));
        let ccols = sc.ccols;
        let layers = sc.layers;
        let exp = match sc.ext {
            1 => expected_messages::<B, B, H>(&proof, &b.inputs, ccols, layers),
            2 => expected_messages::<B, QuadExtension<B>, H>(&proof, &b.inputs, ccols, layers),
            _ => expected_messages::<B, CubeExtension<B>, H>(&proof, &b.inputs, ccols, layers),
        };
        let exp = match exp {
            Ok(e) => e,
            Err(e) => return json!({"id": sc.id, "prove": "ok", "verify": res_json(&v), "expected": e}),
        };
        // the public inputs as they enter the seed, and the trace metadata carried in the proof (the rest of the seed is
        // recomputed by Trace_Stark.tla from the statement, not through the library's to_elements)
        let pub_bytes: Vec<u8> = {
            use winter_math::ToElements;
            use winter_utils::Serializable;
            let mut v = Vec::new();
            for e in b.inputs.to_elements() {
                e.write_into(&mut v);
            }
            v
        };
        self.out.push(json!({"ev": "begin", "id": sc.id, "t": st, "expected": exp, "nonce": proof.pow_nonce.to_le_bytes().to_vec(),
            "lde": proof.context.lde_domain_size(), "unique": proof.num_unique_queries,
            "meta": proof.context.trace_info().meta().to_vec(), "pub": pub_bytes, "binding": seed_binding::<B>(sc)}).to_string());
        for (role, log) in [("P", &plog), ("V", &vlog)] {
            let mut nclz = 0usize;
            let dep = dependency::<B, H>(log);
            for (i, c) in log.iter().enumerate() {
                // the prover's nonce search: keep only the last (successful) proof-of-work evaluation
                if c.op == "clz" && role == "P" {
                    nclz += 1;
                    let last = log.get(i + 1).map(|n| n.op != "clz").unwrap_or(true);
                    if !last {
                        continue;
                    }
                    let mut j = c.to_json();
                    j["ev"] = json!("coin");
                    j["role"] = json!(role);
                    j["dep"] = json!(true);
                    j["tries"] = json!(nclz);
                    self.out.push(j.to_string());
                    continue;
                }
                let mut j = c.to_json();
                j["ev"] = json!("coin");
                j["role"] = json!(role);
                j["dep"] = json!(dep[i]);
                self.out.push(j.to_string());
            }
        }
        self.out.push(json!({"ev": "end", "id": sc.id, "verdict": res_json(&v)}).to_string());
        json!({"id": sc.id, "prove": "ok", "verify": res_json(&v), "pevents": plog.len(), "vevents": vlog.len()})
    }
}

// ---------------------------------------------------------------------------------------------------------
// C03 / C06: mutated proofs
// ---------------------------------------------------------------------------------------------------------
/// outcome of parsing + verifying a byte string: "parse-error" | "rejected" | "accepted-same" | "accepted-different" |
/// "panic@..." (where: parse | verify)
pub fn judge_bytes<B: SField, H: ElementHasher<BaseField = B> + Sync + Send>(
    bytes: &[u8],
    original: &[u8],
    partitions_off: usize,
    inputs: &ShapeInputs<B>,
) -> String {
    let parsed = guarded(|| Proof::from_bytes(bytes));
    let p = match parsed {
        Ok(Ok(p)) => p,
        Ok(Err(_)) => return "parse-error".into(),
        Err(p) => return format!("panic@parse/{}", panic_key(&p)),
    };
    // decoded content, normalised for the two exemptions of C03: partition count byte masked, digests re-encoded
    let reenc = guarded(|| p.to_bytes());
    let v = verify_with::<B, H, DefaultRandomCoin<H>>(p, inputs.clone());
    match v {
        Ok(()) => {
            let same = match reenc {
                Ok(mut r) => {
                    let mut o = original.to_vec();
                    if r.len() == o.len() && partitions_off < r.len() {
                        r[partitions_off] = 0;
                        o[partitions_off] = 0;
                    }
                    r == o
                },
                Err(_) => false,
            };
            if same { "accepted-same".into() } else { "accepted-different".into() }
        },
        Err(e) if e.starts_with("panic@") => format!("panic@verify/{}", &e[6..]),
        Err(e) => {
            LAST_CLASS.with(|c| *c.borrow_mut() = error_class(&e));
            "rejected".into()
        },
    }
}

thread_local! {
    /// error class of the last "rejected" outcome of judge_bytes
    static LAST_CLASS: std::cell::RefCell<String> = std::cell::RefCell::new(String::new());
}

/// remainder + c * prod (x - x_s) over the queried points of the remainder domain, if its degree fits
fn adaptive_remainder<B: SField, E: winter_math::FieldElement<BaseField = B>>(sc: &Scenario, positions: &[usize], rem_bytes: &[u8]) -> Option<Vec<u8>> {
    use winter_math::polynom;
    use winter_utils::{ByteReader, Deserializable, Serializable, SliceReader};
    let n_rem = rem_bytes.len() / E::ELEMENT_BYTES;
    let rem: Vec<E> = SliceReader::new(rem_bytes).read_many(n_rem).ok()?;
    let mut dom = sc.shape.n * sc.opts.blowup;
    let mut pos = positions.to_vec();
    let fo = winter_fri::FriOptions::new(sc.opts.blowup, sc.opts.fold, sc.opts.rem);
    for _ in 0..fo.num_fri_layers(dom) {
        pos = winter_fri::folding::fold_positions(&pos, dom, sc.opts.fold);
        dom /= sc.opts.fold;
    }
    if pos.len() + 1 > n_rem {
        return None;
    }
    let g = B::get_root_of_unity(dom.ilog2());
    let xs: Vec<E> = pos.iter().map(|&p| E::from(B::GENERATOR * g.exp((p as u64).into()))).collect();
    let mut z = polynom::poly_from_roots(&xs);
    z.resize(n_rem, E::ZERO);
    let out: Vec<E> = rem.iter().zip(z.iter()).map(|(a, b)| *a + *b).collect();
    let mut bytes = Vec::new();
    for e in &out {
        e.write_into(&mut bytes);
    }
    let _ = E::read_from_bytes(&bytes[..E::ELEMENT_BYTES]);
    Some(bytes)
}


/// The out-of-domain evaluations H_j(z) plus a vector e with  sum_j z^(j n) e_j = 0  and  sum_j dc_j e_j = 0  (dc = the DEEP
/// coefficients of the composition columns): the reduced value H(z) and the DEEP composition at every queried position are
/// unchanged, so the substitution can only be noticed because the evaluations were absorbed into the transcript before the DEEP
/// coefficients were drawn.  Needs the challenges of the honest transcript (z and dc, read from the recording coin: z is the first
/// draw after the constraint commitment, the DEEP coefficients are the last draws before the first FRI commitment / the query
/// phase) and at least three composition columns.
fn adaptive_ood<B: SField, E: winter_math::FieldElement<BaseField = B>>(
    log: &[crate::rec::CCall],
    croot: &[u8],
    n: usize,
    width_total: usize,
    lagrange: bool,
    evals_bytes: &[u8],
) -> Option<Vec<u8>> {
    use winter_utils::{ByteReader, Serializable, SliceReader};
    let ccols = evals_bytes.len() / E::ELEMENT_BYTES;
    if ccols < 3 {
        return None;
    }
    let hz: Vec<E> = SliceReader::new(evals_bytes).read_many(ccols).ok()?;
    let i = log.iter().position(|c| c.op == "reseed" && c.data == croot)?;
    let el = |c: &crate::rec::CCall| -> Option<E> { SliceReader::new(&c.data).read_many::<E>(1).ok().map(|v| v[0]) };
    let z = el(log.get(i + 1).filter(|c| c.op == "draw")?)?;
    // the block of draws that contains the DEEP coefficients: the draws after the last absorption that follows z and precedes
    // the next commitment; it has width + ccols (+ 1) draws
    let need = width_total + ccols + lagrange as usize;
    let mut j = i + 2;
    let mut block: Vec<E> = vec![];
    while j < log.len() {
        match log[j].op {
            "draw" => block.push(el(&log[j])?),
            "reseed" if block.len() >= need => break,
            "reseed" => block.clear(),
            _ => break,
        }
        j += 1;
    }
    if block.len() < need {
        return None;
    }
    let dc = &block[width_total..width_total + ccols];
    let a: Vec<E> = (0..3).map(|k| z.exp(((k * n) as u64).into())).collect();
    let e = [a[1] * dc[2] - a[2] * dc[1], a[2] * dc[0] - a[0] * dc[2], a[0] * dc[1] - a[1] * dc[0]];
    if e.iter().all(|x| *x == E::ZERO) {
        return None;
    }
    let mut bytes = Vec::new();
    for (k, h) in hz.iter().enumerate() {
        (if k < 3 { *h + e[k] } else { *h }).write_into(&mut bytes);
    }
    Some(bytes)
}

fn rd_scalar(b: &[u8], off: usize, w: usize) -> u64 {
    (0..w.min(8)).fold(0u64, |v, i| v | ((b[off + i] as u64) << (8 * i)))
}

pub struct Mutate {
    pub grammar: Vec<crate::wire::Field>,
    pub mutations: Vec<crate::wire::Mutation>,
    pub bitflips: bool,
    pub byte_edits: usize,
    pub truncations: bool,
}
impl Job for Mutate {
    fn run<B: SField, H: ElementHasher<BaseField = B> + Sync + Send>(&mut self, sc: &Scenario) -> Value {
        use crate::common::Rng;
        use crate::wire::{apply, spans};
        use std::collections::BTreeMap;
        let b = build::<B>(sc);
        let proof = match prove_with::<B, H, DefaultRandomCoin<H>>(sc, b.cols.clone(), None) {
            Ok(p) => p,
            Err(e) => return json!({"id": sc.id, "prove": e}),
        };
        let bytes = proof.to_bytes();
        let sp = match spans(&bytes, &self.grammar) {
            Some(s) => s,
            None => return json!({"id": sc.id, "prove": "ok", "grammar": "the serialized proof does not follow the grammar of Wire.tla"}),
        };
        let poff = sp.iter().find(|s| s.name == "fri.partitions").map(|s| s.off).unwrap_or(usize::MAX);
        let honest = judge_bytes::<B, H>(&bytes, &bytes, poff, &b.inputs);
        let ext_bytes = B::ELEMENT_BYTES * sc.ext as usize;
        let digest_len = {
            use winter_utils::Serializable;
            H::hash(&[]).to_bytes().len()
        };
        let mut tally: BTreeMap<String, usize> = BTreeMap::new();
        let mut findings: Vec<Value> = vec![];
        let mut record = |what: String, outcome: String, tally: &mut BTreeMap<String, usize>, findings: &mut Vec<Value>, may_keep: bool| {
            *tally.entry(outcome.split('/').next().unwrap_or("").split('@').next().unwrap_or("").to_string()).or_default() += 1;
            let bad = outcome.starts_with("panic@") || outcome == "accepted-different" || (outcome == "accepted-same" && !may_keep && !what.starts_with("bit") && !what.starts_with("byte"));
            if bad && findings.len() < 400 {
                findings.push(json!({"mutation": what, "outcome": outcome}));
            }
        };
        // structured mutations of Wire.tla
        let mut applied = 0usize;
        let mut structured: Vec<Value> = vec![];
        for mu in &self.mutations {
            let chunk = if mu.field == "commitments" || mu.field.ends_with(".paths") { digest_len } else { ext_bytes };
            if let Some(mb) = apply(&bytes, &sp, mu, chunk) {
                applied += 1;
                let o = judge_bytes::<B, H>(&mb, &bytes, poff, &b.inputs);
                if o == "rejected" {
                    structured.push(json!({"field": mu.field, "m": mu.m, "class": LAST_CLASS.with(|c| c.borrow().clone())}));
                } else if o == "parse-error" {
                    structured.push(json!({"field": mu.field, "m": mu.m, "class": "parse-error"}));
                }
                record(format!("{}:{}", mu.field, mu.m), o, &mut tally, &mut findings, mu.may_keep_content);
            }
        }
        // every single-bit flip
        let mut flips = 0usize;
        if self.bitflips {
            for i in 0..bytes.len() {
                for bit in 0..8 {
                    let mut mb = bytes.clone();
                    mb[i] ^= 1 << bit;
                    let o = judge_bytes::<B, H>(&mb, &bytes, poff, &b.inputs);
                    let field = sp.iter().rev().find(|s| s.off <= i).map(|s| s.name.clone()).unwrap_or_default();
                    record(format!("bit {}.{} in {}", i, bit, field), o, &mut tally, &mut findings, i == poff);
                    flips += 1;
                }
            }
        }
        // random single-byte edits, truncations at every offset, trailing garbage
        let mut rng = Rng(sc.seed ^ 0xb17e);
        for _ in 0..self.byte_edits {
            let i = rng.below(bytes.len() as u64) as usize;
            let mut mb = bytes.clone();
            let nv = rng.next() as u8;
            if nv == mb[i] {
                continue;
            }
            mb[i] = nv;
            let o = judge_bytes::<B, H>(&mb, &bytes, poff, &b.inputs);
            let field = sp.iter().rev().find(|s| s.off <= i).map(|s| s.name.clone()).unwrap_or_default();
            record(format!("byte {} := {} in {}", i, nv, field), o, &mut tally, &mut findings, i == poff);
        }
        let mut truncs = 0usize;
        if self.truncations {
            for cut in 0..bytes.len() {
                let o = judge_bytes::<B, H>(&bytes[..cut], &bytes, poff, &b.inputs);
                record(format!("truncate at {}", cut), o, &mut tally, &mut findings, false);
                truncs += 1;
            }
            let mut mb = bytes.clone();
            mb.extend([0xde, 0xad, 0xbe, 0xef]);
            let o = judge_bytes::<B, H>(&mb, &bytes, poff, &b.inputs);
            // bytes after the end of the proof do not change the decoded proof
            record("trailing garbage".into(), o, &mut tally, &mut findings, true);
        }
        // consistency-preserving substitution that needs the query positions: the FRI remainder plus a multiple of the
        // vanishing polynomial of the queried points of the last layer
        let mut adaptive_ood_done = false;
        let adaptive = {
            use crate::rec::{clog_take, RecCoin};
            use winter_math::fields::{CubeExtension, QuadExtension};
            clog_take();
            let _ = verify_with::<B, H, RecCoin<H>>(Proof::from_bytes(&bytes).unwrap(), b.inputs.clone());
            let log = clog_take();
            let positions: Vec<usize> = log.iter().find(|c| c.op == "ints").map(|c| {
                let mut p: Vec<usize> = c.ints.iter().map(|x| *x as usize).collect();
                p.sort_unstable();
                p.dedup();
                p
            }).unwrap_or_default();
            let rs = sp.iter().find(|s| s.name == "fri.remainder").unwrap();
            let rem_bytes = &bytes[rs.off + rs.width..rs.off + rs.width + rs.len];
            let new_rem = match sc.ext {
                1 => adaptive_remainder::<B, B>(sc, &positions, rem_bytes),
                2 => adaptive_remainder::<B, QuadExtension<B>>(sc, &positions, rem_bytes),
                _ => adaptive_remainder::<B, CubeExtension<B>>(sc, &positions, rem_bytes),
            };
            // the out-of-domain evaluations moved inside the kernel of (reduction at z, DEEP coefficients)
            if let Some(es) = sp.iter().find(|s| s.name == "ood.evaluations") {
                use winter_crypto::Digest;
                let lde = sc.shape.n * sc.opts.blowup;
                let layers = winter_fri::FriOptions::new(sc.opts.blowup, sc.opts.fold, sc.opts.rem).num_fri_layers(lde);
                let segments = 1 + (sc.shape.aux_width() > 0) as usize;
                if let Ok((_t, croot, _f)) = proof.commitments.clone().parse::<H>(segments, layers) {
                    let eb = &bytes[es.off + es.width..es.off + es.width + es.len];
                    let wt = sc.shape.width + sc.shape.aux_width();
                    let cr = croot.as_bytes().to_vec();
                    let ne = match sc.ext {
                        1 => adaptive_ood::<B, B>(&log, &cr, sc.shape.n, wt, sc.shape.lagrange, eb),
                        2 => adaptive_ood::<B, QuadExtension<B>>(&log, &cr, sc.shape.n, wt, sc.shape.lagrange, eb),
                        _ => adaptive_ood::<B, CubeExtension<B>>(&log, &cr, sc.shape.n, wt, sc.shape.lagrange, eb),
                    };
                    if let Some(ne) = ne {
                        let mut mb = bytes.clone();
                        mb[es.off + es.width..es.off + es.width + es.len].copy_from_slice(&ne);
                        let o = judge_bytes::<B, H>(&mb, &bytes, poff, &b.inputs);
                        record("adaptive: ood.evaluations + a vector in the kernel of the reduction at z and of the DEEP coefficients".into(), o, &mut tally, &mut findings, false);
                        adaptive_ood_done = true;
                    }
                }
            }
            match new_rem {
                Some(nr) => {
                    let mut mb = bytes.clone();
                    mb[rs.off + rs.width..rs.off + rs.width + rs.len].copy_from_slice(&nr);
                    let o = judge_bytes::<B, H>(&mb, &bytes, poff, &b.inputs);
                    record("adaptive: fri.remainder + multiple of the vanishing polynomial of the queried points".into(), o.clone(), &mut tally, &mut findings, false);
                    o
                },
                None => "n/a (more queried points than remainder coefficients)".to_string(),
            }
        };
        // a different proof-of-work nonce that passes the grinding condition and draws the same query positions: searched
        // deterministically for proofs with one or two queries over a small domain and no grinding
        let mut colliding_nonce = "n/a".to_string();
        if sc.opts.grind == 0 && sc.opts.q <= 2 && sc.shape.n * sc.opts.blowup <= 256 {
            let ns = sp.iter().find(|s| s.name == "pow_nonce").unwrap();
            let orig = u64::from_le_bytes(bytes[ns.off..ns.off + 8].try_into().unwrap());
            colliding_nonce = "none found".to_string();
            for cand in 1u64..40000 {
                if cand == orig {
                    continue;
                }
                let mut mb = bytes.clone();
                mb[ns.off..ns.off + 8].copy_from_slice(&cand.to_le_bytes());
                let o = judge_bytes::<B, H>(&mb, &bytes, poff, &b.inputs);
                if o.starts_with("accepted") {
                    record(format!("pow_nonce:colliding-nonce {cand} instead of {orig}"), o.clone(), &mut tally, &mut findings, false);
                    colliding_nonce = format!("{cand}: {o}");
                    break;
                }
            }
        }
        let span_map: serde_json::Map<String, Value> =
            sp.iter().map(|x| (x.name.clone(), json!(if x.kind == "scalar" { rd_scalar(&bytes, x.off, x.width) } else { x.len as u64 }))).collect();
        let digest_bytes = {
            use winter_utils::Serializable;
            H::hash(&[]).to_bytes().len()
        };
        json!({"id": sc.id, "prove": "ok", "honest": honest, "bytes": bytes.len(), "structured": applied, "structured_classes": structured, "grind": sc.opts.grind, "bitflips": flips, "adaptive": adaptive, "adaptive_ood": adaptive_ood_done, "colliding_nonce": colliding_nonce,
               "truncations": truncs, "tally": tally, "findings": findings,
               "spans": span_map, "elem_bytes": B::ELEMENT_BYTES, "digest_bytes": digest_bytes})
    }
}

/// C06: a proof that is honest up to the query phase but asks for at least as many queries as the LDE domain has points
/// (produced with ClampCoin), verified with the honest coin
pub struct Overquery;
impl Job for Overquery {
    fn run<B: SField, H: ElementHasher<BaseField = B> + Sync + Send>(&mut self, sc: &Scenario) -> Value {
        let b = build::<B>(sc);
        let proof = match prove_with::<B, H, crate::rec::ClampCoin<H>>(sc, b.cols.clone(), None) {
            Ok(p) => p,
            Err(e) => return json!({"id": sc.id, "prove": e}),
        };
        let bytes = proof.to_bytes();
        let o = judge_bytes::<B, H>(&bytes, &bytes, usize::MAX, &b.inputs);
        json!({"id": sc.id, "prove": "ok", "outcome": o, "class": LAST_CLASS.with(|c| c.borrow().clone())})
    }
}

/// C18: the field gate of verify(). The modulus claimed by an honest proof is replaced by each claim of MC_FieldGate.tla and the
/// proof is verified under a minimum-security policy of 0 bits and of (true level + 1) bits; reports the verdict classes.
pub struct FieldGate {
    pub claims: Vec<Vec<u8>>,
}
impl Job for FieldGate {
    fn run<B: SField, H: ElementHasher<BaseField = B> + Sync + Send>(&mut self, sc: &Scenario) -> Value {
        let b = build::<B>(sc);
        let proof = match prove_with::<B, H, DefaultRandomCoin<H>>(sc, b.cols.clone(), None) {
            Ok(p) => p,
            Err(e) => return json!({"id": sc.id, "prove": e}),
        };
        let level = proof.security_level::<H>(true);
        let bytes = proof.to_bytes();
        // header: four scalars, metadata (u16 length), then the modulus (u8 length)
        let meta_len = u16::from_le_bytes([bytes[4], bytes[5]]) as usize;
        let moff = 6 + meta_len;
        let mlen = bytes[moff] as usize;
        let judge = |mb: &[u8], min: u32| -> String {
            let parsed = guarded(|| Proof::from_bytes(mb));
            let p = match parsed {
                Ok(Ok(p)) => p,
                Ok(Err(_)) => return "parse-error".into(),
                Err(p) => return format!("panic@parse/{}", panic_key(&p)),
            };
            let inputs = b.inputs.clone();
            match guarded(|| verify::<ShapeAir<B>, H, DefaultRandomCoin<H>>(p, inputs, &AcceptableOptions::MinConjecturedSecurity(min))) {
                Ok(Ok(())) => "accepted".into(),
                Ok(Err(e)) => error_class(&format!("rejected: {e} <<{e:?}>>")),
                Err(p) => format!("panic@verify/{}", panic_key(&p)),
            }
        };
        let mut rows = vec![];
        for c in &self.claims {
            if c.len() > 255 {
                continue;
            }
            let mut mb = bytes[..moff].to_vec();
            mb.push(c.len() as u8);
            mb.extend_from_slice(c);
            mb.extend_from_slice(&bytes[moff + 1 + mlen..]);
            rows.push(json!({"claimed": c, "at0": judge(&mb, 0), "at_level": judge(&mb, level), "above": judge(&mb, level + 1)}));
        }
        json!({"id": sc.id, "prove": "ok", "level": level, "true_modulus": bytes[moff + 1..moff + 1 + mlen].to_vec(), "rows": rows})
    }
}

pub fn main(args: &[String]) -> i32 {
    use std::io::BufRead;
    let mode = args.get(0).map(|s| s.as_str()).unwrap_or("");
    let path = crate::common::arg_value(args, "--scenarios").expect("--scenarios");
    let f = std::io::BufReader::new(std::fs::File::open(path).expect("open"));
    let scs: Vec<Scenario> = f.lines().map(|l| l.unwrap()).filter(|l| !l.trim().is_empty()).map(|l| serde_json::from_str(&l).expect("scenario")).collect();
    let out = std::io::stdout();
    use std::io::Write;
    let mut out = out.lock();
    let mut tr = Transcript { out: vec![] };
    let mut mutate = Mutate { grammar: vec![], mutations: vec![], bitflips: false, byte_edits: 0, truncations: false };
    if mode == "mutate" {
        let mp = crate::common::arg_value(args, "--mutations").expect("--mutations");
        for l in std::fs::read_to_string(mp).unwrap().lines() {
            let v: Value = serde_json::from_str(l).unwrap();
            if let Some(g) = v.get("grammar") {
                mutate.grammar = serde_json::from_value(g.clone()).unwrap();
            } else {
                mutate.mutations.push(serde_json::from_value(v).unwrap());
            }
        }
        mutate.bitflips = args.iter().any(|a| a == "--bitflips");
        mutate.truncations = args.iter().any(|a| a == "--truncations");
        mutate.byte_edits = crate::common::arg_value(args, "--byte-edits").and_then(|s| s.parse().ok()).unwrap_or(0);
    }
    for sc in &scs {
        let v = match mode {
            "transcript" => dispatch(&mut tr, sc),
            "mutate" => dispatch(&mut mutate, sc),
            "complete" => dispatch(&mut Complete, sc),
            "sound" => dispatch(&mut Sound, sc),
            "overquery" => dispatch(&mut Overquery, sc),
            "fieldgate" => {
                let cp = crate::common::arg_value(args, "--claims").expect("--claims");
                let claims: Vec<Vec<u8>> = std::fs::read_to_string(cp).unwrap().lines().filter(|l| !l.trim().is_empty()).map(|l| serde_json::from_str(l).unwrap()).collect();
                dispatch(&mut FieldGate { claims }, sc)
            },
            m => {
                eprintln!("harness: unknown stark mode {m}");
                return 2;
            },
        };
        writeln!(out, "{}", v).unwrap();
    }
    if let Some(p) = crate::common::arg_value(args, "--trace") {
        std::fs::write(p, tr.out.join("\n") + "\n").unwrap();
    }
    0
}
