"""C01 — completeness.  (DESIGN.md section 6, C01)

R1  Gen_Stark: the protocol's integer parameters as a state machine (Stark.tla): a walk over admissible statements
    (one parameter changed per step, boundary values, BFS depth 2 = pairwise coverage); invariant: no guard that
    prover, serialization or verifier evaluates on these integers fails on the honest path (HonestPathOK).
R2  every generated statement becomes a scenario (concrete ShapeAir, valid trace by forward execution) replayed on the
    real prover and verifier: prove, verify, serialize, parse, verify again - expected to succeed at every step.
    Degenerate (constant) traces are replayed in the build without debug assertions."""
import json, os, time
import vlib, starkgen
from vlib import log

PID = "C01"


def gen(maxln, depth, fixed="1", timeout=3400, sound="0"):
    r = vlib.run_tlc("Gen_Stark", "Gen_Stark", workers=8, env={"ST_MAXLN": maxln, "ST_FIXED": fixed, "ST_DEPTH": depth, "ST_SOUND": sound},
                     timeout=timeout, xmx="8g", tag="Gen_Stark_%s_%s" % (maxln, depth))
    stmts = [p for p in r.printed if "t" in p]
    # VIEW collapses states, but Emit is evaluated per generated state: de-duplicate
    seen = {}
    for s in stmts:
        seen[json.dumps(s, sort_keys=True)] = s
    log("[tlc] Gen_Stark maxln=%s depth=%s: %d distinct states, %d statements, %.1fs%s" % (
        maxln, depth, r.distinct, len(seen), r.wall, "" if r.ok else " ** " + str(r.violation)))
    return r, [seen[k] for k in sorted(seen)]


def run_scenarios(exe, mode, scs, wd, name, timeout=3400):
    """runs `wfh stark <mode>` over the scenarios; large lists are split over parallel harness processes (results in order)"""
    shards = 1 if len(scs) <= 48 else 14
    parts = [scs[k::shards] for k in range(shards)]

    def one(k):
        if not parts[k]:
            return []
        path = os.path.join(wd, "%s_%d.ndjson" % (name, k))
        vlib.write_ndjson(path, parts[k])
        outp = os.path.join(wd, "%s_%d.out.ndjson" % (name, k))
        rc, _, err = vlib.run_harness(exe, ["stark", mode, "--scenarios", path], stdout_path=outp, timeout=timeout)
        if rc != 0:
            raise vlib.ToolError("stark %s harness rc=%s: %s" % (mode, rc, err[-800:]))
        res = vlib.read_ndjson(outp)
        if len(res) != len(parts[k]):
            raise vlib.ToolError("stark %s harness returned %d results for %d scenarios" % (mode, len(res), len(parts[k])))
        return res

    results = vlib.parallel(one, list(range(shards)), max_workers=shards)
    out = [None] * len(scs)
    for k in range(shards):
        for j, r in enumerate(results[k]):
            out[k + j * shards] = r
    return out


def judge_complete(v, sc, o, profile):
    stages = ["prove", "to_bytes", "verify", "parse", "verify2"]
    for st in stages:
        val = o.get(st)
        if val is None:
            continue
        if val not in ("ok",):
            kind = val.split(":")[0] if not val.startswith("panic@") else val
            v.violation("complete/%s/%s/%s" % (profile, st, kind),
                        "admissible statement with a valid trace: step '%s' fails with '%s' (field %s, hasher %s, n=%d, width=%d, options %s, exemptions %d)" % (
                            st, val, sc["field"], sc["hasher"], sc["shape"]["n"], sc["shape"]["width"], sc["opts"], sc["shape"]["exempt"]), sc)
            return False
    return True


def run(tier, seed):
    t0 = time.time()
    v = vlib.Verdict(PID)
    wd = vlib.workdir(PID)
    exe = vlib.build_harness("dbg")
    exe_rel = vlib.build_harness("rel")
    r, stmts = gen(5 if tier == "quick" else 8, 1 if tier == "quick" else 2)
    if not r.ok:
        v.violation("model/" + str(r.violation), "Stark.tla: an admissible statement fails a guard of the honest path (%s)" % r.violation,
                    {"tlc": r.out[-3000:]})
    # non-vacuity of R1: the transcription of the code before the fix: commit must be refuted
    rb, _ = gen(5, 1, fixed="0")
    if rb.violation != "HonestOK":
        raise vlib.ToolError("self-test: pre-fix variant of Stark.tla not refuted (%s)" % rb.violation)
    if tier == "quick":
        stmts = [s for s in stmts if s["t"]["width"] <= 64 or s["t"]["ln"] <= 4]
    # statements with a sequence assertion of 64 and more values (the prover's pre-computed representation) at zero and
    # non-zero first step, with an LDE blowup above the constraint-evaluation blowup: derived from generated statements by
    # raising the trace length (admissibility is unaffected: same options, longer trace, schedule stays well-formed)
    large = []
    for s in [x for x in stmts if not x["t"]["auxd"] and x["t"]["width"] >= 4 and x["t"]["ln"] >= 5 and x["t"]["lb"] >= 2 and max(x["t"]["degs"]) <= 3
              and x["t"]["fold"] <= 8 and x["t"]["rem"] <= 31][:4 if tier == "quick" else 16]:
        for ln, first in ((7, 1), (7, 0), (8, 3)) if tier == "thorough" else ((7, 1), (7, 0)):
            t = dict(s["t"], ln=ln, nasserts=5)
            n, w = 2 ** ln, t["width"]
            a = starkgen.assertions(n, w, 5)
            a[2] = dict(kind="periodic", col=0, first=1, stride=4, count=1)
            a[3] = dict(kind="sequence", col=1, first=first, stride=4 if first == 3 else 2, count=n // (4 if first == 3 else 2))
            a[4] = dict(kind="single", col=3, first=5, stride=0, count=1)
            large.append(dict(s, t=t, asserts=a, ccols=0, layers=0))
    # wide traces opened at many positions: query tables of more than 64 KiB (width >= 254, as many queries as the LDE domain allows up to 60)
    big = []
    for s in [x for x in stmts if x["t"]["width"] >= 254][:2 if tier == "quick" else 8]:
        t = dict(s["t"], q=min(60, 2 ** (s["t"]["ln"] + s["t"]["lb"]) - 1))
        big.append(dict(s, t=t))
    scs = [starkgen.scenario(t, i, seed) for i, t in enumerate(stmts + large + big)]
    lowdeg = [sc for sc in scs if starkgen.low_degree(sc)]
    scs = [sc for sc in scs if not starkgen.low_degree(sc)]
    obs = run_scenarios(exe, "complete", scs, wd, "complete_dbg")
    ok = sum(1 for sc, o in zip(scs, obs) if judge_complete(v, sc, o, "dbg"))
    log("[replay] %d statements proved+verified+round-tripped in the debug build, %d ok" % (len(scs), ok))
    # degenerate traces (constant columns): judged in the build without debug assertions
    deg = list(lowdeg)
    for i, t in enumerate(stmts[:: max(1, len(stmts) // (20 if tier == "quick" else 200))]):
        sc = starkgen.scenario(t, 100000 + i, seed)
        sc["shape"]["mode"] = "copy"
        sc["shape"]["degs"] = [1] * sc["shape"]["width"]
        sc["shape"]["periodic"] = []
        sc["shape"]["pcol"] = [-1] * sc["shape"]["width"]
        sc["free_tail"] = False
        deg.append(sc)
    # the largest query count on a domain large enough for all 255 drawn positions to be distinct: batch openings of exactly 255 leaves
    # in every query set and FRI layer (the boundary of the one-byte counts of the wire format).  Several traces per statement: the
    # positions are distinct with probability about 0.78 on 2^17 points
    maxq = []
    for j, s in enumerate([x for x in stmts if not x["t"]["auxd"] and not x["t"].get("lag") and x["t"]["width"] <= 4 and max(x["t"]["degs"]) <= 3
                           and x["t"]["fold"] <= 8 and x["t"]["rem"] <= 31 and not x["t"].get("meta")][:2 if tier == "quick" else 6]):
        for rep in range(3):
            t = dict(s["t"], ln=13, lb=4, q=255, grind=0)
            sc = starkgen.scenario(dict(s, t=t, asserts=None, ccols=0, layers=0), 200000 + 10 * j + rep, seed + rep)
            if not starkgen.low_degree(sc):
                maxq.append(sc)
    obs3 = run_scenarios(exe_rel, "complete", maxq, wd, "complete_rel_maxq")
    ok3 = sum(1 for sc, o in zip(maxq, obs3) if judge_complete(v, sc, o, "rel-maxq"))
    distinct255 = sum(1 for o in obs3 if o and o.get("unique") == 255)
    log("[replay] %d statements with 255 queries on 2^17 points in the release build, %d ok, %d with 255 distinct positions" % (len(maxq), ok3, distinct255))
    if maxq and distinct255 == 0:
        raise vlib.ToolError("no proof with 255 distinct query positions was produced (%d attempts)" % len(maxq))
    obs2 = run_scenarios(exe_rel, "complete", deg, wd, "complete_rel_degenerate")
    ok2 = sum(1 for sc, o in zip(deg, obs2) if judge_complete(v, sc, o, "rel-degenerate"))
    log("[replay] %d degenerate (constant-column) statements in the release build, %d ok" % (len(deg), ok2))
    rc = v.finish()
    vlib.write_evidence(PID, tier, seed, "model_checking", {
        "states": r.distinct, "transitions": r.generated,
        "traces_validated_against_impl": len(scs) + len(deg) + len(maxq), "proofs_with_255_distinct_query_positions": distinct255,
        "samples": [scs[0], scs[len(scs) // 2]] if scs else [],
        "evaluations": len(scs) + len(deg), "distinct_nontrivial": len(scs),
        "rule": "statements reachable from 4 base statements by changing at most %d parameters to boundary values (Gen_Stark.tla), all admissible; "
                "each with a forward-executed valid trace; hashers rotate over those compatible with the field" % (1 if tier == "quick" else 2),
        "exhaustive": False, "ok": ok, "degenerate": len(deg), "degenerate_ok": ok2,
        "known_finding_occurrences": v.n_known, "new_violations": v.n_new,
    }, time.time() - t0, violations=v.n_new,
        assumptions=["ShapeAir family: functional transition constraints of the stated degrees, optional periodic factor, all assertion kinds; "
                     "auxiliary segments (running-sum / running-product columns over random elements) and a Lagrange-kernel column with a stand-in GKR proof are part of the family",
                     "traces are valid by construction (forward execution); rows no enforced transition reaches are random in half of the scenarios"])
    return rc


def replay(path):
    rec = json.load(open(path))
    sc = rec["replay"]
    exe = vlib.build_harness("dbg")
    wd = vlib.workdir(PID)
    o = run_scenarios(exe, "complete", [sc], wd, "replay")
    print(json.dumps(o, indent=1))
    return 0 if all(x in ("ok", "n/a") for k, x in o[0].items() if k in ("prove", "verify", "parse", "verify2")) else 1
