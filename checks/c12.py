"""C12 — serialization round trip for every serializable value.  (DESIGN.md section 6, C12)

R1  MC_Serde: the vint64 size encoding of Serde.tla round-trips through the byte-reader contract (Bytes.tla) for every value
    0..SmallMax and every boundary value 2^(7k)-1, 2^(7k), 2^(7k)+1, 2^64-1, with encoded lengths 1..9.
R2  TLC prints every case with the exact bytes of the documented encodings (usize, fixed-width integers) and abstract
    descriptions of the composite values the constructors accept (TraceInfo incl. 255 columns and 65535 metadata bytes,
    ProofOptions incl. 255 queries and remainder degree 255); the harness builds the value with the real constructor,
    encodes it (bytes compared with TLC's for the documented encodings), and decodes it with SliceReader, Cursor and
    ReadAdapter (1-, 7-, 256-byte chunks and whole) from the encoding followed by junk: equal value, exactly the encoding
    consumed.  The same round trip is run for options, strings, nested vectors, maps, sets, tuples, arrays, field and
    extension elements, digests, and for whole proofs and their components taken from the completeness scenarios."""
import json, os, time
import vlib, starkgen, c01
from vlib import log

PID = "C12"


def run(tier, seed):
    t0 = time.time()
    v = vlib.Verdict(PID)
    wd = vlib.workdir(PID)
    exe = vlib.build_harness("dbg")
    r = vlib.tlc_check("MC_Serde", "MC_Serde", workers=4, env={"SERDE_SMALLMAX": 3000 if tier == "quick" else 70000}, timeout=3000, xmx="6g")
    if not r.ok:
        v.violation("model/" + str(r.violation), "Serde.tla: the vint64 encoding does not round-trip through the reader contract (%s)" % r.violation, {"tlc": r.out[-2000:]})
    cases = sorted([p for p in r.printed if "kind" in p], key=lambda x: json.dumps(x, sort_keys=True))
    cp = os.path.join(wd, "cases.ndjson")
    vlib.write_ndjson(cp, cases)
    # honest proofs from the completeness family
    rs, stmts = c01.gen(5, 1)
    stmts = [s for s in stmts if s["t"]["width"] <= 255 and s["t"]["ln"] <= 5]
    step = max(1, len(stmts) // (25 if tier == "quick" else 150))
    scs = [starkgen.scenario(rec, i, seed) for i, rec in enumerate(stmts[::step])]
    scs = [sc for sc in scs if not starkgen.low_degree(sc)]
    pp = os.path.join(wd, "proofs.ndjson")
    if os.path.exists(pp):
        os.remove(pp)
    sp = os.path.join(wd, "scs.ndjson")
    vlib.write_ndjson(sp, scs)
    rc, _, err = vlib.run_harness(exe, ["stark", "complete", "--scenarios", sp], stdout_path=os.path.join(wd, "complete.out"), env={"WFH_DUMP_PROOFS": pp}, timeout=1800)
    if rc != 0:
        raise vlib.ToolError("stark complete rc=%s: %s" % (rc, err[-300:]))
    rc, out, err = vlib.run_harness(exe, ["serde", "--scenarios", cp, "--proofs", pp, "--seed", str(seed)], timeout=1800)
    if rc != 0:
        raise vlib.ToolError("serde harness rc=%s: %s" % (rc, err[-400:]))
    res = json.loads(out)
    for f in res["failures"]:
        v.violation(f["key"], f["what"] + " (%d occurrences)" % f["count"], f["replay"])
    if res["spec_drift"]:
        v.note("SPEC-DRIFT: %d composite encodings differ from the wire image in Serde.tla while round-tripping correctly" % res["spec_drift"])
    log("[replay] %d TLC cases, %d proofs, %d reader runs, %d failure keys" % (res["cases"], res["proofs"], res["reader_runs"], len(res["failures"])))
    rc = v.finish()
    vlib.write_evidence(PID, tier, seed, "model_checking", {
        "states": r.distinct + rs.distinct, "transitions": r.generated + rs.generated, "traces_validated_against_impl": res["reader_runs"],
        "samples": [c for c in cases if c["kind"] == "usize"][-2:] + [c for c in cases if c["kind"] == "traceinfo"][:1],
        "evaluations": res["reader_runs"], "distinct_nontrivial": res["cases"] + res["proofs"],
        "rule": "TLC cases: usize 0..%d and 33 boundary values, fixed-width integers, TraceInfo / ProofOptions boundary members admitted by the constructors; harness-generated "
                "options/strings/vectors/maps/sets/tuples/arrays/elements/digests; %d honest proofs and their components; each decoded by 6 reader configurations" % (
                    3000 if tier == "quick" else 70000, res["proofs"]),
        "exhaustive": False, "spec_drift": res["spec_drift"],
        "known_finding_occurrences": v.n_known, "new_violations": v.n_new, "notes": v.notes,
    }, time.time() - t0, violations=v.n_new,
        assumptions=["semantic equality of decoded values is Rust's PartialEq", "byte-for-byte comparison only for the documented primitive encodings"])
    return rc


def replay(path):
    print(open(path).read()[:3000])
    return 1
