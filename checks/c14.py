"""C14 — multi-threaded execution produces the same results as single-threaded.  (DESIGN.md section 6, C14)

R1  MC_Par: the task decompositions of the parallel code paths as written in the code (Par.tla: batch_iter_mut!, the bit-reversal
    permutation, the Merkle subtree construction, the row-matrix transposition, the constraint-evaluation fragments with their
    periodic-value lookup) for every length 2^3..2^MaxLog (plus non-powers of two for the batch iterator)
    and thread-pool sizes 1..64: write sets pairwise disjoint, no task reads what another writes, the union of the work is the
    serial work.
Replay the harness is built twice from the same sources, without and with the `concurrent` feature; every deterministic result
    (transforms and interpolation on both sides of the 1024 threshold, power series, batch inversion, in-place accumulation,
    Merkle trees and openings, row/column LDE matrices and their commitments, and for whole proofs all commitments - trace,
    constraint, FRI layers, remainder - and the out-of-domain frame) is compared byte for byte between the serial build and the
    concurrent build under several thread-pool sizes and repetitions; the proofs must verify.  The proof-of-work nonce and the
    query data are excluded as the property allows."""
import json, os, time
import vlib
from vlib import log

PID = "C14"


def run(tier, seed):
    t0 = time.time()
    v = vlib.Verdict(PID)
    wd = vlib.workdir(PID)
    r = vlib.tlc_check("MC_Par", "MC_Par", workers=2, env={"PAR_MAXLOG": 10 if tier == "quick" else 12, "PAR_THREADS": "classes" if tier == "quick" else "all"},
                       timeout=3300, xmx="6g")
    if not r.ok:
        v.violation("model/" + str(r.violation), "Par.tla: a task decomposition is not a disjoint cover of the serial work (%s)" % r.violation, {"tlc": r.out[-3000:]})
    # non-vacuity: the transposition without the cap on the number of batches (the code before fix 3ec6385) and a periodic-value
    # lookup by the fragment-local row index must both be refuted
    for cfg, inv in (("MC_Par_uncapped", "Inv"), ("MC_Par_locallookup", "InvLocalLookup"), ("MC_Par_mincells", "Inv")):
        rv = vlib.run_tlc("MC_Par", cfg, workers=4, env={"PAR_MAXLOG": 10, "PAR_THREADS": "classes"}, timeout=1200, xmx="4g", tag=cfg)
        if rv.violation != inv:
            raise vlib.ToolError("self-test: variant %s not refuted (%s)" % (cfg, rv.violation))
    log("[tlc] variants refuted: uncapped transposition batches, periodic lookup by fragment-local index, transposition batches of at least 1024 cells")
    ser = vlib.build_harness("rel")
    con = vlib.build_harness("rel", features=["concurrent"])
    extra = ["--thorough"] if tier == "thorough" else []
    rc, out, err = vlib.run_harness(ser, ["par"] + extra, timeout=1800)
    if rc != 0:
        raise vlib.ToolError("par (serial) rc=%s: %s" % (rc, err[-300:]))
    base = json.loads(out)
    if base["concurrent"]:
        raise vlib.ToolError("the serial build reports the concurrent feature")
    for k, x in base["results"].items():
        if k.endswith("/verifies") and x != "true":
            raise vlib.ToolError("serial proof does not verify: %s" % k)
    pools = [1, 2, 3, 8] if tier == "quick" else [1, 2, 3, 5, 8, 16, 24, 64]
    reps = 1 if tier == "quick" else 20
    runs = compared = 0
    for th in pools:
        for rep in range(reps):
            rc, out, err = vlib.run_harness(con, ["par"] + extra, timeout=1800, env={"RAYON_NUM_THREADS": str(th)})
            if rc != 0:
                v.violation("par/crash/threads%d" % th, "the concurrent build fails (exit %s) with %d threads: %s" % (rc, th, err[-300:]), {"threads": th})
                continue
            got = json.loads(out)
            if not got["concurrent"]:
                raise vlib.ToolError("the concurrent build does not report the concurrent feature")
            runs += 1
            for k, x in base["results"].items():
                compared += 1
                y = got["results"].get(k)
                if y != x:
                    what = "/".join(k.split("/")[:2]) if not k.startswith("prover") else "prover/" + k.split("/")[-1]
                    v.violation("par/differs/%s" % what, "result '%s' of the concurrent build with %d threads (repetition %d) differs from the single-threaded result" % (k, th, rep),
                                {"key": k, "threads": th, "serial": x, "concurrent": y})
    # every pool size 1..64 for the cheap operations (transforms, twiddles, power series, batch inversion, Merkle trees around the
    # thresholds): the decompositions depend on the pool size through next_pow2(threads), so sampling pool sizes is not enough
    rc, out, err = vlib.run_harness(ser, ["par", "--light"], timeout=600)
    if rc != 0:
        raise vlib.ToolError("par --light (serial) rc=%s: %s" % (rc, err[-300:]))
    lbase = json.loads(out)["results"]

    def light(th):
        rc, out, err = vlib.run_harness(con, ["par", "--light"], timeout=600, env={"RAYON_NUM_THREADS": str(th)})
        return th, rc, (json.loads(out)["results"] if rc == 0 else err[-300:])

    for th, rc2, got in vlib.parallel(light, list(range(1, 65)), max_workers=4):
        if rc2 != 0:
            v.violation("par/crash/threads%d" % th, "the concurrent build fails (exit %s) with %d threads: %s" % (rc2, th, got), {"threads": th})
            continue
        runs += 1
        for k, x in lbase.items():
            compared += 1
            if got.get(k) != x:
                v.violation("par/differs/%s" % "/".join(k.split("/")[:2]), "result '%s' of the concurrent build with %d threads differs from the single-threaded result" % (k, th),
                            {"key": k, "threads": th, "serial": x, "concurrent": got.get(k), "light": True})
    log("[replay] %d results x %d concurrent runs (pools %s x %d repetitions, and %d cheap results for every pool size 1..64) compared with the serial build" % (
        len(base["results"]), runs, pools, reps, len(lbase)))
    rc = v.finish()
    vlib.write_evidence(PID, tier, seed, "model_checking", {
        "states": r.distinct, "transitions": r.generated, "traces_validated_against_impl": runs,
        "samples": [{"result": k, "digest": x} for k, x in list(base["results"].items())[:3]],
        "evaluations": compared, "distinct_nontrivial": len(base["results"]),
        "rule": "each of the %d deterministic results of the serial build compared with the concurrent build under RAYON_NUM_THREADS in %s, %d repetition(s)" % (len(base["results"]), pools, reps),
        "exhaustive": False, "thread_pools": pools, "repetitions": reps,
        "known_finding_occurrences": v.n_known, "new_violations": v.n_new,
    }, time.time() - t0, violations=v.n_new,
        assumptions=["thread schedules are sampled on the real code (repetitions), enumerated only as index-set disjointness in the model",
                     "the proof-of-work nonce and the query data selected through it are excluded from the comparison"])
    return rc


def replay(path):
    print(open(path).read()[:3000])
    return 1
