"""C03 — proof integrity, and C06 — untrusted input (shared machinery; c06.py imports this module).

R2  MC_Wire: Wire.tla holds the wire grammar of a serialized proof and the family of structured mutations (every scalar
    field x boundary values; every length-prefixed component x shorten/lengthen/inconsistent prefix/empty/bit flips/chunk
    swaps, duplications, removals).  TLC checks the grammar and prints every (field, mutation) pair.
Replay for proofs of statements generated from Stark.tla the harness lays the grammar over the real serialized proof (a proof
    that does not follow the grammar is reported), applies every structured mutation, every single-bit flip (exhaustive on
    small proofs), random byte edits, truncation at every offset, trailing garbage and the adaptive FRI-remainder
    substitution computed from the verifier's own query positions; each mutated byte string is parsed and verified.
    C03: accepted with a different decoded content (after masking the FRI partition count and re-encoding digests) is a
    violation.  C06: any panic while parsing or verifying is a violation."""
import json, os, time, resource
import vlib, starkgen, c01, vmodel
from vlib import log


def wire_key(sc):
    """(trace segments, FRI layers, GKR proof present) of the proofs of a scenario"""
    sh = sc["shape"]
    return (2 if sh.get("aux_degs") else 1, sc["layers"], 1 if sh.get("lagrange") else 0)


def mutation_sets(keys, wd):
    out = {}
    states = trans = 0
    for L in sorted(keys):
        r = vlib.run_tlc("MC_Wire", "MC_Wire", workers=1, env={"WIRE_SEGMENTS": L[0], "WIRE_LAYERS": L[1], "WIRE_GKR": L[2]}, tag="MC_Wire_%d_%d_%d" % L)
        if not r.ok:
            raise vlib.ToolError("Wire.tla grammar check failed: %s" % r.violation)
        p = os.path.join(wd, "mutations_%d_%d_%d.ndjson" % L)
        vlib.write_ndjson(p, r.printed)
        out[L] = (p, len(r.printed) - 1)
        states += r.distinct
        trans += r.generated
    return out, states, trans


_expected_cache = {}


def expected_classes(sc):
    """Verifier.tla: for the shape of this scenario's proofs, the error classes with which a proof whose component was changed
    may be rejected (component -> set of VerifierError classes); also checks the design invariants of the model"""
    sh = sc["shape"]
    key = (1 if sh.get("aux_degs") else 0, 1 if sh.get("lagrange") else 0, sc["layers"], 1 if sc["opts"]["grind"] > 0 else 0)
    if key not in _expected_cache:
        env = {"VER_AUX": key[0], "VER_LAG": key[1], "VER_LAYERS": key[2], "VER_GRIND": key[3], "VER_CQM": 1}
        r = vlib.run_tlc("MC_Verifier", "MC_Verifier", workers=1, env=env, tag="MC_Verifier_%d_%d_%d_%d" % key)
        if not r.ok:
            raise vlib.ToolError("Verifier.tla: %s violated for %s" % (r.violation, env))
        _expected_cache[key] = ({p["component"]: set(p["expected"]) for p in r.printed if "component" in p}, r.distinct, r.generated)
    return _expected_cache[key]


def component_of(field, m):
    """the component of Verifier.tla that a structured mutation of Wire.tla changes"""
    if field == "commitments" and m.startswith("header:"):
        return "ctx"
    if field == "commitments":
        return "remcommit" if m in ("flip-last-bit", "dup-last-chunk") else "troot"
    if field.startswith("tq"):
        return ("tq." if field.startswith("tq1") else "aq.") + field.split(".")[1]
    if field.startswith("fl") and field[2].isdigit():
        return field
    return {"cq.values": "cq.values", "cq.paths": "cq.paths", "ood.trace": "oodtrace", "ood.lagrange": "oodlag", "ood.evaluations": "oodevals",
            "fri.remainder": "remainder", "pow_nonce": "nonce", "gkr.body": "gkr", "modulus": "modulus", "fri.partitions": "fl1.values"}.get(field, "ctx")


# rejections that do not come from a check of the protocol but from decoding the proof or instantiating the statement
COMMITMENT_ERRORS = {"TraceQueryDoesNotMatchCommitment", "ConstraintQueryDoesNotMatchCommitment",
                     "FriVerificationFailed/LayerCommitmentMismatch", "FriVerificationFailed/RemainderCommitmentMismatch"}
DECODING = {"parse-error", "ProofDeserializationError", "UnsupportedFieldExtension", "InsufficientConjecturedSecurity"}


def run_mutations(pid, tier, seed, exe, wd):
    """returns (observations per scenario, scenarios, model stats)"""
    r, stmts = c01.gen(5 if tier == "quick" else 6, 1)
    stmts = [s for s in stmts if s["t"]["width"] <= 16 and s["t"]["q"] <= 40 and s["t"]["grind"] <= 8]
    # a spread over fields/hashers/extensions/layer counts; bit-exhaustive on the first few small ones
    step = max(1, len(stmts) // (10 if tier == "quick" else 60))
    chosen = stmts[::step]
    # one statement with a single query over a small domain and no grinding: the colliding-nonce search applies to it
    small = [s for s in stmts if s["t"]["q"] == 1 and s["t"]["grind"] == 0 and s["t"]["ln"] + s["t"]["lb"] <= 6]
    # statements with an auxiliary segment: one with and one without a Lagrange kernel column (GKR proof in the wire format)
    aux_lag = [s for s in stmts if s["t"]["auxd"] and s["t"]["lag"] == 1]
    aux_plain = [s for s in stmts if s["t"]["auxd"] and s["t"]["lag"] == 0]
    # statements with trace metadata (shorter than / exactly / longer than one seed element)
    metas = [s for s in stmts if s["t"]["meta"] == 1][:1] + [s for s in stmts if s["t"]["meta"] == 7][:1] + [s for s in stmts if s["t"]["meta"] == 8][:1]
    # statements whose computation description can be instantiated for every trace length and blowup (one exemption, one assertion
    # at step 0, degrees <= 2, no periodic columns): the header combinations of Wire.tla reach the parsing of the proof body
    perm = [s for s in stmts if s["t"]["k"] == 1 and s["t"]["nasserts"] <= 1 and max(s["t"]["degs"]) <= 2 and not s["t"]["auxd"] and all(p == 0 for p in s["t"]["pcol"])]
    perm = [s for s in perm if s["t"]["fold"] == 2][:1] + [s for s in perm if s["t"]["fold"] >= 4 and s["t"]["ln"] >= 5][:1] + [s for s in perm if s["t"]["width"] == 1][:1]
    # statements with three or more constraint composition columns: the out-of-domain evaluations can be moved inside the kernel of
    # (reduction at z, DEEP coefficients) - the adaptive substitution of the harness - only there
    multi = [s for s in stmts if s.get("ccols", 0) >= 3]
    multi = multi[::max(1, len(multi) // (3 if tier == "quick" else 12))][:3 if tier == "quick" else 12]
    multi = [dict(m, light=True) for m in multi]
    chosen = perm + small[:1] + aux_lag[:1 if tier == "quick" else 4] + aux_plain[:1 if tier == "quick" else 4] + metas + multi + chosen
    scs = [dict(starkgen.scenario(rec, i, seed), light=bool(rec.get("light"))) for i, rec in enumerate(chosen)]
    # every (field, hasher) combination on a small statement: what a hasher does with the integers it is handed (nonce, counters)
    # differs per hasher, so the structured mutations run once under each of them (fewer random edits, no truncations)
    nmain = len(scs)
    for bits, hs in sorted(starkgen.HASHERS.items()):
        cand = [s for s in stmts if s["t"]["bits"] == bits and s["t"]["ln"] <= 4 and s["t"]["q"] <= 8 and s["t"]["width"] <= 4 and not s["t"]["auxd"]]
        for k, h in enumerate(hs):
            if not cand:
                continue
            sc = starkgen.scenario(cand[(seed + k) % len(cand)], len(scs), seed)
            sc["hasher"] = h
            sc["hasher_pass"] = True
            scs.append(sc)
    scs = [sc for sc in scs if not starkgen.low_degree(sc)]
    msets, st, tr = mutation_sets({wire_key(sc) for sc in scs}, wd)
    obs = []
    nbit = 2 if tier == "quick" else 8
    jobs = []
    for i, sc in enumerate(scs):
        p = os.path.join(wd, "sc_%d.ndjson" % i)
        vlib.write_ndjson(p, [sc])
        args = ["stark", "mutate", "--scenarios", p, "--mutations", msets[wire_key(sc)][0]] + (
            ["--byte-edits", "200"] if sc.get("hasher_pass") or sc.get("light") else ["--byte-edits", "2000" if tier == "quick" else "20000", "--truncations"])
        if i < nbit and sc["shape"]["n"] <= 16:
            args.append("--bitflips")
        jobs.append((sc, p, args))

    def one(job):
        sc, p, args = job
        op = p.replace(".ndjson", ".out.json")
        rc, _, err = vlib.run_harness(exe, args, stdout_path=op, timeout=3000, env={"WFH_RLIMIT_AS": str(4 << 30)})
        if rc != 0:
            return sc, {"crash": "harness exit status %s: %s" % (rc, err[-300:])}
        return sc, json.loads(open(op).read().splitlines()[0])

    for sc, o in vlib.parallel(one, jobs, max_workers=12):
        obs.append((sc, o))
    return obs, r.distinct + st, r.generated + tr


def summarize(obs):
    tot = {"structured": 0, "bitflips": 0, "truncations": 0, "byte_edits": 0, "proofs": 0, "adaptive_ood": sum(1 for _, o in obs if o.get("adaptive_ood"))}
    tally = {}
    for sc, o in obs:
        if "tally" not in o:
            continue
        tot["proofs"] += 1
        for k in ("structured", "bitflips", "truncations"):
            tot[k] += o.get(k, 0)
        for k, n in o["tally"].items():
            tally[k] = tally.get(k, 0) + n
    tot["mutants_judged"] = sum(tally.values())
    return tot, tally


def run(tier, seed, pid="C03"):
    t0 = time.time()
    v = vlib.Verdict(pid)
    drift = set()
    wd = vlib.workdir(pid)
    exe = vlib.build_harness("dbg")
    obs, states, trans = run_mutations(pid, tier, seed, exe, wd)
    for sc, o in obs:
        ctx = "%s/%s/ext%d n=%d width=%d options %s" % (sc["field"], sc["hasher"], sc["ext"], sc["shape"]["n"], sc["shape"]["width"], sc["opts"])
        if "crash" in o:
            if pid == "C06":
                v.violation("untrusted/abort", "the process parsing/verifying mutated proofs died: %s (%s)" % (o["crash"], ctx), sc)
            else:
                raise vlib.ToolError("mutate harness failed: %s" % o["crash"])
            continue
        if o.get("prove") != "ok" or o.get("honest") != "accepted-same":
            raise vlib.ToolError("honest proof not produced/accepted in the mutation run: %s (%s)" % (json.dumps(o)[:200], ctx))
        if "grammar" in o:
            # without the grammar the structured mutations cannot be placed: the check cannot decide (not a violation of the property)
            raise vlib.ToolError("a serialized proof does not follow the grammar of Wire.tla (%s): %s" % (ctx, str(o["grammar"])[:200]))
        # the layout of the serialized proof against Stark.tla (Layout): component sizes in field elements / digests
        if pid == "C03" and sc.get("layout") and o.get("spans"):
            lay, sp, eb, db, u = sc["layout"], o["spans"], o["elem_bytes"], o["digest_bytes"], o["spans"].get("unique_queries", 0)
            xb = eb * sc["ext"]
            want = {"ood.trace": 1 + lay["ood_trace_elems"] * xb, "ood.lagrange": 1 + lay["ood_lag_elems"] * xb, "ood.evaluations": lay["ood_eval_elems"] * xb,
                    "commitments": lay["commit_digests"] * db, "fri.remainder": lay["remainder_elems"] * xb, "fri.num_layers": lay["fri_layers"],
                    "tq1.values": lay["tq1_elems"] * u * eb, "cq.values": lay["cq_elems"] * u * xb}
            if "tq2.values" in sp:
                want["tq2.values"] = lay["tq2_elems"] * u * xb
            for k, w in want.items():
                if sp.get(k) != w:
                    drift.add("component %s of a serialized proof has %s bytes, Stark.tla Layout gives %s (%s)" % (k, sp.get(k), w, ctx))
        # which check rejects: the error class of every rejected structured mutant against the check order of Verifier.tla
        if pid == "C03":
            exp, _, _ = expected_classes(sc)
            for m in o.get("structured_classes", []):
                comp = component_of(m["field"], m["m"])
                allowed = exp.get(comp, set()) | DECODING
                if m["field"] == "fri.partitions":
                    allowed = allowed | set().union(*[x for k, x in exp.items() if k.startswith("fl")])
                if m["class"] in allowed:
                    continue
                # the property asks for rejection, and for opened values to be tied to a commitment: an opened value that is
                # rejected by anything other than a comparison with a commitment is no longer tied (violation); any other
                # difference from the check order of Verifier.tla (e.g. checks performed in another order) is drift of the model
                tied = exp.get(comp, set()) & COMMITMENT_ERRORS
                if not tied or m["class"] in COMMITMENT_ERRORS:
                    drift.add("%s:%s rejected by %s, Verifier.tla predicts %s" % (comp, m["m"].split(":")[0], m["class"], sorted(exp.get(comp, []))))
                    continue
                if True:
                    v.violation("integrity/wrong-check/%s" % m["field"].rstrip("0123456789"),
                                "a proof whose component %s was changed (%s:%s) is rejected by '%s', but the check that ties this component to "
                                "its commitment / to the transcript is %s (Verifier.tla) (%s)" % (comp, m["field"], m["m"], m["class"], sorted(exp.get(comp, [])), ctx),
                                {"scenario": sc, "mutation": "%s:%s" % (m["field"], m["m"])})
        for f in o["findings"]:
            mut, out = f["mutation"], f["outcome"]
            where = mut.split(" in ")[-1] if mut.startswith(("bit", "byte")) else mut
            if where.startswith("pow_nonce"):
                # a different nonce is accepted when it passes the grinding condition and happens to draw the same positions (known
                # finding, probability (1/LDE size)^queries per nonce); when that chance is below 2^-20 an accepted nonce is no
                # coincidence: the coin cannot tell the two nonces apart
                import math
                bits = sc["opts"]["q"] * math.log2(sc["shape"]["n"] * sc["opts"]["blowup"]) + sc["opts"]["grind"]
                where = "pow_nonce" if bits < 20 else "pow_nonce-indistinguishable"
            if pid == "C03" and out == "accepted-different":
                v.violation("integrity/accepted/%s" % where, "a proof whose decoded content differs from an accepted proof (%s) is ACCEPTED (%s)" % (mut, ctx),
                            {"scenario": sc, "mutation": mut})
            if pid == "C06" and out.startswith("panic@"):
                v.violation("untrusted/%s" % out, "parsing/verifying a mutated proof (%s) panics: %s (%s)" % (mut, out, ctx),
                            {"scenario": sc, "mutation": mut})
    over_n = 0
    if pid == "C06":
        # a proof that is honest up to the query phase but whose header asks for at least as many queries as the LDE domain has
        # points (a prover written against the protocol, with a coin that still hands out positions)
        base = [o_sc for o_sc, _ in obs if o_sc["shape"]["n"] <= 16 and not o_sc["shape"].get("aux_degs")][:3]
        oscs = []
        for k, b in enumerate(base):
            for n, blowup, q in ((8, 2, 16), (8, 2, 17), (8, 2, 255), (8, 4, 32), (16, 2, 40), (8, 2, 15)):
                sc = json.loads(json.dumps(b))
                if sc["shape"]["n"] != n and any(a["first"] >= n or (a["kind"] != "single" and a["count"] * a["stride"] != n) for a in sc["shape"]["asserts"]):
                    continue
                if sc["shape"]["n"] != n:
                    continue
                sc["opts"].update(q=q, blowup=blowup, grind=0)
                sc["id"] = len(oscs)
                oscs.append(sc)
        if oscs:
            po = os.path.join(wd, "overquery.ndjson")
            vlib.write_ndjson(po, oscs)
            rc_, out_, err_ = vlib.run_harness(exe, ["stark", "overquery", "--scenarios", po], timeout=900)
            if rc_ != 0:
                raise vlib.ToolError("overquery harness rc=%s: %s" % (rc_, err_[-300:]))
            for sc, o in zip(oscs, [json.loads(l) for l in out_.splitlines() if l.strip()]):
                if o.get("prove") != "ok":
                    continue      # the prover refuses: nothing to verify
                over_n += 1
                if o["outcome"].startswith("panic@"):
                    v.violation("untrusted/%s" % o["outcome"], "verifying a proof that asks for %d queries over an LDE domain of %d points (honest up to the query phase) panics: %s" % (
                        sc["opts"]["q"], sc["shape"]["n"] * sc["opts"]["blowup"], o["outcome"]), {"scenario": sc, "mutation": "overquery"})
        log("[replay] %d proofs with at least as many queries as LDE points verified" % over_n)
    for d in sorted(drift)[:20]:
        log("SPEC-DRIFT (not a violation): " + d)
    vm = None
    if pid == "C03":
        # "every value the verifier consumes is tied to a commitment": Trace_Verifier.tla demands, for every row an accepted proof
        # opens (trace segments, composition columns, every FRI layer), a chain of merges performed by the real verifier (recording
        # hasher) from the row's hash to the commitment, entered on the side the position's bits name (MerkleChain.tla)
        r3, stmts3 = c01.gen(6, 1)
        vm = vmodel.run(tier, seed, stmts3, wd)
        vmodel.judge(v, vm, ("commitment",), pid)
    tot, tally = summarize(obs)
    log("[replay] %s; verdicts %s" % (tot, tally))
    rc = v.finish()
    sample = [{"scenario": {k: obs[0][0][k] for k in ("field", "hasher", "ext", "opts")}, "tally": obs[0][1].get("tally"), "adaptive": obs[0][1].get("adaptive")}] if obs else []
    vlib.write_evidence(pid, tier, seed, "fault_enumeration" if pid == "C06" else "model_checking", {
        "states": states, "transitions": trans, "traces_validated_against_impl": tot["mutants_judged"],
        "samples": sample + [{"mutation_kinds": "see spec/Wire.tla: ScalarMutations, BlobMutations"}],
        "evaluations": tot["mutants_judged"], "distinct_nontrivial": tot["mutants_judged"],
        "rule": "per proof: every (field, mutation) of Wire.tla that applies, truncation at every offset, trailing garbage, random single-byte edits, "
                "all single-bit flips on the first small proofs, the adaptive FRI remainder substitution; proofs from statements of Gen_Stark.tla over rotating fields/hashers/extensions",
        "exhaustive": False, "totals": tot, "verdicts": tally,
        "known_finding_occurrences": v.n_known, "new_violations": v.n_new,
    }, time.time() - t0, violations=v.n_new,
        assumptions=["decoded content is compared through the re-encoded bytes with the FRI partition count masked (the two exemptions of the property)",
                     "single- and two-segment proofs (auxiliary segment, Lagrange-kernel column, GKR section); time-outs and memory exhaustion of the verifying process are observed as abnormal termination of the harness (address space limited to 4 GiB)"])
    return rc


def replay(path):
    print(open(path).read()[:3000])
    return 1
