"""C15 — FRI completeness, position folding and layer layout.  (DESIGN.md section 6, C15)

R1  MC_Fri: layout lemma (the value the verifier reads for a position is the prover's evaluation at that position; folded
    positions are duplicate-free and cover every queried position) for all domains <= 32, folding factors and position
    lists with duplicates; the whole option space of schedules: well-formed => the verifier's integer guards hold.
R2  every well-formed schedule tuple printed by TLC is replayed on the real FriProver / FriProof (serialized) /
    FriVerifier with polynomials of degree 0, exactly the bound, and random, with repeated and colliding query positions,
    all fields/extensions/hashers in rotation, and a reused prover instance; the layer count must equal the model's."""
import json, os, time
import vlib
from vlib import log

PID = "C15"
COMBOS = [("f64", "blake3_256", 1), ("f128", "blake3_256", 1), ("f62", "rp62_248", 1), ("f64", "rp64_256", 2), ("f62", "blake3_256", 3),
          ("f64", "rpjive64_256", 3), ("f128", "sha3_256", 2), ("f64", "blake3_192", 1), ("f62", "sha3_256", 2)]


def model(tier, chk="1"):
    return vlib.run_tlc("MC_Fri", "MC_Fri", workers=4, env={"FRI_MAXLN": 8 if tier == "quick" else 12, "FRI_CHK": chk, "FRI_REMCHECK": "zerotail"},
                        tag="MC_Fri_" + chk, timeout=3000, xmx="6g")


def next_pow2(x):
    p = 1
    while p < x:
        p *= 2
    return p


def bound_text(c):
    return "%d (%d coefficients)" % (c["ncoef"] - 1, c["ncoef"]) if c.get("ncoef") else "2^%d-1" % c["ln"]


def run_cases(exe, cases, wd, name):
    p = os.path.join(wd, name + ".ndjson")
    vlib.write_ndjson(p, cases)
    op = os.path.join(wd, name + ".out.ndjson")
    rc, _, err = vlib.run_harness(exe, ["fri", "--scenarios", p], stdout_path=op, timeout=3400)
    if rc != 0:
        raise vlib.ToolError("fri harness rc=%s: %s" % (rc, err[-500:]))
    return vlib.read_ndjson(op)


def run(tier, seed):
    t0 = time.time()
    v = vlib.Verdict(PID)
    wd = vlib.workdir(PID)
    exe = vlib.build_harness("dbg")
    r = model(tier)
    log("[tlc] MC_Fri: %d cases (layout, schedule, strategy), %.1fs%s" % (r.distinct, r.wall, "" if r.ok else " ** " + str(r.violation)))
    if not r.ok:
        v.violation("model/" + str(r.violation), "Fri.tla: %s violated" % r.violation, {"tlc": r.out[-3000:]})
    rv = vlib.run_tlc("MC_Fri", "MC_Fri_olddomain", workers=4, env={"FRI_MAXLN": 6, "FRI_CHK": "1"}, tag="MC_Fri_olddomain", timeout=1200, xmx="4g")
    if rv.violation != "SchedInvOldDomain":
        raise vlib.ToolError("self-test: the verifier domain inferred from the degree (pre-fix) is not refuted (%s)" % rv.violation)
    log("[tlc] pre-fix variant (verifier domain from the degree instead of the number of coefficients) refuted")
    for variant, cfg, inv in (("length", "MC_Fri_remlength", "BoundCompleteInv"), ("domain", "MC_Fri_remdomain", "BoundSoundInv")):
        rv = vlib.run_tlc("MC_Fri", cfg, workers=2, env={"FRI_MAXLN": 6, "FRI_CHK": "1", "FRI_REMCHECK": variant}, tag=cfg, timeout=1200, xmx="4g")
        if rv.violation != inv:
            raise vlib.ToolError("self-test: the remainder-degree check variant '%s' is not refuted (%s)" % (variant, rv.violation))
    log("[tlc] remainder-degree check: 'length' (pre-fix) refuted on completeness, 'domain' refuted on soundness, 'zerotail' holds on both")
    sched = [p for p in r.printed if p.get("kind") == "sched"]
    # the DefaultProverChannel used for the replay documents that it needs a domain of at least 8 points
    sched = [s for s in sched if s["ln"] + s["lb"] >= 3]
    if tier == "quick":
        small = [s for s in sched if s["ln"] <= 2]          # degree bounds 0, 1, 3: all of them
        sched = small[::2] + [s for s in sched if s["ln"] > 2 and s["ln"] + s["lb"] <= 10][::3]
    cases = []
    polys = ["random", "bound", "const", "zero"]
    for i, s in enumerate(sched):
        f, h, e = COMBOS[i % len(COMBOS)]
        d = 2 ** (s["ln"] + s["lb"])
        q = [1, 7, 32, 80][i % 4]
        q = min(q, d - 1)
        cases.append({"id": i, "field": f, "hasher": h, "ext": e, "ln": s["ln"], "lb": s["lb"], "fold": s["fold"], "rem": s["rem"],
                      "q": q, "poly": polys[i % 4], "strategy": "reuse" if i % 5 == 0 else "honest", "dup": i % 2 == 0, "seed": seed + i,
                      "model_layers": s["layers"]})
    # degree bounds whose number of coefficients is not a power of two (the verifier takes the bound as a number)
    bounds = [p for p in r.printed if p.get("kind") == "bound"]
    if tier == "quick":
        bounds = bounds[seed % 5::5]
    for s in bounds:
        i = len(cases)
        f, h, e = COMBOS[i % len(COMBOS)]
        d = next_pow2(s["m"]) * 2 ** s["lb"]
        cases.append({"id": i, "field": f, "hasher": h, "ext": e, "ln": 0, "ncoef": s["m"], "lb": s["lb"], "fold": s["fold"], "rem": s["rem"],
                      "q": min([1, 7, 32, 80][i % 4], d - 1), "poly": polys[(i // 4) % 4], "strategy": "reuse" if i % 5 == 0 else "honest", "dup": i % 2 == 0,
                      "seed": seed + i, "model_layers": s["layers"]})
    obs = run_cases(exe, cases, wd, "honest")
    ok = 0
    for c, o in zip(cases, obs):
        ctx = "degree bound %s, blowup %d, folding %d, remainder degree %d, %d queries, %s/%s/ext%d, polynomial %s" % (
            bound_text(c), 2 ** c["lb"], c["fold"], c["rem"], c["q"], c["field"], c["hasher"], c["ext"], c["poly"])
        if "prover_panic" in o:
            v.violation("fri/honest/prover-" + o["prover_panic"], "honest FRI prover fails on a well-formed schedule: %s (%s)" % (o["prover_panic"], ctx), c)
            continue
        if o.get("verify") == "ok" and o.get("verify_reuse", "ok") == "ok" and o.get("verify_reuse_other_size", "ok") != "ok":
            v.violation("fri/honest/reuse-other-size", "a prover instance reused for a domain of half the size does not give an accepted proof: %s (%s)" % (
                o.get("verify_reuse_other_size"), ctx), c)
        if o.get("verify") != "ok" or o.get("verify_reuse", "ok") != "ok":
            kind = (o.get("verify") if o.get("verify") != "ok" else "reuse:" + o.get("verify_reuse", "")).split(":")[0]
            v.violation("fri/honest/" + kind, "honest FRI proof not accepted: %s / reuse %s (%s)" % (o.get("verify"), o.get("verify_reuse"), ctx), c)
            continue
        if o.get("layers") != c["model_layers"]:
            v.violation("fri/honest/layer-count", "the prover builds %s layers, Fri.tla computes %s (%s)" % (o.get("layers"), c["model_layers"], ctx), c)
            continue
        ok += 1
    log("[replay] %d honest FRI runs (serialized proofs, duplicates, reuse), %d accepted" % (len(cases), ok))
    # the folding identity: apply_drp over ToyField for every folding factor, recomputed from the coefficient slices (Trace_Fold.tla)
    ftrace = os.path.join(wd, "fold.ndjson")
    rcf, outf, errf = vlib.run_harness(exe, ["fold", "--out", ftrace, "--maxlog", "6" if tier == "quick" else "8", "--seed", str(seed)])
    if rcf != 0:
        raise vlib.ToolError("fold harness rc=%s: %s" % (rcf, errf[-300:]))
    fold_events = json.loads(outf)["events"]
    rt = vlib.tlc_validate("Trace_Fold", "Trace_Fold", ftrace, tag="Trace_Fold", timeout=3000, xmx="4g")
    if not rt.ok:
        line, _ = vlib.rejected_event(rt.out)
        recs = open(ftrace).read().splitlines()
        ev = json.loads(recs[line - 1]) if 0 < line <= len(recs) else {}
        v.violation("fri/folding-identity/%s/N%s" % (ev.get("ev", "?"), ev.get("N", "?")),
                    "apply_drp / fold_positions disagrees with the folding definition (folding factor %s, %s evaluations, offset %s, challenge %s)" % (
                        ev.get("N"), ev.get("m"), ev.get("offset"), ev.get("alpha")), {"trace": ftrace, "line": line, "event": ev})
    log("[trace] %d folding events (factors 2/4/8/16, offsets 1/generator/other, random and boundary challenges): %s" % (fold_events, "accepted" if rt.ok else "REJECTED"))
    rc = v.finish()
    vlib.write_evidence(PID, tier, seed, "model_checking", {
        "states": r.distinct, "transitions": r.generated, "traces_validated_against_impl": len(cases) + fold_events,
        "samples": cases[:2] + [p for p in r.printed if p.get("kind") == "layout"][:2],
        "evaluations": len(cases), "distinct_nontrivial": len(cases),
        "bound_cases": len(bounds),
        "rule": "every well-formed (degree bound 2^k-1 and bounds with 3,5,6,7,9,11 x 2^j coefficients, blowup 2..128, folding 2/4/8/16, remainder degree 0..255) tuple of MC_Fri.tla with LDE size <= 2^%d%s; "
                "polynomial kinds random/bound/const/zero, query counts 1/7/32/80, duplicated and colliding positions on every second case" % (
                    10 if tier == "quick" else 14, " (every third)" if tier == "quick" else ""),
        "exhaustive": False, "accepted": ok,
        "known_finding_occurrences": v.n_known, "new_violations": v.n_new,
    }, time.time() - t0, violations=v.n_new,
        assumptions=["the folding identity (apply_drp = coefficient-slice definition, fold_positions = first-occurrence de-duplication) is recomputed by TLC over the harness "
                     "field F_40961 (Trace_Fold.tla, generic code); over the real fields it is exercised through prover/verifier consistency"])
    return rc


def replay(path):
    rec = json.load(open(path))
    exe = vlib.build_harness("dbg")
    print(json.dumps(run_cases(exe, [rec["replay"]], vlib.workdir(PID), "replay"), indent=1))
    return 1
