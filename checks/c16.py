"""C16 — constraints are enforced on exactly the intended steps.  (DESIGN.md section 6, C16)

R1  MC_Air: for every trace length 8..256, every well-formed assertion, every exemption count and a family of
    ill-formed candidates, TLC checks the implementation-shaped divisor/overlap/refusal transcriptions of Air.tla
    against the declarative step sets (exponent arithmetic modulo n).
R2  the same run prints every case with the specification's expectation (named steps, overlap row, well-formedness);
    the harness replays each case on the real ConstraintDivisor, BoundaryConstraints, TransitionConstraints,
    Assertion::overlaps_with and constructors, in the three base fields."""
import json, os, time
import vlib
from vlib import log

PID = "C16"


def run(tier, seed):
    t0 = time.time()
    v = vlib.Verdict(PID)
    wd = vlib.workdir(PID)
    exe = vlib.build_harness("dbg")
    pairlog = 7 if tier == "quick" else 8
    r = vlib.tlc_check("MC_Air", "MC_Air", workers=4, env={"AIR_MINLOG": 3, "AIR_MAXLOG": 8, "AIR_PAIRLOG": pairlog, "AIR_DEDUPFIRST": 0},
                       timeout=3000, xmx="8g")
    # non-vacuity of PrepareInv: the variant of prepare_assertions that de-duplicates by the ordering key before comparing is refuted
    rv = vlib.tlc_check("MC_Air", "MC_Air", workers=2, env={"AIR_MINLOG": 3, "AIR_MAXLOG": 3, "AIR_PAIRLOG": 3, "AIR_DEDUPFIRST": 1},
                        timeout=600, xmx="2g", tag="MC_Air_dedupfirst")
    if rv.ok or "PrepareInv" not in str(rv.violation):
        raise vlib.ToolError("Air.tla: the de-duplicate-first variant of prepare_assertions is not refuted by PrepareInv (%s)" % rv.violation)
    if not r.ok:
        v.violation("model/" + str(r.violation), "Air.tla: the transcription of divisors/overlap/refusal disagrees with the "
                    "declarative step sets: %s" % r.violation, {"tlc": r.out[-5000:]})
    cases = r.printed
    path = os.path.join(wd, "cases.ndjson")
    vlib.write_ndjson(path, cases)
    rc, out, err = vlib.run_harness(exe, ["air", "--scenarios", path, "--seed", str(seed)])
    if rc != 0:
        raise vlib.ToolError("air harness rc=%s: %s" % (rc, err))
    res = json.loads(out)
    for f in res["failures"]:
        v.violation(f["key"], f["what"] + " (%d occurrences)" % f["count"], f["replay"])
    log("[replay] %d cases %s, %d evaluations in 3 fields, %d overlap pair checks, %d failure keys" % (
        res["cases"], res["by_kind"], res["evaluations"], res["pair_checks"], len(res["failures"])))
    rc = v.finish()
    samples = [c for c in cases if c["kind"] == "transition"][:1] + \
              [{k: (c[k] if k != "overlaps" else c[k][:3]) for k in c} for c in cases if c["kind"] == "assertion" and c["a"]["kind"] == "sequence"][:2] + \
              [c for c in cases if c["kind"] == "candidate" and not c["wellformed"]][:2]
    vlib.write_evidence(PID, tier, seed, "model_checking", {
        "states": r.distinct, "transitions": r.generated,
        "traces_validated_against_impl": res["evaluations"],
        "samples": samples,
        "evaluations": res["evaluations"], "distinct_nontrivial": res["cases"],
        "rule": "one case per (trace length n in {8..256}, well-formed assertion | exemption count 1..n/2+1 | ill-formed candidate); "
                "each replayed in f62, f64, f128; overlap rows (all pairs, both columns) for n <= %d" % (2 ** pairlog),
        "exhaustive": tier == "thorough",
        "by_kind": res["by_kind"], "overlap_pair_checks": res["pair_checks"],
        "known_finding_occurrences": v.n_known, "new_violations": v.n_new,
    }, time.time() - t0, violations=v.n_new,
        assumptions=["a step is a zero of a divisor iff its numerator vanishes and its exemption product does not (DESIGN appendix D)",
                     "field arithmetic of the three base fields is used only for zero tests (its correctness is C07)"])
    return rc


def replay(path):
    rec = json.load(open(path))
    print(json.dumps(rec, indent=1)[:3000])
    return 1
