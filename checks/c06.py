"""C06 — untrusted input.  Shares the mutation machinery of c03.py (see its docstring); judges panics/aborts."""
import c03


def run(tier, seed):
    return c03.run(tier, seed, pid="C06")


def replay(path):
    return c03.replay(path)
