"""C07 — base fields: arithmetic equals integer arithmetic modulo the prime.  (DESIGN.md section 6, C07)

R2  Gen_Field: TLC materialises the boundary operand classes of the property as integers (BigNat byte arithmetic on the
    modulus) and generates (a) every binary operation on every ordered pair of boundary operands, every unary operation,
    exponentiations and small multiplications, with operands both as residues and as Montgomery images, (b) random
    operation sequences over four registers.
R3  the harness executes them on the real field types and records every result; Trace_Field.tla recomputes each result
    with integer arithmetic modulo the prime (PrimeField.tla), requires the canonical form (integer below the modulus,
    exactly those serialized bytes), representation independence (== / serialization / hash against a freshly constructed
    element of the same residue, and == between registers exactly when the residues are equal), and checks the published
    constants (modulus formula, two-adicity, root of unity of exact order, generator by the Lucas criterion)."""
import json, os, subprocess, time
import vlib
from vlib import log

PID = "C07"
FIELDS = ["f62", "f64", "f128"]


def gen(field, mode, depth, seed, simulate=None):
    r = vlib.run_tlc("Gen_Field", "Gen_Field_" + field, workers=1 if simulate else 4, env={"GF_MODE": mode, "GF_DEPTH": depth},
                     simulate=simulate, depth=depth + 3 if simulate else None, seed=seed % 100000, tag="Gen_Field_%s_%s" % (field, mode), xmx="4g")
    scns = [p for p in r.printed if "inits" in p]
    return r, sorted(scns, key=lambda x: json.dumps(x, sort_keys=True))


def shard_trace(path, nshards, wd, field):
    lines = open(path).read().splitlines()
    header, body = lines[0], lines[1:]
    groups, cur = [], []
    for ln in body:
        if '"ev":"init"' in ln and cur and '"ev":"init"' not in cur[-1]:
            groups.append(cur)
            cur = []
        cur.append(ln)
    if cur:
        groups.append(cur)
    files = []
    for k in range(nshards):
        part = [x for g in groups[k::nshards] for x in g]
        if not part:
            continue
        p = os.path.join(wd, "trace_%s_%d.ndjson" % (field, k))
        open(p, "w").write("\n".join([header] + part) + "\n")
        files.append(p)
    return files, len(body)


def run(tier, seed):
    t0 = time.time()
    v = vlib.Verdict(PID)
    wd = vlib.workdir(PID)
    exe = vlib.build_harness("dbg")
    exe_rel = vlib.build_harness("rel")
    states = trans = events = accepted = nscn = nscreen = 0
    jobs = []
    samples = []
    for field in FIELDS:
        r1, pairs = gen(field, "pairs", 0, seed)
        r2, rnd = gen(field, "random", 8, seed, simulate=40 if tier == "quick" else 1500)
        states += r1.distinct + r2.distinct
        trans += r1.generated + r2.generated
        if tier == "quick":
            pairs = pairs[seed % 24::24]
        # mass screening (release build, 16 threads): uniformly random operands through identities in the library's own
        # operations; every operand set that fails one becomes a scenario (plus a few that do not), decided by TLC like the rest
        nsc = {"f62": 64, "f64": 128, "f128": 16}[field] * (1000000 if tier == "quick" else 12000000)
        rc, out, err = vlib.run_harness(exe_rel, ["fieldscreen", "--field", field, "--n", str(nsc), "--seed", str(seed), "--threads", "16"], timeout=3000)
        if rc != 0:
            raise vlib.ToolError("fieldscreen rc=%s: %s" % (rc, err[-400:]))
        scr = [json.loads(l) for l in out.splitlines() if l.strip()]
        nscreen += nsc
        log("[screen] %s: %d random operand pairs screened, %d suspect operand sets handed to TLC (+%d controls)" % (
            field, nsc, sum(1 for x in scr if x["suspect"]), sum(1 for x in scr if not x["suspect"])))
        rcv = vlib.run_tlc("Gen_Field", "Gen_Field_" + field, workers=1, env={"GF_MODE": "convs", "GF_DEPTH": 0}, tag="Gen_Field_%s_convs" % field, xmx="2g")
        convs = [p for p in rcv.printed if "convs" in p]
        if len(convs) != 1:
            raise vlib.ToolError("Gen_Field (convs) printed %d records" % len(convs))
        states += rcv.distinct
        scns = pairs + rnd + [{"inits": x["inits"], "ops": x["ops"]} for x in scr] + convs
        nscn += len(scns)
        samples.append({"field": field, "scenario": {"inits": scns[0]["inits"], "ops": scns[0]["ops"][:5]}})
        sp = os.path.join(wd, "scn_%s.ndjson" % field)
        vlib.write_ndjson(sp, scns)
        tp = os.path.join(wd, "trace_%s.ndjson" % field)
        try:
            rc, out, err = vlib.run_harness(exe, ["field", "--scenarios", sp, "--field", field, "--out", tp], timeout=120 if tier == "quick" else 900)
        except vlib.ToolError:
            last = open(tp + ".progress").read().splitlines()[-1:] if os.path.exists(tp + ".progress") else ["?"]
            v.violation("field/%s/hang/%s" % (field, (last[0].split(" ")[5] if last and len(last[0].split(" ")) > 5 else "?")),
                        "a field operation does not terminate: %s" % last[0], {"progress": last})
            continue
        if rc != 0:
            raise vlib.ToolError("field harness rc=%s: %s" % (rc, err[-400:]))
        # the 128-bit field costs TLC about ten times as much per event (limb arithmetic on 16-byte operands)
        files, n = shard_trace(tp, 10 if field == "f128" else 3, wd, field)
        events += n
        log("[harness] %s: %d scenarios (%d boundary-pair, %d random), %d events" % (field, len(scns), len(pairs), len(rnd), n))
        jobs += [(field, f) for f in files]

    def validate(job):
        field, f = job
        return job, vlib.tlc_validate("Trace_Field", "Trace_Field_" + field, f, tag="Trace_Field_" + os.path.basename(f), timeout=3300, xmx="3g")

    for (field, f), rt in vlib.parallel(validate, jobs, max_workers=16):
        states += rt.distinct
        trans += rt.generated
        if rt.ok:
            accepted += 1
            continue
        line, _ = vlib.rejected_event(rt.out)
        recs = open(f).read().splitlines()
        ev = json.loads(recs[line - 1]) if 0 < line <= len(recs) else {}
        what = ev.get("op", ev.get("ev", "?"))
        if ev.get("ev") == "conv":
            v.violation("field/%s/conv" % field, "%s: an integer <-> element conversion of the integer %s disagrees with integer arithmetic modulo the prime: to the field %s, from the field (element %s) %s" % (
                field, ev.get("v"), [(c["name"], c["ok"], c["r"]) for c in ev.get("to", [])], ev.get("elem"), [(c["name"], c["ok"], c["r"]) for c in ev.get("from", [])]),
                {"trace": f, "line": line, "event": ev})
            continue
        flags = [k for k in ("fresh_eq", "ser_eq", "hash_eq", "bytes_eq") if ev.get(k) is False]
        kind = "representation" if flags else ("constants" if ev.get("ev") == "field" else ("panic" if ev.get("ev") == "panic" else "value"))
        v.violation("field/%s/%s/%s" % (field, what, kind),
                    "%s: operation '%s' on a=%s b=%s e=%s gives r=%s: %s" % (
                        field, what, ev.get("a"), ev.get("b"), ev.get("e"), ev.get("r"),
                        ("the result does not behave like the canonical element of its residue (%s false)" % ",".join(flags)) if flags else
                        "not the value of integer arithmetic modulo the prime / not canonical / equality matrix inconsistent with residues"),
                    {"trace": f, "line": line, "event": {k: x for k, x in ev.items() if k not in ("regs", "eqm")}})
    log("[trace] %d events in %d shards, %d accepted" % (events, len(jobs), accepted))
    rc = v.finish()
    vlib.write_evidence(PID, tier, seed, "model_checking", {
        "states": states, "transitions": trans, "traces_validated_against_impl": accepted,
        "samples": samples, "evaluations": events, "distinct_nontrivial": nscn,
        "rule": "per field: boundary-pair scenarios (20 operand classes squared x residue/Montgomery image, every operation incl. 10 exponents and 6 small "
                "multipliers)%s plus every integer <-> element conversion on ~40 integers up to 128 bits (type widths, modulus multiples, low word canonical), plus random 8-operation sequences, plus the operand sets singled out by mass screening; every event recomputed by TLC" % (" (every 24th in the quick tier)" if tier == "quick" else ""),
        "exhaustive": False, "shards_accepted": accepted, "shards": len(jobs), "screened_random_operand_pairs": nscreen,
        "known_finding_occurrences": v.n_known, "new_violations": v.n_new,
    }, time.time() - t0, violations=v.n_new,
        assumptions=["the listed prime factors of M-1 are prime (trusted data); everything else of the Lucas certificate is evaluated by TLC",
                     "from_mont is used with canonical images only (it documents that its argument is a Montgomery representation)",
                     "hash equality is observed with Blake3_256::hash_elements of one-element slices"])
    return rc


def replay(path):
    print(open(path).read()[:3000])
    return 1
