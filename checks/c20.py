"""C20 — polynomial arithmetic and batch utilities satisfy their algebraic identities.  (DESIGN.md section 6, C20)

R2  Gen_Poly: TLC enumerates (strided) all pairs of polynomials with up to four coefficients over {0, 1, p-1, 7, 12345} -
    including zero leading / trailing coefficients - with a scalar, a divisor x^a - b (b = 1 and b # 1, a = 1..3), a point
    set of 1..8 points, and the vector lengths around the batching threshold with zeros at chosen positions.
R3  the harness runs winter-math's polynom::{add, sub, mul, mul_by_scalar, div, syn_div, syn_div_roots_in_place, eval,
    eval_many, interpolate, interpolate_batch, poly_from_roots, degree_of, remove_leading_zeros} and get_power_series(_with_
    offset), add_in_place, mul_acc, batch_inversion over ToyField; Trace_Poly.tla checks each result against its defining
    identity (quotient*divisor + remainder of lower degree = dividend, interpolation inverts evaluation, x*inv(x) = 1 ...)."""
import json, os, re, time
import vlib
from vlib import log

PID = "C20"


def run(tier, seed):
    t0 = time.time()
    v = vlib.Verdict(PID)
    wd = vlib.workdir(PID)
    exe = vlib.build_harness("dbg")
    r = vlib.run_tlc("Gen_Poly", "Gen_Poly", workers=4, env={"GP_STRIDE": 211 if tier == "quick" else 7}, tag="Gen_Poly", xmx="6g", timeout=1800)
    cfgs = sorted([p for p in r.printed if "kind" in p], key=lambda x: json.dumps(x, sort_keys=True))
    nsh = 8
    jobs, events, panics = [], 0, []
    for k in range(nsh):
        part = cfgs[k::nsh]
        if not part:
            continue
        sp = os.path.join(wd, "cfg_%d.ndjson" % k)
        vlib.write_ndjson(sp, part)
        tp = os.path.join(wd, "trace_%d.ndjson" % k)
        rc, out, err = vlib.run_harness(exe, ["poly", "--scenarios", sp, "--out", tp, "--seed", str(seed + k)], timeout=900)
        if rc != 0:
            raise vlib.ToolError("poly harness rc=%s: %s" % (rc, err[-400:]))
        panics += json.loads(out)["panics"]
        events += sum(1 for _ in open(tp))
        jobs.append(tp)
    for p in panics:
        v.violation("poly/panic/" + p["what"], "a polynomial utility panics on an admissible input %s: %s" % (p["cfg"][:200], p["what"]), p)

    def validate(tp):
        return tp, vlib.tlc_validate("Trace_Poly", "Trace_Poly", tp, tag="Trace_Poly_" + os.path.basename(tp), timeout=3300, xmx="4g")

    states, trans, accepted = r.distinct, r.generated, 0
    for tp, rt in vlib.parallel(validate, jobs, max_workers=8):
        states += rt.distinct
        trans += rt.generated
        if rt.ok:
            accepted += 1
            continue
        m = re.search(r'TRACE-REJECTED at line",\s*(\d+)', rt.out)
        line = int(m.group(1)) if m else -1
        recs = open(tp).read().splitlines()
        ev = json.loads(recs[line - 1]) if 0 < line <= len(recs) else {}
        small = {k: (x if not isinstance(x, list) or len(x) <= 12 else x[:12] + ["..."]) for k, x in ev.items()}
        v.violation("poly/%s/identity" % ev.get("ev", "?"),
                    "a polynomial/batch utility violates its defining identity (event %s: a=%s b=%s k=%s len=%s)" % (
                        ev.get("ev"), ev.get("a"), ev.get("b"), ev.get("k"), ev.get("len")), {"trace": tp, "line": line, "event": small})
    log("[trace] %d operand sets, %d events, %d/%d shards accepted" % (len(cfgs), events, accepted, len(jobs)))
    rc = v.finish()
    vlib.write_evidence(PID, tier, seed, "model_checking", {
        "states": states, "transitions": trans, "traces_validated_against_impl": accepted,
        "samples": cfgs[:1] + cfgs[-2:], "evaluations": events * 16, "distinct_nontrivial": len(cfgs),
        "rule": "pairs of polynomials (<= 4 coefficients over {0,1,p-1,7,12345}) thinned by stride %d, each with scalar, divisor x^a-b, 1..8 points, batch interpolation rows; "
                "vector lengths 1,2,3,16,1023,1024,1025,2048 with zeros nowhere / at both ends / at every third position" % (211 if tier == "quick" else 7),
        "exhaustive": False, "shards_accepted": accepted,
        "known_finding_occurrences": v.n_known, "new_violations": v.n_new,
    }, time.time() - t0, violations=v.n_new,
        assumptions=["checked over ToyField (generic code); panics on inputs the documentation excludes (empty polynomials, zero divisor, divisor of higher degree) are outside the claim"])
    return rc


def replay(path):
    print(open(path).read()[:3000])
    return 1
