"""C20 — polynomial arithmetic and batch utilities satisfy their algebraic identities.  (DESIGN.md section 6, C20)

R2  Gen_Poly: TLC enumerates (strided) all pairs of polynomials with up to four coefficients over {0, 1, p-1, 7, 12345} -
    including zero leading / trailing coefficients - with a scalar, a divisor x^a - b (b = 1 and b # 1, a = 1..3), a point
    set of 1..8 points, and the vector lengths around the batching threshold with zeros at chosen positions.
R3  the harness runs winter-math's polynom::{add, sub, mul, mul_by_scalar, div, syn_div, syn_div_roots_in_place, eval,
    eval_many, interpolate, interpolate_batch, poly_from_roots, degree_of, remove_leading_zeros} and get_power_series(_with_
    offset), add_in_place, mul_acc, batch_inversion over ToyField; Trace_Poly.tla checks each result against its defining
    identity (quotient*divisor + remainder of lower degree = dividend, interpolation inverts evaluation, x*inv(x) = 1 ...).
R3' a thinned subset of the same operand sets lifted into f62 / f64 / f128 and their quadratic / cubic extensions (harness
    `polyf`); Trace_PolyF.tla checks the same identities in the generic algebra PolyAlg.tla instantiated with the field
    arithmetic of ExtField.tla on BigNat (Deg = 1: the base field)."""
import json, os, re, time
import vlib
from vlib import log

PID = "C20"


def run(tier, seed):
    t0 = time.time()
    v = vlib.Verdict(PID)
    wd = vlib.workdir(PID)
    exe = vlib.build_harness("dbg")
    r = vlib.run_tlc("Gen_Poly", "Gen_Poly", workers=4, env={"GP_STRIDE": 211 if tier == "quick" else 7}, tag="Gen_Poly", xmx="6g", timeout=1800)
    cfgs = sorted([p for p in r.printed if "kind" in p], key=lambda x: json.dumps(x, sort_keys=True))
    nsh = 8
    jobs, events, panics = [], 0, []
    for k in range(nsh):
        part = cfgs[k::nsh]
        if not part:
            continue
        sp = os.path.join(wd, "cfg_%d.ndjson" % k)
        vlib.write_ndjson(sp, part)
        tp = os.path.join(wd, "trace_%d.ndjson" % k)
        rc, out, err = vlib.run_harness(exe, ["poly", "--scenarios", sp, "--out", tp, "--seed", str(seed + k)], timeout=900)
        if rc != 0:
            raise vlib.ToolError("poly harness rc=%s: %s" % (rc, err[-400:]))
        panics += json.loads(out)["panics"]
        events += sum(1 for _ in open(tp))
        jobs.append(tp)
    for p in panics:
        v.violation("poly/panic/" + p["what"], "a polynomial utility panics on an admissible input %s: %s" % (p["cfg"][:200], p["what"]), p)

    # real fields and extensions: every k-th operand set (all vector lengths <= 16 and the three lengths around the batching
    # threshold), one trace per (field, degree)
    polys = [c for c in cfgs if c["kind"] == "polys" and len(c["a"]) <= 13]
    longs = [c for c in cfgs if c["kind"] == "polys" and len(c["a"]) in (17, 33) and c["npts"] == len(c["a"])]
    vecs = [c for c in cfgs if c["kind"] == "vectors" and (c["len"] <= 16 or c["len"] in (1023, 1024, 1025))]
    fjobs, fevents = [], 0
    FD = [("f64", 1), ("f64", 2), ("f64", 3), ("f62", 1), ("f62", 2), ("f62", 3), ("f128", 1), ("f128", 2)]
    for j, (fld, deg) in enumerate(FD):
        npol = {1: 30, 2: 12, 3: 6}[deg] * (1 if tier == "quick" else 12)
        nvec = {1: 6, 2: 3, 3: 2}[deg] * (1 if tier == "quick" else 6)
        step = max(1, len(polys) // npol)
        part = polys[(j * 7) % step::step][:npol] + (longs[j % 2::2][:1 if tier == "quick" else 4] if deg == 1 else []) + [vecs[(j * 5 + i * 7) % len(vecs)] for i in range(min(nvec, len(vecs)))]
        sp = os.path.join(wd, "fcfg_%s_%d.ndjson" % (fld, deg))
        vlib.write_ndjson(sp, part)
        tp = os.path.join(wd, "ftrace_%s_%d.ndjson" % (fld, deg))
        rc, out, err = vlib.run_harness(exe, ["polyf", "--scenarios", sp, "--field", fld, "--deg", str(deg), "--out", tp, "--seed", str(seed + j)], timeout=900)
        if rc != 0:
            raise vlib.ToolError("polyf harness rc=%s: %s" % (rc, err[-400:]))
        for p in json.loads(out)["panics"]:
            v.violation("poly/panic/" + p["what"], "a polynomial utility panics on an admissible input over %s degree %d: %s: %s" % (fld, deg, p["cfg"][:200], p["what"]), p)
        fevents += sum(1 for _ in open(tp)) - 1
        fjobs.append((fld, deg, tp))

    def validate(tp):
        if isinstance(tp, tuple):
            fld, deg, path = tp
            return path, vlib.tlc_validate("Trace_PolyF", "Trace_PolyF_%s_%d" % (fld, deg), path, tag="Trace_PolyF_%s_%d" % (fld, deg), timeout=3300, xmx="4g")
        return tp, vlib.tlc_validate("Trace_Poly", "Trace_Poly", tp, tag="Trace_Poly_" + os.path.basename(tp), timeout=3300, xmx="4g")

    states, trans, accepted = r.distinct, r.generated, 0
    for tp, rt in vlib.parallel(validate, fjobs + jobs, max_workers=16):
        states += rt.distinct
        trans += rt.generated
        if rt.ok:
            accepted += 1
            continue
        m = re.search(r'TRACE-REJECTED at line",\s*(\d+)', rt.out)
        line = int(m.group(1)) if m else -1
        recs = open(tp).read().splitlines()
        ev = json.loads(recs[line - 1]) if 0 < line <= len(recs) else {}
        small = {k: (x if not isinstance(x, list) or len(x) <= 12 else x[:12] + ["..."]) for k, x in ev.items()}
        v.violation("poly/%s/identity" % ev.get("ev", "?"),
                    "a polynomial/batch utility violates its defining identity (event %s: a=%s b=%s k=%s len=%s)" % (
                        ev.get("ev"), ev.get("a"), ev.get("b"), ev.get("k"), ev.get("len")), {"trace": tp, "line": line, "event": small})
    log("[trace] %d operand sets, %d events over ToyField + %d events over the real fields / extensions, %d/%d traces accepted" % (
        len(cfgs), events, fevents, accepted, len(jobs) + len(fjobs)))
    rc = v.finish()
    vlib.write_evidence(PID, tier, seed, "model_checking", {
        "states": states, "transitions": trans, "traces_validated_against_impl": accepted,
        "samples": cfgs[:1] + cfgs[-2:], "evaluations": events * 16, "distinct_nontrivial": len(cfgs),
        "rule": "pairs of polynomials (<= 4 coefficients over {0,1,p-1,7,12345}) thinned by stride %d, dividends of 5..13 and operands of 14..65 coefficients, each with scalar, divisor x^a-b, "
                "point sets of 1..8 points (and up to 65 for the long operands) with x = 0 at every position, batch interpolation rows; "
                "vector lengths 1,2,3,16,1023,1024,1025,2048 with zeros nowhere / at both ends / at every third position" % (211 if tier == "quick" else 7),
        "exhaustive": False, "shards_accepted": accepted, "real_field_events": fevents,
        "real_fields": "f62, f64, f128 and their quadratic / cubic extensions (8 field x degree combinations), operands lifted from the same generator",
        "known_finding_occurrences": v.n_known, "new_violations": v.n_new,
    }, time.time() - t0, violations=v.n_new,
        assumptions=["breadth over ToyField (generic code), a thinned subset over the real fields and extensions; panics on inputs the documentation excludes (empty polynomials, zero divisor, divisor of higher degree) are outside the claim"])
    return rc


def replay(path):
    print(open(path).read()[:3000])
    return 1
