"""C11 — hash functions implement their specification on every input.  (DESIGN.md section 6, C11)

Part A (six hashers, Trace_Hash.tla / Hash.tla): totality and determinism of hash() on byte strings of every length
        0..maxlen (three rate blocks), sensitivity to length and trailing zero bytes, hash_elements independent of internal
        representation and of base/extension typing and equal to hashing the canonical bytes (Blake3, SHA3), merge = hash of
        the concatenation, merge_with_int injective over integers below / at / above the modulus.
Part B (Rescue sponges, Trace_Rescue.tla): 7-byte chunking with the padded last chunk, capacity initialisation with the
        number of elements, absorption of every element exactly once at the right rate position, one permutation per
        (partial) block, digest positions - validated against the library's digests with its permutation as observed oracle.
Part C (Rescue permutations, Trace_Rescue.tla over PrimeField.tla): every round of the real permutation equals S-box, MDS
        matrix product, round constants, inverse S-box, MDS, round constants with the pinned published tables, on states with
        boundary limbs in every position and random states; the permutation is the seven rounds; all elements canonical."""
import json, os, re, time
import vlib
from vlib import log

PID = "C11"
RESCUE = [("rp64_256", 6, 24), ("rpjive64_256", 6, 24), ("rp62_248", 1, 4)]   # (hasher, states quick, states thorough)


def run(tier, seed):
    t0 = time.time()
    v = vlib.Verdict(PID)
    wd = vlib.workdir(PID)
    exe = vlib.build_harness("dbg")
    rc, out, err = vlib.run_harness(exe, ["hash", "--out", wd, "--maxlen", "180" if tier == "quick" else "400", "--seed", str(seed)], timeout=900)
    if rc != 0:
        raise vlib.ToolError("hash harness rc=%s: %s" % (rc, err[-400:]))
    files_a = json.loads(out)["files"]
    jobs = [("A", f["hasher"], f["path"], "Trace_Hash", "Trace_Hash") for f in files_a]
    for h, nq, nt in RESCUE:
        sub = os.path.join(wd, "rescue_" + h)
        os.makedirs(sub, exist_ok=True)
        n = nq if tier == "quick" else nt
        rc, out, err = vlib.run_harness(exe, ["rescue", "--out", sub, "--states", str(n), "--seed", str(seed)], timeout=900)
        if rc != 0:
            raise vlib.ToolError("rescue harness rc=%s: %s" % (rc, err[-400:]))
        p = os.path.join(sub, "rescue_%s.ndjson" % h)
        lines = open(p).read().splitlines()
        hdr, body = lines[0], lines[1:]
        nsh = 1 if h == "rp62_248" and tier == "quick" else 4
        for k in range(nsh):
            part = body[k::nsh]
            if part:
                sp = os.path.join(sub, "shard_%d.ndjson" % k)
                open(sp, "w").write("\n".join([hdr] + part) + "\n")
                jobs.append(("BC", h, sp, "Trace_Rescue", "Trace_Rescue_" + h))

    def validate(job):
        part, h, path, mod, cfg = job
        return job, vlib.tlc_validate(mod, cfg, path, tag="%s_%s_%s" % (mod, h, os.path.basename(path)), timeout=3300, xmx="3g")

    states = trans = events = accepted = 0
    samples = []
    for (part, h, path, mod, cfg), rt in vlib.parallel(validate, jobs, max_workers=14):
        recs = open(path).read().splitlines()
        events += len(recs)
        states += rt.distinct
        trans += rt.generated
        if rt.ok:
            accepted += 1
            continue
        m = re.search(r'TRACE-REJECTED at line",\s*(\d+)', rt.out)
        line = int(m.group(1)) if m else -1
        ev = json.loads(recs[line - 1]) if 0 < line <= len(recs) else {}
        small = {k: (x if not isinstance(x, list) or len(x) <= 8 else x[:8] + ["..."]) for k, x in ev.items() if k not in ("chain", "pre", "post", "mds", "ark1", "ark2", "inv_mds", "canonical")}
        kind = ev.get("ev", "?")
        what = {"panic": "%s panics on an input of length %s: %s" % (ev.get("fn"), ev.get("len"), ev.get("what")),
                "bytes": "hash() of a byte string of length %s is not deterministic / does not distinguish a trailing zero byte or a shorter string / collides" % ev.get("len"),
                "elements": "hash_elements depends on the representation or typing of the elements, or differs from hashing their canonical bytes",
                "merge": "merge is not the hash of the concatenation / ignores the order",
                "merge_int": "merge_with_int is not injective in the integer / not the hash of seed and integer",
                "consts": "the constants of the hash function differ from the pinned published tables (or alpha * inv_alpha # 1, MDS * INV_MDS # I)",
                "perm": "a round of the Rescue permutation differs from its reference definition, the permutation is not its seven rounds, or a state element is not canonical",
                "sponge": "the sponge (chunking/padding, capacity, absorption positions, number of permutations, digest positions) differs from its definition"}.get(kind, "trace rejected")
        v.violation("hash/%s/%s%s" % (h, kind, "/" + ev.get("fn", "") if kind == "panic" else ""), "%s: %s" % (h, what), {"trace": path, "line": line, "event": small})
    if files_a:
        samples = [json.loads(x) for x in open(files_a[0]["path"]).read().splitlines()[1:3]]
    log("[trace] %d events in %d traces/shards (part A: 6 hashers; parts B, C: 3 Rescue hashers), %d accepted" % (events, len(jobs), accepted))
    rc = v.finish()
    vlib.write_evidence(PID, tier, seed, "model_checking", {
        "states": states, "transitions": trans, "traces_validated_against_impl": accepted,
        "samples": samples, "evaluations": events, "distinct_nontrivial": events,
        "rule": "part A: byte strings of every length 0..%d, element lists of 0..50 elements around the rate boundaries, 8 digest pairs, 14 integers around the modulus, per hasher; "
                "part B: 10 element lists and 17 byte strings per Rescue sponge; part C: %s permutations (7 rounds each) on boundary-limb and random states" % (
                    180 if tier == "quick" else 400, [(h, nq if tier == "quick" else nt) for h, nq, nt in RESCUE]),
        "exhaustive": False, "accepted": accepted, "jobs": len(jobs),
        "known_finding_occurrences": v.n_known, "new_violations": v.n_new,
    }, time.time() - t0, violations=v.n_new,
        assumptions=["blake3 and sha3 crates are uninterpreted (not re-implemented)", "Rescue constants are a pinned copy of the published tables (spec/RescueConsts.tla)",
                     "the Jive compression mode of RpJive64_256 (merge / hash_elements) is covered by part A only; its permutation by part C",
                     "in part B the permutation is an observed oracle; its correctness is part C"])
    return rc


def replay(path):
    print(open(path).read()[:3000])
    return 1
