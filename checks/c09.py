"""C09 — FFT, interpolation and LDE equal direct polynomial evaluation.  (DESIGN.md section 6, C09)

R2  Gen_FFT: the configuration space of the transforms (sizes 2^1..2^11 crossing the recursion-strategy and concurrency
    thresholds, blowups 1..128 as the toy field's two-adicity allows, offsets 1 / generator / other; matrices of 1..255
    columns, multiples and non-multiples of the segment width).
R3  the harness runs the repository's generic transform code over ToyField (p = 40961): evaluate_poly,
    evaluate_poly_with_offset, interpolate_poly(_with_offset), infer_degree, RowMatrix::evaluate_polys(_over)::<8>,
    ColMatrix::evaluate_columns_over / interpolate_columns; Trace_FFT.tla recomputes every listed output position by Horner
    evaluation at offset * w^i (all positions up to a size bound, 256 seeded positions beyond)."""
import json, os, time
import vlib
from vlib import log

PID = "C09"


def run(tier, seed):
    t0 = time.time()
    v = vlib.Verdict(PID)
    wd = vlib.workdir(PID)
    exe = vlib.build_harness("dbg")
    r = vlib.run_tlc("Gen_FFT", "Gen_FFT", workers=2, env={"FFT_MAXLOG": 9 if tier == "quick" else 11}, tag="Gen_FFT")
    cfgs = sorted([p for p in r.printed if "kind" in p], key=lambda x: json.dumps(x, sort_keys=True))
    if tier == "quick":
        cfgs = cfgs[seed % 2::2]
    nsh = 8
    jobs = []
    events = 0
    panics = []
    for k in range(nsh):
        part = cfgs[k::nsh]
        if not part:
            continue
        sp = os.path.join(wd, "cfg_%d.ndjson" % k)
        vlib.write_ndjson(sp, part)
        tp = os.path.join(wd, "trace_%d.ndjson" % k)
        rc, out, err = vlib.run_harness(exe, ["fft", "--scenarios", sp, "--out", tp, "--seed", str(seed + k),
                                              "--full-upto", "512" if tier == "quick" else "4096"], timeout=900)
        if rc != 0:
            raise vlib.ToolError("fft harness rc=%s: %s" % (rc, err[-400:]))
        panics += json.loads(out)["panics"]
        events += sum(1 for _ in open(tp))
        jobs.append(tp)
    for p in panics:
        v.violation("fft/panic/" + p["what"], "a transform panics on an admissible configuration %s: %s" % (p["cfg"], p["what"]), p)

    # sizes beyond the toy field's two-adicity: sparse polynomials over the real fields, Trace_FFTBig.tla (BigNat exponentiation)
    big = [("f64", "15,16"), ("f64", "14,17"), ("f128", "16"), ("f62", "16")] if tier == "quick" else [
        ("f64", "14,15"), ("f64", "16"), ("f64", "17"), ("f64", "18"), ("f128", "14,15"), ("f128", "16,17"), ("f62", "14,15"), ("f62", "16,17")]
    big_events = 0
    for k, (fld, logs) in enumerate(big):
        tp = os.path.join(wd, "big_%s_%d.ndjson" % (fld, k))
        rc, out, err = vlib.run_harness(exe, ["fftbig", "--field", fld, "--logs", logs, "--out", tp, "--seed", str(seed + k),
                                              "--samples", "6" if tier == "quick" else "18"], timeout=1800)
        if rc != 0:
            raise vlib.ToolError("fftbig harness rc=%s: %s" % (rc, err[-400:]))
        panics += [dict(p, big=True) for p in json.loads(out)["panics"]]
        big_events += sum(1 for _ in open(tp))
        jobs.append(tp)
    for p in panics:
        if p.get("big"):
            v.violation("fft/panic/" + p["what"], "a transform panics on an admissible configuration %s: %s" % (p["cfg"], p["what"]), p)

    def validate(tp):
        base = os.path.basename(tp)
        if base.startswith("big_"):
            fld = base.split("_")[1]
            return tp, vlib.tlc_validate("Trace_FFTBig", "Trace_FFTBig_" + fld, tp, tag="Trace_FFTBig_" + base, timeout=3300, xmx="4g")
        return tp, vlib.tlc_validate("Trace_FFT", "Trace_FFT", tp, tag="Trace_FFT_" + os.path.basename(tp), timeout=3300, xmx="4g")

    states = r.distinct
    trans = r.generated
    accepted = 0
    sample = []
    for tp, rt in vlib.parallel(validate, jobs, max_workers=12):
        states += rt.distinct
        trans += rt.generated
        if rt.ok:
            accepted += 1
            continue
        import re
        m = re.search(r'TRACE-REJECTED at line",\s*(\d+)', rt.out)
        line = int(m.group(1)) if m else -1
        recs = open(tp).read().splitlines()
        ev = json.loads(recs[line - 1]) if 0 < line <= len(recs) else {}
        small = {k: (x if not isinstance(x, list) or len(x) <= 16 else x[:16] + ["..."]) for k, x in ev.items() if k != "polys"}
        if ev.get("logn"):
            ev = dict(ev, n="2^%s over %s" % (ev["logn"], ev.get("field")), blowup="2^%s" % (ev.get("logN", ev["logn"]) - ev["logn"]))
            small = {k: x for k, x in ev.items() if k not in ("samples", "nonzero")}
        v.violation("fft/%s/wrong-values" % ev.get("fn", "?"),
                    "%s (n=%s, blowup=%s, offset=%s, %s columns) does not return the values of direct evaluation at offset*w^i / the interpolating polynomial / the true degree" % (
                        ev.get("fn"), ev.get("n"), ev.get("blowup"), ev.get("offset"), ev.get("cols", 1)), {"trace": tp, "line": line, "event": small})
    if jobs:
        first = json.loads(open(jobs[0]).readline())
        sample = [{k: (x if not isinstance(x, list) or len(x) <= 8 else x[:8] + ["..."]) for k, x in first.items()}]
    log("[trace] %d configurations, %d transform events + %d events of transforms of 2^14..2^18 elements, %d/%d shards accepted" % (len(cfgs), events, big_events, accepted, len(jobs)))
    rc = v.finish()
    vlib.write_evidence(PID, tier, seed, "model_checking", {
        "states": states, "transitions": trans, "traces_validated_against_impl": accepted,
        "samples": sample + cfgs[:2], "evaluations": events + big_events, "big_transform_events": big_events, "big_transform_shards": big, "distinct_nontrivial": len(cfgs),
        "rule": "configurations of Gen_FFT.tla (vector: log size 1..%d x blowup x offset class; matrix: 1..255 columns x sizes x blowups); random / low-degree / constant "
                "coefficient data; outputs recomputed at all positions up to %d outputs, at 256 seeded positions beyond; transforms of 2^14..2^%d elements of sparse polynomials over f62/f64/f128 "
                "recomputed at seeded output positions by modular exponentiation (Trace_FFTBig)" % (9 if tier == "quick" else 11, 512 if tier == "quick" else 4096, 17 if tier == "quick" else 18),
        "exhaustive": False, "shards_accepted": accepted,
        "known_finding_occurrences": v.n_known, "new_violations": v.n_new,
    }, time.time() - t0, violations=v.n_new,
        assumptions=["dense polynomials of every size up to 2^11 run over ToyField (p = 40961, two-adicity 13); sizes 2^14..2^18 run over the real fields with sparse polynomials "
                     "and sampled output positions; the fields' own arithmetic is covered by C07/C08", "the LDE matrix variants require a blowup of at least 2"])
    return rc


def replay(path):
    print(open(path).read()[:3000])
    return 1
