"""C19 — public coin contract.  (DESIGN.md section 6, C19)

R1/R2  Gen_Coin: the abstract coin (Coin.tla) as a state machine; TLC checks freshness of outputs and prints every
       history of the bounded alphabet as a scenario.
R3     the harness runs every history on DefaultRandomCoin over a recording hasher for all six hash functions and
       Trace_Coin.tla validates each operation against the specification: hash calls, seed/counter evolution, the bytes
       that make each drawn value (canonical, below the modulus), exactly m integers each below the domain size, the
       proof-of-work measure; and across all histories: equal abstract state <=> equal subsequent outputs."""
import json, os, re, time
import vlib
from vlib import log

PID = "C19"


def run(tier, seed):
    t0 = time.time()
    v = vlib.Verdict(PID)
    wd = vlib.workdir(PID)
    exe = vlib.build_harness("dbg")
    states = trans = 0
    plan = [dict(depth=3)] if tier == "quick" else [dict(depth=3), dict(depth=4), dict(depth=9, simulate=3000)]
    hists = []
    for i, p in enumerate(plan):
        env = {"GEN_DEPTH": p["depth"], "GEN_PICK": "random" if p.get("simulate") else "all"}
        r = vlib.run_tlc("Gen_Coin", "Gen_Coin", workers=1 if p.get("simulate") else 8, env=env, simulate=p.get("simulate"),
                         depth=p["depth"] + 3 if p.get("simulate") else None, seed=seed % 100000, tag="Gen_Coin_%d" % i, xmx="6g")
        if r.violation:
            v.violation("model/" + str(r.violation), "Coin.tla: %s violated" % r.violation, {"tlc": r.out[-3000:]})
        hs = [x for x in r.printed if "hist" in x]
        if p["depth"] >= 4 and not p.get("simulate"):
            hs = sorted(hs, key=lambda x: json.dumps(x, sort_keys=True))[::3]   # depth 4: every third history (depth 3 is exhaustive)
        hists += hs
        states += r.distinct
        trans += r.generated
        log("[gen] Gen_Coin depth=%d %s: %d histories, %d states, %.1fs" % (p["depth"], "sim" if p.get("simulate") else "exhaustive", len(r.printed), r.distinct, r.wall))
    path = os.path.join(wd, "hists.ndjson")
    vlib.write_ndjson(path, hists)
    args = ["coin", "--scenarios", path, "--out", wd] + (["--thorough"] if tier == "thorough" else [])
    rc, out, err = vlib.run_harness(exe, args)
    if rc != 0:
        raise vlib.ToolError("coin harness rc=%s: %s" % (rc, err))
    res = json.loads(out)
    for f in res["failures"]:
        v.violation(f["key"], f["what"] + " (%d occurrences)" % f["count"], f["replay"])

    def validate(f):
        return f, vlib.tlc_validate("Trace_Coin", "Trace_Coin", f["path"], tag="Trace_Coin_" + f["hasher"], timeout=6000, xmx="4g")

    accepted = 0
    events = 0
    for f, rt in vlib.parallel(validate, res["files"], max_workers=6):
        states += rt.distinct
        trans += rt.generated
        events += f["events"]
        nf = len(re.findall(r'"FINDING", "draw-count-masked-by-rejection"', rt.out))
        if nf:
            v.violation("coin/%s/sensitivity/draw-count-masked-by-rejection" % f["hasher"],
                        "two histories with the same absorbed messages but a different number of earlier draws give the same "
                        "subsequent outputs, because every counter value between them is rejected by the drawn element type "
                        "(%d occurrences)" % nf, {"trace": f["path"]})
        if rt.ok:
            accepted += 1
            log("[trace] %s: %d events accepted in %.1fs%s" % (f["hasher"], f["events"], rt.wall, " (%d masked-count findings)" % nf if nf else ""))
        else:
            line, ev = vlib.rejected_event(rt.out)
            recs = open(f["path"]).read().splitlines()
            bad = recs[line - 1][:3000] if 0 < line <= len(recs) else ""
            v.violation("coin/%s/trace-rejected/%s" % (f["hasher"], ev),
                        "operation '%s' of the real coin is not the Coin.tla transition (trace line %d)" % (ev, line),
                        {"trace": f["path"], "line": line, "event": bad})
    rc = v.finish()
    vlib.write_evidence(PID, tier, seed, "model_checking", {
        "states": states, "transitions": trans,
        "traces_validated_against_impl": accepted * len(hists),
        "samples": [h["hist"] for h in hists[:2]] + ([hists[-1]["hist"]] if hists else []),
        "evaluations": len(hists) * 6 + res["grid_evaluations"], "distinct_nontrivial": len(hists),
        "rule": "every history over {new(2 seeds), reseed(2 data), draw(base/quadratic/cubic), check_leading_zeros(3 nonces), "
                "draw_integers(3 nonces (one small, two above every modulus; over the 62-bit field the two are congruent modulo it) x {1,3} values, domain 2^1..2^32)} of the stated length, run for each of the six hash "
                "functions; plus the (count, domain size) grid of draw_integers",
        "exhaustive": False, "trace_events": events, "hashers_accepted": accepted,
        "known_finding_occurrences": v.n_known, "new_violations": v.n_new,
    }, time.time() - t0, violations=v.n_new,
        assumptions=["hash functions are observed through a recording wrapper and treated as uninterpreted (their correctness is C11)",
                     "distinct abstract states are expected to give distinct 2-element probes; a chance collision has probability < 2^-100"])
    return rc


def replay(path):
    print(open(path).read()[:4000])
    return 1
