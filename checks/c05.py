"""C05 — FRI soundness.  (DESIGN.md section 6, C05)

R1  MC_Fri (strategy part of Fri.tla): with the remainder-commitment check no adversary strategy is accepted; the variant of
    the model without that check (the code before the fix: commit) is refuted by the adaptive strategy.
R2  every strategy is replayed on the real FriProver / FriVerifier for the schedule tuples of the model: functions far
    from low degree (random), polynomials of degree bound+1 .. domain-1, polynomials corrupted on half / three quarters of
    the domain (honest folding in all three), a tampered value in any layer, a wrong folding challenge at any layer,
    omitted and swapped layers, and the remainder interpolated after the query positions are known."""
import json, os, time
import vlib, c15
from vlib import log

PID = "C05"


def run(tier, seed):
    t0 = time.time()
    v = vlib.Verdict(PID)
    wd = vlib.workdir(PID)
    exe = vlib.build_harness("dbg")
    r = c15.model(tier)
    if not r.ok:
        v.violation("model/" + str(r.violation), "Fri.tla: %s violated" % r.violation, {"tlc": r.out[-3000:]})
    rb = c15.model("quick", chk="0")
    if rb.violation != "SoundInv":
        raise vlib.ToolError("self-test: the model without the remainder commitment check is not refuted (%s)" % rb.violation)
    log("[tlc] MC_Fri: Sound holds with the remainder-commitment check; the variant without it is refuted (adaptive strategy)")
    # the protocol as a state machine (FriProtocol.tla): every adversarial behaviour with 1, 2 and 3 committed layers
    behaviours = {}
    pstates = ptrans = 0
    for L in (1, 2, 3):
        rp = vlib.run_tlc("MC_FriProtocol", "MC_FriProtocol_TRUE_L%d" % L, workers=2, tag="MC_FriProtocol_T%d" % L)
        pstates += rp.distinct
        ptrans += rp.generated
        if not rp.ok:
            v.violation("model/protocol/" + str(rp.violation), "FriProtocol.tla (L=%d): %s violated" % (L, rp.violation), {"tlc": rp.out[-3000:]})
        behaviours[L] = sorted([p for p in rp.printed if "verdict" in p], key=lambda x: json.dumps(x, sort_keys=True))
        rn = vlib.run_tlc("MC_FriProtocol", "MC_FriProtocol_FALSE_L%d" % L, workers=2, tag="MC_FriProtocol_F%d" % L)
        if rn.violation != "Sound":
            raise vlib.ToolError("self-test: FriProtocol without the remainder commitment check is not refuted (L=%d: %s)" % (L, rn.violation))
    rf = vlib.run_tlc("MC_FriProtocol", "MC_FriProtocol_FIRSTONLY_L1", workers=2, tag="MC_FriProtocol_FO1")
    if rf.violation != "Sound":
        raise vlib.ToolError("self-test: FriProtocol with a remainder comparison at the first position only is not refuted (%s)" % rf.violation)
    log("[tlc] FriProtocol: %s behaviours (L=1,2,3); Sound/Complete/Order hold; refuted without the remainder-commitment check" % {L: len(b) for L, b in behaviours.items()})
    accepts = {p["s"]: p["accepts"] for p in r.printed if p.get("kind") == "strategy"}
    accepts["highdeg"] = False
    accepts["partiallayer"] = False
    sched = [p for p in r.printed if p.get("kind") == "sched" and p["ln"] >= 4 and p["lb"] >= 2 and p["ln"] + p["lb"] <= (10 if tier == "quick" else 13)]
    if tier == "quick":
        sched = sched[::7]
    strategies = [("highdeg", 0), ("far", 0), ("degplus", 1), ("degplus", 3), ("degplus", 10 ** 6), ("corrupt", 8), ("corrupt", 12),
                  ("tamper", 0), ("tamper", 1), ("tamper", 5), ("wrongalpha", 0), ("wrongalpha", 1), ("omit", 0), ("omit", 1),
                  ("swap", 0), ("adaptive", 0), ("partiallayer", 0), ("partiallayer", 1)]
    cases = []
    i = 0
    for s in sched:
        for (st, param) in strategies:
            f, h, e = c15.COMBOS[i % len(c15.COMBOS)]
            d = 2 ** (s["ln"] + s["lb"])
            # enough queries for a false accept to be negligible (>= 80 bits); the adaptive strategy wants few queries
            q = 3 if st == "adaptive" else min(80, d - 1)
            cases.append({"id": i, "field": f, "hasher": h, "ext": e, "ln": s["ln"], "lb": s["lb"], "fold": s["fold"], "rem": s["rem"],
                          "q": q, "poly": "random", "strategy": st, "param": param, "dup": False, "seed": seed + i})
            i += 1
    # a random function folded honestly violates the remainder relation at (almost surely) every point of the last layer, so it is rejected
    # whatever the number of queries: 1, 2, 3, 5, 6, 7 queries - every queried position must be compared with the remainder, the last one too
    for s in sched[::2]:
        for q in (1, 2, 3, 5, 6, 7):
            f, h, e = c15.COMBOS[i % len(c15.COMBOS)]
            d = 2 ** (s["ln"] + s["lb"])
            cases.append({"id": i, "field": f, "hasher": h, "ext": e, "ln": s["ln"], "lb": s["lb"], "fold": s["fold"], "rem": s["rem"],
                          "q": min(q, d - 1), "poly": "random", "strategy": "far", "param": 0, "dup": False, "seed": seed + i})
            i += 1
    # the forged last layer on schedules where few rows of the last layer are opened (blowup 2 and 4, small remainders)
    small = [p for p in r.printed if p.get("kind") == "sched" and p["lb"] in (1, 2) and p["rem"] in (0, 1, 2) and p["layers"] >= 2 and p["ln"] + p["lb"] <= 9]
    for s in small[::2 if tier == "quick" else 1]:
        f, h, e = c15.COMBOS[i % len(c15.COMBOS)]
        d = 2 ** (s["ln"] + s["lb"])
        cases.append({"id": i, "field": f, "hasher": h, "ext": e, "ln": s["ln"], "lb": s["lb"], "fold": s["fold"], "rem": s["rem"],
                      "q": min(80, d - 1), "poly": "random", "strategy": "partiallayer", "param": 0, "dup": False, "seed": seed + i})
        i += 1
    # every terminal behaviour of the protocol machine, on schedules with the matching number of layers
    allsched = [p for p in r.printed if p.get("kind") == "sched" and p["ln"] >= 4 and p["lb"] >= 2 and p["ln"] + p["lb"] <= 11]
    for L, bs in behaviours.items():
        plain = [x for x in allsched if x["layers"] == L and not x["jump"]][:1] + [x for x in allsched if x["layers"] == L and x["jump"]][:2]
        jump = [x for x in allsched if x["layers"] == L and x["jump"]][:2]
        if tier == "quick" and L == 3:
            bs = bs[seed % 4::4]
        for b in bs:
            for s in (jump if b["f0"] == "high" else plain[:2 if tier == "quick" else 3]):
                f, h, e = c15.COMBOS[i % len(c15.COMBOS)]
                d = 2 ** (s["ln"] + s["lb"])
                cases.append({"id": i, "field": f, "hasher": h, "ext": e, "ln": s["ln"], "lb": s["lb"], "fold": s["fold"], "rem": s["rem"],
                              "q": 3 if b["rem"] == "adaptive" else min(80, d - 1), "poly": "random", "strategy": "model", "param": 0, "dup": False, "seed": seed + i,
                              "f0": b["f0"], "layers": b["layers"], "openings": b["openings"], "rem_kind": b["rem"], "remc": b["remc"], "hit": b["hit"],
                              "model_verdict": b["verdict"]})
                i += 1
    # degree bounds whose number of coefficients m is not a power of two: honest proofs for polynomials with m+1 .. next_pow2(m)
    # coefficients differ from an admissible one only in remainder coefficients above the bound
    bounds = [p for p in r.printed if p.get("kind") == "bound" and p["lb"] >= 2]
    if tier == "quick":
        bounds = bounds[seed % 6::6]
    for s in bounds:
        for k in sorted({1, s["excess"], (s["excess"] + 1) // 2}):
            f, h, e = c15.COMBOS[i % len(c15.COMBOS)]
            d = c15.next_pow2(s["m"]) * 2 ** s["lb"]
            cases.append({"id": i, "field": f, "hasher": h, "ext": e, "ln": 0, "ncoef": s["m"], "lb": s["lb"], "fold": s["fold"], "rem": s["rem"],
                          "q": min(80, d - 1), "poly": "random", "strategy": "degplus", "param": k, "dup": False, "seed": seed + i})
            i += 1
    obs = c15.run_cases(exe, cases, wd, "adversary")
    n = rej = skipped = 0
    ndep = [0]
    per = {}
    for c, o in zip(cases, obs):
        if "skip" in o or (o.get("agree_all") and (c.get("model_verdict") == "reject" or c["strategy"] == "partiallayer")) or (
                c.get("rem_kind") in ("adaptive", "other") and o.get("sent_is_committed")):
            # not applicable to the schedule; the partial remainder happens to agree at every queried position; or the adaptive
            # remainder coincides with the committed one (honest run with as many folded positions as coefficients): that
            # run is the behaviour "committed" of the model, judged where it is enumerated
            skipped += 1
            continue
        if o.get("alpha_dep") is not None:
            ndep[0] += len(o["alpha_dep"])
            if not all(o["alpha_dep"]):
                v.violation("fri/challenge-independent-of-layer-commitment",
                            "the folding challenge of layer %s does not change when that layer's commitment is replaced: the prover knows the challenge before it fixes "
                            "the layer (FriProtocol.tla Order: commit, then draw) (%s/%s/ext%d, folding %d)" % (
                                [k + 1 for k, x in enumerate(o["alpha_dep"]) if not x], c["field"], c["hasher"], c["ext"], c["fold"]), c)
        n += 1
        ctx = "degree bound %s, blowup %d, folding %d, remainder degree %d, %d queries, %s/%s/ext%d" % (
            c15.bound_text(c), 2 ** c["lb"], c["fold"], c["rem"], c["q"], c["field"], c["hasher"], c["ext"])
        verdict = o.get("verify", o.get("prover_panic", "?"))
        expect_accept = (c.get("model_verdict") == "accept") if c["strategy"] == "model" else accepts.get(c["strategy"], False)
        if c["strategy"] == "partiallayer" and c["param"] == 1:
            expect_accept = True      # the hand-written prover without the forgery, on a low-degree polynomial
        per[c["strategy"]] = per.get(c["strategy"], 0) + 1
        if verdict != "ok" and expect_accept and not verdict.startswith("panic@"):
            v.violation("fri/rejected/honest-behaviour", "the behaviour the protocol model accepts (honest run) is rejected: %s (%s)" % (verdict, ctx), c)
        elif verdict == "ok" and not expect_accept:
            v.violation("fri/accepted/%s" % c["strategy"],
                        "FRI verifier ACCEPTS strategy '%s' (param %s) %s (%s)" % (c["strategy"], c["param"], o.get("note", ""), ctx), c)
        elif verdict.startswith("panic@"):
            v.note("verifier panics on strategy %s: %s (%s) - counted under C06" % (c["strategy"], verdict, ctx))
            rej += 1
        else:
            rej += 1
    log("[replay] %d adversarial FRI runs %s, %d rejected, %d not applicable to the schedule" % (n, per, rej, skipped))
    rc = v.finish()
    vlib.write_evidence(PID, tier, seed, "model_checking", {
        "states": r.distinct + rb.distinct + pstates, "transitions": r.generated + rb.generated + ptrans, "traces_validated_against_impl": n,
        "samples": cases[:3], "evaluations": n, "distinct_nontrivial": n,
        "challenge_dependency_probes": ndep[0],
        "rule": "strategy x schedule tuple (LDE size <= 2^%d, blowup >= 4), 80 queries (3 for the adaptive strategy); strategies: %s" % (
            10 if tier == "quick" else 13, strategies),
        "exhaustive": False, "per_strategy": per, "rejected": rej, "skipped": skipped,
        "known_finding_occurrences": v.n_known, "new_violations": v.n_new, "notes": v.notes[:5],
    }, time.time() - t0, violations=v.n_new,
        assumptions=["false-accept probability of the non-adaptive strategies is below 2^-40 by the choice of 80 queries, blowup >= 4 and corruption of at least half of the domain; "
                     "random functions are also run with 1..7 queries: honest folding of a random function breaks the remainder relation at every point of the last layer "
                     "up to a chance of (number of positions) / (field size) < 2^-55",
                     "soundness is decided for the enumerated strategies, not for all provers; that a strategy cannot know a folding challenge before it commits to the layer is "
                     "checked as a dependency: replacing the commitment of layer k changes the k-th challenge the real verifier draws"])
    return rc


def replay(path):
    rec = json.load(open(path))
    exe = vlib.build_harness("dbg")
    print(json.dumps(c15.run_cases(exe, [rec["replay"]], vlib.workdir(PID), "replay"), indent=1))
    return 1
