"""C17 — the committed composition polynomial equals its definition.  (DESIGN.md section 6, C17)

R3  For statements generated from Stark.tla (all assertion kinds incl. sequences of 32 and 64 values - both internal
    representations -, non-zero first steps, one or two periodic columns of different cycle lengths, several exemption
    counts, constraint-evaluation blowup smaller than the LDE blowup) the real DefaultConstraintEvaluator and CompositionPoly
    run over ToyField; Trace_Comp.tla evaluates the definition of the composition polynomial (trace polynomials by Lagrange
    interpolation, periodic columns composed with x^(n/cycle), transition divisor, per-assertion vanishing polynomials,
    canonical coefficient order) at three out-of-domain points per statement and compares with the prover's columns."""
import json, os, re, time
import vlib, starkgen, c01, vmodel
from vlib import log

PID = "C17"


def run(tier, seed):
    t0 = time.time()
    v = vlib.Verdict(PID)
    wd = vlib.workdir(PID)
    exe = vlib.build_harness("dbg")
    r, stmts = c01.gen(6 if tier == "quick" else 7, 1 if tier == "quick" else 2)
    stmts0 = list(stmts)
    if not r.ok:
        v.violation("model/" + str(r.violation), "Stark.tla: %s" % r.violation, {"tlc": r.out[-2000:]})
    # the toy field has two-adicity 13 and no cubic extension issues; base-field composition only
    # statements with an auxiliary segment evaluate several more interpolants per point: only the small ones
    stmts = [s for s in stmts if s["t"]["width"] <= 9 and s["t"]["ln"] + s["t"]["lb"] <= 12 and s["t"]["ln"] <= 7
             and (not s["t"]["auxd"] or s["t"]["ln"] <= (4 if tier == "quick" else 5))]
    if tier != "quick" and len(stmts) > 4000:
        # the depth-2 walk gives ~20 000 such statements (two hours of trace validation): every fifth, rotating with the seed
        k = -(-len(stmts) // 4000)
        stmts = stmts[seed % k::k]
    # make sure large assertion sequences and all five assertion kinds are present
    extra = []
    for s in stmts:
        if s["t"]["ln"] >= 6 and s["t"]["width"] >= 4 and not s["t"]["auxd"]:
            t = dict(s["t"], nasserts=5)
            extra.append(dict(s, t=t, asserts=None))
    # sequences of 64 and more values (pre-computed "large" representation) with zero and non-zero first step
    large = []
    for s in [x for x in stmts if x["t"]["width"] >= 4 and x["t"]["ln"] == 6 and not x["t"]["auxd"]][:3 if tier == "quick" else 12]:
        for ln in ([7] if tier == "quick" else [7, 8]):
            t = dict(s["t"], ln=ln, nasserts=5)
            n, w = 2 ** ln, t["width"]
            a = starkgen.assertions(n, w, 5)
            a[2] = dict(kind="periodic", col=0, first=1, stride=4, count=1)
            a[3] = dict(kind="sequence", col=1, first=1, stride=2, count=n // 2)      # >= 64 values, first step 1
            large.append(dict(s, t=t, asserts=a))
    scs = []
    for i, rec in enumerate(stmts + extra[:40] + large):
        if rec.get("asserts") is None:
            rec = dict(rec, asserts=starkgen.assertions(2 ** rec["t"]["ln"], rec["t"]["width"], rec["t"]["nasserts"]))
            rec["asserts"][2] = dict(kind="periodic", col=0, first=1, stride=4, count=1)
        sc = starkgen.scenario(rec, i, seed)
        if starkgen.low_degree(sc):
            continue   # the evaluator's debug-build degree validation fires on these traces (starkgen.low_degree)
        sc["field"] = "toy"
        sc["ext"] = 1
        # a second periodic column with a different cycle length on a degree-1 column that is free
        sh = sc["shape"]
        if sh["width"] >= 3 and i % 2 == 0:
            for c in range(sh["width"]):
                if sh["degs"][c] == 1 and sh["pcol"][c] < 0 and c not in sh["neg"]:
                    # cycle lengths 2, 4, 8 and the trace length in turn, different from the first column's
                    cand = [x for x in (4, 8, 2, sh["n"], 16) if x <= sh["n"] and x not in sh["periodic"]]
                    sh["periodic"] = list(sh["periodic"]) + [cand[(i // 2) % len(cand)]]
                    sh["pcol"][c] = len(sh["periodic"]) - 1
                    break
        scs.append(sc)
    nsh = 12
    jobs, panics, events = [], [], 0
    for k in range(nsh):
        part = scs[k::nsh]
        if not part:
            continue
        sp = os.path.join(wd, "scs_%d.ndjson" % k)
        vlib.write_ndjson(sp, part)
        tp = os.path.join(wd, "trace_%d.ndjson" % k)
        rc, out, err = vlib.run_harness(exe, ["comp", "--scenarios", sp, "--out", tp], timeout=900)
        if rc != 0:
            raise vlib.ToolError("comp harness rc=%s: %s" % (rc, err[-400:]))
        panics += json.loads(out)["panics"]
        events += sum(1 for _ in open(tp))
        jobs.append(tp)
    # extension fields: the statements of at most 16 steps (all assertion kinds, periodic columns, auxiliary segment and Lagrange
    # column among them) over the quadratic and the cubic extension of the harness field, validated by Trace_CompX.tla
    xs = [sc for sc in scs if sc["shape"]["n"] <= 16]
    withaux = [sc for sc in xs if sc["shape"].get("aux_degs")]
    plain = [sc for sc in xs if not sc["shape"].get("aux_degs")]
    nx = (16, 24) if tier == "quick" else (200, 300)
    xsel = withaux[::max(1, len(withaux) // nx[0])][:nx[0]] + plain[::max(1, len(plain) // nx[1])][:nx[1]]
    xjobs = []
    for deg in (2, 3):
        part = xsel[deg - 2::2]
        for k in range(4):
            sub = part[k::4]
            if not sub:
                continue
            sp = os.path.join(wd, "xscs_%d_%d.ndjson" % (deg, k))
            vlib.write_ndjson(sp, sub)
            tp = os.path.join(wd, "xtrace_%d_%d.ndjson" % (deg, k))
            rc, out, err = vlib.run_harness(exe, ["comp", "--scenarios", sp, "--out", tp, "--deg", str(deg)], timeout=900)
            if rc != 0:
                raise vlib.ToolError("comp harness (degree %d) rc=%s: %s" % (deg, rc, err[-400:]))
            panics += json.loads(out)["panics"]
            events += sum(1 for _ in open(tp))
            xjobs.append((deg, tp))
    byid = {sc["id"]: sc for sc in scs}
    # The debug build validates the declared constraint degrees against the trace at hand (a developer aid of the prover).  Over the
    # harness field a random column polynomial has a vanishing top coefficient with probability 1/40961, and a constraint on it then has
    # a lower degree than declared: a degenerate but valid trace (C01: "including degenerate ones").  Such statements are judged in the
    # build without debug assertions, where the composition is compared with its definition as for every other statement.
    degen = [p for p in panics if "transition constraint degrees" in p["what"]]
    panics = [p for p in panics if "transition constraint degrees" not in p["what"]]
    if degen:
        exe_rel = vlib.build_harness("rel")
        base = [byid[i] for i in sorted({p["id"] for p in degen if p["id"] in byid})]
        sp = os.path.join(wd, "scs_degenerate.ndjson")
        vlib.write_ndjson(sp, base)
        tp = os.path.join(wd, "trace_degenerate.ndjson")
        rc, out, err = vlib.run_harness(exe_rel, ["comp", "--scenarios", sp, "--out", tp], timeout=900)
        if rc != 0:
            raise vlib.ToolError("comp harness (release build, degenerate traces) rc=%s: %s" % (rc, err[-400:]))
        panics += json.loads(out)["panics"]
        events += sum(1 for _ in open(tp))
        jobs.append(tp)
        v.note("%d statements whose trace has a column of lower degree than the trace length allows (debug-only degree validation of the prover fires): "
               "judged in the build without debug assertions" % len(base))
    for p in panics:
        v.violation("comp/panic/" + p["what"], "building the composition polynomial panics: %s" % p["what"], byid.get(p["id"]))

    def validate(tp):
        if isinstance(tp, tuple):
            return tp[1], vlib.tlc_validate("Trace_CompX", "Trace_CompX_%d" % tp[0], tp[1], tag="Trace_CompX_" + os.path.basename(tp[1]), timeout=3300, xmx="4g")
        return tp, vlib.tlc_validate("Trace_Comp", "Trace_Comp", tp, tag="Trace_Comp_" + os.path.basename(tp), timeout=3300, xmx="4g")

    states, trans, accepted = r.distinct, r.generated, 0
    for tp, rt in vlib.parallel(validate, xjobs + jobs, max_workers=15):
        states += rt.distinct
        trans += rt.generated
        if rt.ok:
            accepted += 1
            continue
        m = re.search(r'TRACE-REJECTED at line",\s*(\d+),\s*(\d+)', rt.out)
        sid = int(m.group(2)) if m else -1
        sc = byid.get(sid, {})
        sh = sc.get("shape", {})
        v.violation("comp/definition/%s%s" % ("periodic" if sh.get("periodic") else "plain", "/extension" if "xtrace" in tp else ""),
                    "the prover's composition polynomial differs from its definition at an out-of-domain point (%sn=%s width=%s degrees=%s periodic cycles=%s exemptions=%s assertions=%s)" % (
                        "extension field, " if "xtrace" in tp else "", sh.get("n"), sh.get("width"), sh.get("degs"), sh.get("periodic"), sh.get("exempt"), [a["kind"] for a in sh.get("asserts", [])]), sc)
    # the verifier's side of the same expression: Trace_Verifier.tla evaluates the constraints on the out-of-domain frame of real
    # proofs (challenges as the verifier drew them) and compares with the H(z) reduced from the columns the prover sent
    vm = vmodel.run(tier, seed, stmts0, wd)
    vmodel.judge(v, vm, ("ood", "coefficients") + vmodel.PROVER + vmodel.OODX, PID)
    states += vm["states"]
    trans += vm["transitions"]
    accepted += vm["accepted"]
    log("[trace] %d statements (x3 points) over the base field, %d (x2 points) over the quadratic / cubic extension, %d/%d shards accepted" % (
        len(scs), len(xsel), accepted, len(jobs) + len(xjobs)))
    rc = v.finish()
    vlib.write_evidence(PID, tier, seed, "model_checking", {
        "states": states, "transitions": trans, "traces_validated_against_impl": accepted,
        "samples": [scs[0]["shape"], scs[-1]["shape"]] if scs else [], "evaluations": events * 3, "distinct_nontrivial": len(scs),
        "rule": "statements of Gen_Stark.tla with width <= 9 and n <= 128, plus variants with all five assertion templates (sequences of n/4 and n/2 values) and a second "
                "periodic column; three random out-of-domain points each",
        "exhaustive": False, "shards_accepted": accepted, "extension_field_statements": len(xsel),
        "verifier_model_proofs": len(vm["lines"]), "verifier_model_stages": vmodel._hist(vm["lines"]),
        "prover_stage_proofs_judged": vm.get("prover_stage_judged", 0), "prover_stage_binding_test": vm.get("binding_test", {}),
        "known_finding_occurrences": v.n_known, "new_violations": v.n_new,
    }, time.time() - t0, violations=v.n_new,
        assumptions=["composition over ToyField and its quadratic / cubic extensions (generic code); extension fields for statements of at most 16 steps",
                     "the verifier's evaluation of the same expression: Trace_Verifier.tla recomputes the constraints on the out-of-domain frame of real proofs "
                     "over the harness field (base field, Blake3) with the challenges the verifier drew",
                     "prover stage: honest runs only; the auxiliary columns are rebuilt by the specification from the main columns and the recorded random elements "
                     "(the harness's own auxiliary trace builder is not trusted), proofs of at most 64 steps (16 over the extensions)"])
    return rc


def replay(path):
    print(open(path).read()[:3000])
    return 1
