"""C08 — extension fields: arithmetic equals polynomial arithmetic modulo the irreducible.  (DESIGN.md section 6, C08)

R2  Gen_Ext: TLC enumerates operand pairs of extension elements whose coefficients are boundary base-field values (0, 1, p-1,
    p-2, (p+1)/2, 2^32, 2^32-1, ...) in every coefficient position (thinned by a stride).
R3  the harness computes on the real QuadExtension / CubeExtension types: + - * /, square and cube fast paths, double,
    mul_base, inv, exp, conjugate, embedding of base elements, slice reinterpretation and byte round trips; Trace_Ext.tla
    recomputes everything as polynomial arithmetic modulo the documented irreducible over PrimeField.tla/BigNat.tla, checks
    x * inv(x) = 1, conj(xy) = conj(x)conj(y), conj(x+y) = conj(x)+conj(y), conj(x) = x iff x is in the base field, the
    embedding being multiplicative, and on a sample conj(x) = x^p."""
import json, os, time
import vlib
from vlib import log

PID = "C08"
COMBOS = [("f64", 2), ("f64", 3), ("f62", 2), ("f62", 3), ("f128", 2)]


def run(tier, seed):
    t0 = time.time()
    v = vlib.Verdict(PID)
    wd = vlib.workdir(PID)
    exe = vlib.build_harness("dbg")
    states = trans = events = accepted = nscn = 0
    jobs = []
    samples = []
    for field, deg in COMBOS:
        stride = {2: 67 if tier == "quick" else 3, 3: 4099 if tier == "quick" else 151}[deg]
        r = vlib.run_tlc("Gen_Ext", "Gen_Ext_%s_%d" % (field, deg), workers=2, env={"GE_STRIDE": stride, "GE_STRIDE2": (deg if tier == "quick" else 1)}, tag="Gen_Ext_%s_%d" % (field, deg), xmx="4g", timeout=1200)
        scns = sorted([p for p in r.printed if "x" in p], key=lambda x: json.dumps(x, sort_keys=True))
        states += r.distinct
        trans += r.generated
        nscn += len(scns)
        if scns:
            samples.append({"field": field, "degree": deg, "x": scns[len(scns) // 2]["x"], "y": scns[len(scns) // 2]["y"]})
        sp = os.path.join(wd, "scn_%s_%d.ndjson" % (field, deg))
        vlib.write_ndjson(sp, scns)
        tp = os.path.join(wd, "trace_%s_%d.ndjson" % (field, deg))
        rc, out, err = vlib.run_harness(exe, ["ext", "--scenarios", sp, "--field", field, "--deg", str(deg), "--out", tp,
                                              "--frob", "3" if tier == "quick" else "24"], timeout=600)
        if rc != 0:
            raise vlib.ToolError("ext harness rc=%s: %s" % (rc, err[-400:]))
        lines = open(tp).read().splitlines()
        hdr, body = lines[0], lines[1:]
        events += len(body)
        nsh = 3 if tier == "quick" else 6
        for k in range(nsh):
            part = body[k::nsh]
            if part:
                p = os.path.join(wd, "trace_%s_%d_%d.ndjson" % (field, deg, k))
                open(p, "w").write("\n".join([hdr] + part) + "\n")
                jobs.append((field, deg, p))
        log("[harness] %s degree %d: %d operand pairs, %d events" % (field, deg, len(scns), len(body)))

    def validate(job):
        field, deg, f = job
        return job, vlib.tlc_validate("Trace_Ext", "Trace_Ext_%s_%d" % (field, deg), f, tag="Trace_Ext_" + os.path.basename(f), timeout=3300, xmx="3g")

    for (field, deg, f), rt in vlib.parallel(validate, jobs, max_workers=15):
        states += rt.distinct
        trans += rt.generated
        if rt.ok:
            accepted += 1
            continue
        line, _ = vlib.rejected_event(rt.out)
        recs = open(f).read().splitlines()
        ev = json.loads(recs[line - 1]) if 0 < line <= len(recs) else {}
        kind = ev.get("ev", "?")
        v.violation("ext/%s/deg%d/%s" % (field, deg, kind if kind != "ops" else "arithmetic"),
                    "%s degree-%d extension: %s for x=%s y=%s" % (field, deg,
                        {"ops": "an operation does not agree with polynomial arithmetic modulo the irreducible (or a conjugation/embedding/round-trip law fails)",
                         "frob": "conjugate(x) differs from x^p", "panic": "an operation panics: %s" % ev.get("what")}.get(kind, "trace rejected"),
                        ev.get("x"), ev.get("y")),
                    {"trace": f, "line": line, "event": {k: x for k, x in ev.items() if k != "res"}, "results": ev.get("res")})
    log("[trace] %d events in %d shards, %d accepted" % (events, len(jobs), accepted))
    rc = v.finish()
    vlib.write_evidence(PID, tier, seed, "model_checking", {
        "states": states, "transitions": trans, "traces_validated_against_impl": accepted,
        "samples": samples, "evaluations": events * 18, "distinct_nontrivial": nscn,
        "rule": "operand pairs with 8 boundary coefficient classes in every position, thinned by a stride; 18 results per pair recomputed by TLC; "
                "Frobenius (x^p) recomputed for a sample",
        "exhaustive": False, "shards_accepted": accepted, "shards": len(jobs),
        "known_finding_occurrences": v.n_known, "new_violations": v.n_new,
    }, time.time() - t0, violations=v.n_new,
        assumptions=["base-field arithmetic reference is PrimeField.tla (C07)", "coefficients are given to the library as canonical bytes"])
    return rc


def replay(path):
    print(open(path).read()[:3000])
    return 1
