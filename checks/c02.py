"""C02 — soundness against invalid executions and wrong statements.  (DESIGN.md section 6, C02)

R1/R2  Gen_Stark (ST_SOUND=1): for every generated statement TLC evaluates the structural rule Violated(t, c, i) of Stark.tla
       for the corrupted-cell positions (first step, both sides of the exemption boundary, last step, asserted steps of
       every assertion kind, interior) and prints them with the statement.
Replay the harness corrupts the cell of a valid trace, proves in the build without debug assertions (claiming the original
       statement) and verifies; it also checks the rule against an independent reference validity predicate.  violated =>
       never accepted;  not violated => proof generated and accepted.  An honest proof is verified against every perturbed
       public input, exemption count, proof option and trace shape: must be rejected."""
import json, os, time
import vlib, starkgen, c01, vmodel
from vlib import log

PID = "C02"


def run(tier, seed):
    t0 = time.time()
    v = vlib.Verdict(PID)
    wd = vlib.workdir(PID)
    exe_rel = vlib.build_harness("rel")
    r, stmts = c01.gen(4 if tier == "quick" else 6, 1 if tier == "quick" else 2, sound="1")
    if not r.ok:
        v.violation("model/" + str(r.violation), "Stark.tla: %s" % r.violation, {"tlc": r.out[-3000:]})
    stmts = [s for s in stmts if s["t"]["width"] <= (9 if tier == "quick" else 64) and s["t"]["q"] <= 64]
    if tier == "quick":
        stmts = stmts[::2]
    scs = []
    for i, rec in enumerate(stmts):
        sc = starkgen.scenario(rec, i, seed)
        sc["free_tail"] = False
        # soundness error of one run must be negligible: at least 40 bits from queries, quadratic extension for 62/64-bit fields
        sc["corruptions"] = rec["corruptions"]
        sc["aux_corruptions"] = rec.get("auxcorruptions", [])
        sc["lde_cheats"] = rec.get("ldecheats", [])
        scs.append(sc)
    # constant columns (trace mode "copy": next = cur): every sequence assertion then asserts the same value at each of its steps, and
    # with three or more exemptions its last steps are constrained by nothing else; same corrupted cells, same rule
    consts = []
    for sc in scs:
        t = sc["stmt"]
        if t["nasserts"] >= 4 and t["k"] >= 3 and not t.get("auxd") and not t.get("lag") and len(consts) < (40 if tier == "quick" else 400):
            c = json.loads(json.dumps(sc))
            c["shape"]["mode"] = "copy"
            c["id"] = len(scs) + len(consts)
            consts.append(c)
    scs = scs + consts
    obs = c01.run_scenarios(exe_rel, "sound", scs, wd, "sound_rel", timeout=3400)
    n_cells = n_viol = n_free = n_pert = skipped = n_lde = 0
    for sc, o in zip(scs, obs):
        ctx = "field %s, hasher %s, ext %d, n=%d, width=%d, exemptions %d, options %s" % (
            sc["field"], sc["hasher"], sc["ext"], sc["shape"]["n"], sc["shape"]["width"], sc["shape"]["exempt"], sc["opts"])
        if not o.get("honest_ref_valid", False):
            raise vlib.ToolError("generator error: the forward-executed trace is not valid by the reference predicate: %s" % ctx)
        lowsec = sc["opts"]["q"] * (sc["opts"]["blowup"].bit_length() - 1) < 40
        for cell in o.get("cells", []):
            n_cells += 1
            if cell.get("lde"):
                n_lde += 1
                if cell["prove"] == "ok" and cell["verify"] == "ok" and not lowsec:
                    if cell.get("comp"):
                        v.violation("sound/accepted-foreign-commitment/composition",
                                    "a proof whose committed constraint composition columns differ from the ones behind the out-of-domain evaluations (column 0 + 1, "
                                    "column 1 - 1: same sum) is ACCEPTED: the columns are not tied to the evaluations individually (%s)" % ctx, dict(sc, comp_cheat=True))
                        continue
                    v.violation("sound/accepted-foreign-commitment/%s" % ("aux" if cell["aux"] else "main"),
                                "a proof whose committed %s segment differs from the one the out-of-domain frame and the constraint evaluations were made from "
                                "(column %d) is ACCEPTED: the opened column is not tied to the frame (%s)" % ("auxiliary" if cell["aux"] else "main", cell["c"], ctx),
                                dict(sc, corruptions=[], aux_corruptions=[], lde_cheats=[{"aux": cell["aux"], "c": cell["c"], "i": cell["i"]}]))
                continue
            if cell["ref_valid"] == cell["violated"]:
                raise vlib.ToolError("rule mismatch: Violated(%d,%d)=%s but reference validity=%s (%s)" % (
                    cell["c"], cell["i"], cell["violated"], cell["ref_valid"], ctx))
            one = [{"c": cell["c"], "i": cell["i"], "violated": cell["violated"]}]
            rp = dict(sc, corruptions=[], aux_corruptions=one, lde_cheats=[]) if cell.get("aux") else dict(sc, corruptions=one, aux_corruptions=[], lde_cheats=[])
            seg = "auxiliary column" if cell.get("aux") else "column"
            if cell["violated"]:
                n_viol += 1
                if cell["prove"] == "ok" and cell["verify"] == "ok":
                    if lowsec:
                        skipped += 1   # too few queries for a meaningful soundness bound: outside the < 2^-20 budget
                        continue
                    v.violation("sound/accepted-invalid/%s%s" % ("aux-" if cell.get("aux") else "", "asserted" if cell["i"] > sc["shape"]["n"] - sc["shape"]["exempt"] else "transition"),
                                "a proof of a trace whose cell (%s %d, step %d) violates a constraint is ACCEPTED (%s)" % (seg, cell["c"], cell["i"], ctx), rp)
            else:
                n_free += 1
                if cell["prove"] != "ok":
                    v.violation("sound/valid-trace-not-proved/%s" % cell["prove"].split(":")[0],
                                "changing the unconstrained cell (%s %d, step %d) leaves the trace valid, but proving fails: %s (%s)" % (
                                    seg, cell["c"], cell["i"], cell["prove"], ctx), rp)
                elif cell["verify"] != "ok":
                    v.violation("sound/valid-trace-rejected",
                                "changing the unconstrained cell (%s %d, step %d) leaves the trace valid, but the proof is rejected: %s (%s)" % (
                                    seg, cell["c"], cell["i"], cell["verify"], ctx), rp)
        if o.get("honest_prove") or o.get("honest_verify") != "ok":
            v.violation("sound/honest-failed", "honest proof not produced/accepted in the soundness run: %s %s (%s)" % (
                o.get("honest_prove"), o.get("honest_verify"), ctx), sc)
        for p in o.get("perturbations", []):
            n_pert += 1
            if p["verify"] == "ok":
                v.violation("sound/accepted-perturbed/%s" % p["what"].split(" ")[0],
                            "a proof valid for one statement is ACCEPTED for a different one (%s) (%s)" % (p["what"], ctx), dict(sc, perturbation=p["what"]))
    # acceptance implies the protocol's relations: Trace_Verifier.tla recomputes DEEP composition, every folding step and the
    # remainder from the values real proofs open (honest provers and provers cheating with consistent commitments)
    r2, stmts2 = c01.gen(6, 1)
    vm = vmodel.run(tier, seed, stmts2, wd)
    vmodel.judge(v, vm, None, PID)
    log("[replay] %d statements: %d corrupted cells (%d violating, %d free), %d foreign commitments, %d perturbed statements, %d skipped (low query security)" % (
        len(scs), n_cells, n_viol, n_free, n_lde, n_pert, skipped))
    rc = v.finish()
    vlib.write_evidence(PID, tier, seed, "model_checking", {
        "states": r.distinct + vm["states"], "transitions": r.generated + vm["transitions"],
        "traces_validated_against_impl": n_cells + n_pert + len(vm["lines"]),
        "verifier_model_proofs": len(vm["lines"]), "verifier_model_stages": vmodel._hist(vm["lines"]),
        "samples": [{"statement": stmts[0]["t"], "corruptions": stmts[0]["corruptions"][:4]}] if stmts else [],
        "evaluations": n_cells + n_pert, "distinct_nontrivial": n_cells,
        "rule": "per generated statement: corrupted cells at the positions named in Gen_Stark.tla (expected verdict by Stark!Violated, cross-checked "
                "with a reference validity predicate) and perturbations of every public input, exemption count, option field, trace length and metadata",
        "exhaustive": False, "violating_cells": n_viol, "free_cells": n_free, "foreign_commitments": n_lde, "perturbations": n_pert, "skipped_low_security": skipped,
        "known_finding_occurrences": v.n_known, "new_violations": v.n_new,
    }, time.time() - t0, violations=v.n_new,
        assumptions=["a prover that fails on an invalid trace satisfies the property vacuously",
                     "acceptance of an invalid trace by chance: scenarios with fewer than 40 bits of query security are not judged on the violating side"])
    return rc


def replay(path):
    rec = json.load(open(path))
    exe = vlib.build_harness("rel")
    o = c01.run_scenarios(exe, "sound", [rec["replay"]], vlib.workdir(PID), "replay")
    print(json.dumps(o, indent=1)[:3000])
    return 1
