"""C13 — streaming byte reader == in-memory reader.  (DESIGN.md section 6, C13)

R1  MC_ReadAdapter: the implementation-shaped model refines the Bytes contract (exhaustive, scaled constants);
    the four defect variants removed by the fix: commit are refuted (non-vacuity of the refinement check).
R2  Gen_Bytes: TLC enumerates behaviours of the Bytes contract with expected results; the harness replays each on
    ReadAdapter under 10 chunkings of the source, on SliceReader and on Cursor.
R3  Trace_ReadAdapter: executions of the real adapter (hook verif_state) are validated against the model with the
    real constants, which transfers R1's exhaustive result to the code."""
import json, os, time
import vlib
from vlib import log

PID = "C13"


def gen(depth, ops, streams, tag, workers=8, simulate=None, seed=None, timeout=1800):
    env = {"GEN_DEPTH": depth, "GEN_OPS": ops, "GEN_STREAMS": streams, "GEN_PICK": "random" if simulate else "all"}
    r = vlib.run_tlc("Gen_Bytes", "Gen_Bytes", workers=workers, env=env, simulate=simulate,
                     depth=depth + 2 if simulate else None, seed=seed, tag=tag, timeout=timeout, xmx="8g")
    if not r.ok and simulate is None:
        raise vlib.ToolError("Gen_Bytes: generator invariant failed: %s\n%s" % (r.violation, r.out[-2000:]))
    streams_rec = [p for p in r.printed if "streams" in p]
    scns = [p for p in r.printed if "sid" in p]
    log("[gen] Gen_Bytes depth=%d ops=%s %s: %d scenarios, %d states, %.1fs" % (
        depth, ops, "sim=%s" % simulate if simulate else "exhaustive", len(scns), r.distinct, r.wall))
    return streams_rec[:1], scns, r


def run(tier, seed):
    t0 = time.time()
    v = vlib.Verdict(PID)
    wd = vlib.workdir(PID)
    exe = vlib.build_harness("dbg")
    states = trans = 0
    cov = {}

    # ---- R1 -------------------------------------------------------------------------------------
    depth = 4 if tier == "quick" else 6
    r = vlib.tlc_check("MC_ReadAdapter", "MC_ReadAdapter", workers=8, env={"MC_DEPTH": depth, "MC_EMPTY": "0"},
                       timeout=3000, xmx="8g")
    states += r.distinct
    trans += r.generated
    if not r.ok:
        v.violation("model/refinement/" + str(r.violation),
                    "the implementation-shaped model of ReadAdapter does not refine the Bytes contract: " + str(r.violation),
                    {"tlc": r.out[-6000:]})
    refuted = []
    for bug in ["noadvance", "buflen", "shorteof", "stalepos"]:
        rb = vlib.run_tlc("MC_ReadAdapter", "MC_ReadAdapter_" + bug, workers=4, env={"MC_DEPTH": 3, "MC_EMPTY": "0"},
                          tag="MC_RA_" + bug)
        if rb.violation:
            refuted.append(bug)
        else:
            raise vlib.ToolError("self-test: defect variant %s is not refuted by the refinement check" % bug)
    log("[tlc] defect variants refuted by R1: %s" % ",".join(refuted))

    # ---- R2 -------------------------------------------------------------------------------------
    scn_path = os.path.join(wd, "scenarios.ndjson")
    all_scns = []
    hdr = None
    if tier == "quick":
        plan = [dict(depth=2, ops="full", streams="some"),
                dict(depth=6, ops="full", streams="all", simulate=6000, seed=seed % 100000)]
    else:
        plan = [dict(depth=2, ops="full", streams="all"),
                dict(depth=3, ops="small", streams="some"),
                dict(depth=8, ops="full", streams="all", simulate=150000, seed=seed % 100000),
                dict(depth=14, ops="full", streams="all", simulate=50000, seed=(seed + 1) % 100000)]
    exhaustive_parts = []
    for i, p in enumerate(plan):
        h, scns, r = gen(p["depth"], p["ops"], p["streams"], "Gen_Bytes_%d" % i, simulate=p.get("simulate"),
                         seed=p.get("seed"), workers=1 if p.get("simulate") else 8)
        hdr = hdr or h
        all_scns += scns
        states += r.distinct
        trans += r.generated
        if not p.get("simulate"):
            exhaustive_parts.append("all sequences of length %d over op set '%s', streams '%s'" % (p["depth"], p["ops"], p["streams"]))
    vlib.write_ndjson(scn_path, hdr + all_scns)
    trace_path = os.path.join(wd, "adapter_trace.ndjson")
    # R3 budget: about 1 500 (quick) / 12 000 (thorough) traced adapter executions
    every = max(1, len(all_scns) // (1500 if tier == "quick" else 12000))
    rc, out, err = vlib.run_harness(exe, ["reader", "--scenarios", scn_path, "--seed", str(seed), "--random-chunkings",
                                          "2" if tier == "quick" else "6", "--trace", trace_path, "--trace-every", str(every)])
    if rc != 0:
        if rc < 0 or rc > 2:
            v.violation("adapter/crash", "harness process died (rc=%s) while driving the readers: %s" % (rc, err[-500:]))
            res = {"failures": [], "scenarios": 0, "executions": 0, "steps": 0}
        else:
            raise vlib.ToolError("reader harness rc=%s: %s" % (rc, err))
    else:
        res = json.loads(out)
    for f in res["failures"]:
        v.violation(f["key"], f["what"] + " (%d occurrences)" % f["count"], f["replay"])
    log("[replay] %d scenarios, %d steps, %d executions, %d failure keys" % (
        res["scenarios"], res["steps"], res["executions"], len(res["failures"])))

    # ---- R3 -------------------------------------------------------------------------------------
    n_events = res.get("trace_events", 0)
    traces_ok = 0
    if n_events:
        rt = vlib.tlc_validate("Trace_ReadAdapter", "Trace_ReadAdapter", trace_path, timeout=1800)
        states += rt.distinct
        trans += rt.generated
        if rt.ok:
            traces_ok = res.get("traced", 0)
            log("[trace] %d adapter executions (%d events) accepted by Trace_ReadAdapter in %.1fs" % (traces_ok, n_events, rt.wall))
        else:
            rej = [ln for ln in rt.out.splitlines() if "TRACE-REJECTED" in ln]
            v.note("SPEC-DRIFT: implementation-shaped model rejects a recorded adapter execution: %s" % (rej[:1] or rt.out[-400:]))
            # the property-level oracle is the replay comparison above; a drift of the internal model alone is
            # not a property violation (DESIGN 3.1), but it invalidates the transfer of R1, so report as tool error
            # unless the replay already found the deviation
            if not res["failures"]:
                v.violation("model/trace-rejected", "recorded ReadAdapter execution is not a behaviour of ReadAdapter.tla "
                            "(internal state or result differs): %s" % (rej[:1],), {"trace": trace_path})

    rc = v.finish()
    samples = [{"stream_id": s["sid"], "steps": [{k: st[k] for k in ("op", "n", "pos")} for st in s["steps"]]} for s in all_scns[:2]]
    if all_scns:
        samples.append({"stream_id": all_scns[-1]["sid"], "steps": all_scns[-1]["steps"][:6]})
    vlib.write_evidence(PID, tier, seed, "model_checking", {
        "states": states, "transitions": trans,
        "traces_validated_against_impl": res["executions"] + traces_ok,
        "samples": samples,
        "evaluations": res["executions"], "distinct_nontrivial": res["scenarios"],
        "rule": "TLC enumerates/simulates behaviours of Bytes.tla (operation sequences with expected result and position per step); "
                "each is executed on ReadAdapter under every chunking class, on SliceReader and on Cursor; a scenario is one "
                "distinct (stream, operation sequence); " + "; ".join(exhaustive_parts),
        "exhaustive": False,
        "r1": {"module": "MC_ReadAdapter", "depth": depth, "refines": r.ok, "defect_variants_refuted": refuted},
        "r2": {"scenarios": res["scenarios"], "steps": res["steps"], "executions": res["executions"],
               "per_chunking": res.get("per_chunking"), "exhaustive_parts": exhaustive_parts},
        "r3": {"adapter_executions": res.get("traced", 0), "events": n_events, "accepted": bool(traces_ok)},
        "known_finding_occurrences": v.n_known, "new_violations": v.n_new, "notes": v.notes,
    }, time.time() - t0, violations=v.n_new,
        assumptions=["TLC's evaluation of Bytes.tla is the reference; SliceReader and Cursor are checked against it too",
                     "chunkings: 1,7,255,256,257,whole,mixed,empty-read + seeded random; streams up to 600 bytes",
                     "std::io::BufReader behaves as modelled (fill_buf reads only when empty, one read() per fill)"])
    return rc


def replay(path):
    rec = json.load(open(path))
    rp = rec["replay"]
    wd = vlib.workdir(PID)
    exe = vlib.build_harness("dbg")
    p = os.path.join(wd, "replay.ndjson")
    steps = [{"op": s["op"], "n": s["n"], "pos": s["pos"],
              "res": ({"ok": True, "val": s["expect"]["ok"]} if "ok" in s["expect"] else {"ok": False, "err": s["expect"]["err"]})}
             for s in rp["steps"]]
    vlib.write_ndjson(p, [{"streams": [rp["stream"]]}, {"sid": 1, "steps": steps}])
    rc, out, err = vlib.run_harness(exe, ["reader", "--scenarios", p, "--fixed-chunks", json.dumps(rp.get("chunks") or [1])])
    print(out)
    res = json.loads(out)
    return 1 if res["failures"] else 0
