"""C10 — Merkle openings verify for committed leaves and only for them.  (DESIGN.md section 6, C10)

R1  MC_Merkle: for trees of depth 1..4, every position list (all subsets; all orders of up to MaxPerm positions): the
    transcription of prove_batch/get_root/verify accepts the honest opening (Complete) and rejects every single
    mutation of it (Sound: leaf, node, position incl. duplicates/out of range, added/dropped node, node vector or
    leaf, depth +-1).  The variant of the transcription without the checks added by the fix: commit is refuted.
R2  every case with its mutation list is replayed on the real MerkleTree / BatchMerkleProof for all six hash functions
    (verify, verify_batch, get_root, into_paths, from_paths), plus single-path mutations and extreme depth/position values."""
import json, os, time
import vlib
from vlib import log

PID = "C10"


def run(tier, seed):
    t0 = time.time()
    v = vlib.Verdict(PID)
    wd = vlib.workdir(PID)
    exe = vlib.build_harness("dbg")
    states = trans = 0
    cases = []
    if tier == "quick":
        plan = [(1, 3, 16, 1), (2, 3, 16, 1), (3, 3, 16, 1), (4, 2, 16, 64)]
    else:
        plan = [(1, 4, 16, 1), (2, 4, 16, 1), (3, 4, 16, 1), (4, 3, 16, 1)]

    def mc(p):
        d, maxperm, maxsize, stride = p
        env = {"MK_STRICT": "1", "MK_MAXPERM": maxperm, "MK_MAXSIZE": maxsize, "MK_STRIDE": stride}
        return p, vlib.run_tlc("MC_Merkle", "MC_Merkle_d%d" % d, workers=2, env=env, tag="MC_Merkle_d%d" % d, timeout=3400, xmx="8g")

    for p, r in vlib.parallel(mc, plan, max_workers=4):
        log("[tlc] MC_Merkle depth=%d maxperm=%d stride=%d: %d states, %d cases, %.1fs%s" % (
            p[0], p[1], p[3], r.distinct, len(r.printed), r.wall, "" if r.ok else " ** " + str(r.violation)))
        states += r.distinct
        trans += r.generated
        cases += r.printed
        if not r.ok:
            v.violation("model/" + str(r.violation), "Merkle.tla (transcription of the code): %s is violated at depth %d" % (r.violation, p[0]),
                        {"tlc": r.out[-4000:]})
    # the upper end of the quantifier: 254 / 255 positions in trees of 2^9 .. 2^11 leaves (as many node vectors as the limit allows,
    # contiguous runs, mixtures), with a reduced mutation list
    def mcbig(d):
        return d, vlib.run_tlc("MC_MerkleBig", "MC_MerkleBig_d%d" % d, workers=2, tag="MC_MerkleBig_d%d" % d, timeout=3400, xmx="8g")

    nbig = 0
    for d, r in vlib.parallel(mcbig, [9, 10] if tier == "quick" else [9, 10, 11], max_workers=3):
        log("[tlc] MC_MerkleBig depth=%d: %d position lists of 254/255 positions, %.1fs%s" % (d, len(r.printed), r.wall, "" if r.ok else " ** " + str(r.violation)))
        states += r.distinct
        trans += r.generated
        cases += r.printed
        nbig += len(r.printed)
        if not r.ok:
            v.violation("model/big/" + str(r.violation), "Merkle.tla (transcription of the code): %s is violated at depth %d with 255 positions" % (r.violation, d),
                        {"tlc": r.out[-1500:]})
    # non-vacuity: the transcription without the leaf-count / all-nodes-consumed checks must be refuted
    rb = vlib.run_tlc("MC_Merkle", "MC_Merkle_d2", workers=2, env={"MK_STRICT": "0", "MK_MAXPERM": 2, "MK_MAXSIZE": 4, "MK_STRIDE": 1}, tag="MC_Merkle_ns")
    if rb.violation != "SoundInv":
        raise vlib.ToolError("self-test: non-strict transcription not refuted (%s)" % rb.violation)
    log("[tlc] pre-fix variant (no leaf-count / consumed-nodes checks) refuted: SoundInv")

    path = os.path.join(wd, "cases.ndjson")
    vlib.write_ndjson(path, cases)
    hashers = "blake3_256,rp64_256,rp62_248" if tier == "quick" else "blake3_256,blake3_192,sha3_256,rp62_248,rp64_256,rpjive64_256"
    # one harness process per hasher and per shard of the cases (the replay is single-threaded)
    nsh = 1 if len(cases) < 5000 else 3
    jobs = []
    for k in range(nsh):
        pk = os.path.join(wd, "cases_%d.ndjson" % k)
        vlib.write_ndjson(pk, cases[k::nsh])
        jobs += [(pk, h) for h in hashers.split(",")]

    def one(job):
        rc, out, err = vlib.run_harness(exe, ["merkle", "--scenarios", job[0], "--hashers", job[1]], timeout=6000)
        if rc != 0:
            raise vlib.ToolError("merkle harness rc=%s: %s" % (rc, err))
        return json.loads(out)

    parts = vlib.parallel(one, jobs, max_workers=14)
    res = {"cases": len(cases), "honest": sum(x["honest"] for x in parts), "mutated_batch": sum(x["mutated_batch"] for x in parts),
           "mutated_single": sum(x["mutated_single"] for x in parts), "spec_drift": sum(x["spec_drift"] for x in parts), "failures": []}
    seen = {}
    for x in parts:
        for f in x["failures"]:
            if f["key"] in seen:
                seen[f["key"]]["count"] += f["count"]
            else:
                seen[f["key"]] = f
                res["failures"].append(f)
    for f in res["failures"]:
        v.violation(f["key"], f["what"] + " (%d occurrences)" % f["count"], f["replay"])
    if res["spec_drift"]:
        v.note("SPEC-DRIFT: %d cases where the node layout or a verdict of the transcription differs from the code while the property-level oracle holds" % res["spec_drift"])
    log("[replay] %d cases x %d hashers: %d honest openings, %d mutated batch openings, %d mutated single paths, %d failure keys" % (
        res["cases"], len(hashers.split(",")), res["honest"], res["mutated_batch"], res["mutated_single"], len(res["failures"])))
    rc = v.finish()
    vlib.write_evidence(PID, tier, seed, "model_checking", {
        "states": states, "transitions": trans,
        "traces_validated_against_impl": res["honest"] + res["mutated_batch"] + res["mutated_single"],
        "samples": [{k: (c[k] if k not in ("muts", "model_accepts") else c[k][:3]) for k in c} for c in (cases[:1] + cases[-2:])],
        "evaluations": res["honest"] + res["mutated_batch"] + res["mutated_single"], "distinct_nontrivial": len(cases),
        "rule": "a case is a (depth, position list); plan (depth, all orders up to, max subset size, subset stride) = %s; each case carries every single "
                "mutation of its honest opening; plus %d position lists of 254/255 positions in trees of 2^9..2^11 leaves (MC_MerkleBig); replayed for hashers %s" % (plan, nbig, hashers),
        "big_cases": nbig, "exhaustive": tier == "thorough", "spec_drift": res["spec_drift"],
        "known_finding_occurrences": v.n_known, "new_violations": v.n_new, "notes": v.notes,
    }, time.time() - t0, violations=v.n_new,
        assumptions=["hash functions are collision free on the inputs used (terms in the model, real digests in the replay)",
                     "documented panics of BatchMerkleProof::from_paths on malformed path lists are outside the claim"])
    return rc


def replay(path):
    print(open(path).read()[:4000])
    return 1
