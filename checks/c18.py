"""C18 — security estimate and acceptance policy.  (DESIGN.md section 6, C18)

R1  MC_Security: the documented conjectured-security formula as a state machine over the parameter space; every step
    increases one of queries / grinding / extension degree / collision resistance; TLC checks the action property
    'the level never decreases' and the bound level <= collision resistance.
    Security.tla also has the admissible range of the proximity parameter of the proven estimate as an exact integer
    condition (n(4m+1) > 8m^2) and the estimate as the capped maximum over that range.
R3  the harness tabulates Proof::security_level (conjectured and proven) and AcceptableOptions::validate on synthetic
    proofs over the grid; Trace_Security.tla checks that every conjectured value EQUALS the formula, that both estimates
    are monotone along every axis and capped by the collision resistance, and that the policy verdicts are exactly
    'level >= minimum' / option-set membership."""
import json, os, time
import vlib
from vlib import log

PID = "C18"


GATE_REFUSALS = {"InconsistentBaseField", "parse-error", "ProofDeserializationError"}


def gate(v, exe, wd, tier, seed):
    """claims of MC_FieldGate.tla replayed through verify() on honest proofs over each field"""
    import c01, starkgen
    rg = vlib.run_tlc("MC_FieldGate", "MC_FieldGate", workers=1, env={"GATE_COMPARE": "equal"}, tag="MC_FieldGate_equal")
    if not rg.ok:
        v.violation("model/gate/" + str(rg.violation), "MC_FieldGate.tla: %s violated for the comparison by equality" % rg.violation, {"tlc": rg.out[-1500:]})
    rp = vlib.run_tlc("MC_FieldGate", "MC_FieldGate", workers=1, env={"GATE_COMPARE": "prefix"}, tag="MC_FieldGate_prefix")
    if rp.violation != "GateSound":
        raise vlib.ToolError("self-test: the field gate comparing by prefix is not refuted (%s)" % rp.violation)
    claims = [p for p in rg.printed if "claimed" in p]
    r, stmts = c01.gen(5, 1)
    rows = 0
    for bits in (62, 64, 128):
        cand = [s for s in stmts if s["t"]["bits"] == bits and s["t"]["ln"] <= 4 and s["t"]["width"] <= 4 and not s["t"]["auxd"] and s["t"]["grind"] == 0]
        if not cand:
            raise vlib.ToolError("no statement over the %d-bit field" % bits)
        for k in range(1 if tier == "quick" else 4):
            sc = starkgen.scenario(cand[(seed + 7 * k) % len(cand)], k, seed)
            mine = [c for c in claims if c["field"] == "f%d" % bits]
            ps, pc = os.path.join(wd, "gate_%d_%d.ndjson" % (bits, k)), os.path.join(wd, "gate_claims_%d.ndjson" % bits)
            vlib.write_ndjson(ps, [sc])
            vlib.write_ndjson(pc, [c["claimed"] for c in mine])
            rc, out, err = vlib.run_harness(exe, ["stark", "fieldgate", "--scenarios", ps, "--claims", pc], timeout=900)
            if rc != 0:
                raise vlib.ToolError("fieldgate harness rc=%s: %s" % (rc, err[-300:]))
            o = json.loads(out.splitlines()[0])
            if o.get("prove") != "ok":
                raise vlib.ToolError("fieldgate: honest proof not produced: %s" % str(o)[:200])
            for c, row in zip(mine, o["rows"]):
                rows += 1
                ctx = "f%d/%s, true level %s bits, claimed modulus %s (%d bits)" % (bits, sc["hasher"], o["level"], c["claimed"], c["bits"])
                if c["admitted"]:
                    if row["at0"] != "accepted" or row["at_level"] != "accepted":
                        v.violation("security/gate/honest-refused", "an honest proof is refused under a minimum equal to its level: %s / %s (%s)" % (row["at0"], row["at_level"], ctx), {"scenario": sc, "claim": c})
                    if not row["above"].startswith("InsufficientConjecturedSecurity"):
                        v.violation("security/gate/below-minimum", "a proof of level %s verified under a minimum of %s bits gives '%s' (%s)" % (o["level"], o["level"] + 1, row["above"], ctx), {"scenario": sc, "claim": c})
                else:
                    for which in ("at0", "above"):
                        if row[which] not in GATE_REFUSALS:
                            v.violation("security/gate/foreign-field", "a proof that claims a modulus other than the one of the computation's field is not refused at the gate: verdict '%s' "
                                        "under a minimum of %s bits - the security level was computed from the claimed field (%s)" % (row[which], 0 if which == "at0" else o["level"] + 1, ctx),
                                        {"scenario": sc, "claim": c})
                            break
    log("[replay] field gate: %d (proof, claimed modulus) pairs through verify() under minimum 0 / level / level+1" % rows)
    return rows


def run(tier, seed):
    t0 = time.time()
    v = vlib.Verdict(PID)
    wd = vlib.workdir(PID)
    exe = vlib.build_harness("dbg")
    r = vlib.tlc_check("MC_Security", "MC_Security", workers=8, env={"SEC_FULL": "1" if tier == "thorough" else "0"}, timeout=3400, xmx="10g")
    states, trans = r.distinct, r.generated
    if not r.ok:
        v.violation("model/" + str(r.violation), "Security.tla: the documented formula violates %s" % r.violation, {"tlc": r.out[-3000:]})
    # the field gate of verify(): the level must come from the field the computation is defined over (MC_FieldGate.tla)
    gate_rows = gate(v, exe, wd, tier, seed)
    shards = 8 if tier == "quick" else 16
    rc, out, err = vlib.run_harness(exe, ["security", "--out", wd, "--shards", str(shards)] + (["--thorough"] if tier == "thorough" else []), timeout=3400)
    if rc != 0:
        raise vlib.ToolError("security harness rc=%s: %s" % (rc, err))
    res = json.loads(out)
    for f in res["failures"]:
        v.violation(f["key"], "computing the security level panics: %s (params %s)" % (f["what"], f["params"]), f)

    def validate(f):
        return f, vlib.tlc_validate("Trace_Security", "Trace_Security", f["path"], tag="Trace_Security_" + os.path.basename(f["path"]), timeout=3400, xmx="6g")

    events = ok = 0
    sample = []
    for f, rt in vlib.parallel(validate, res["files"], max_workers=8):
        states += rt.distinct
        trans += rt.generated
        events += f["events"]
        if rt.ok:
            ok += 1
        else:
            line = int((__import__("re").search(r'TRACE-REJECTED at line",\s*(\d+),\s*"(\w+)"', rt.out) or [0, -1, "?"])[1])
            recs = open(f["path"]).read().splitlines()
            bad = json.loads(recs[line - 1]) if 0 < line <= len(recs) else {}
            ev = bad.get("ev", "?")
            what = {"row": "a conjectured level differs from the documented formula, or an estimate decreases with more queries / exceeds the collision resistance",
                    "mono": "an estimate decreases when %s grows" % bad.get("axis"),
                    "policy": "the minimum-security policy verdict is not 'level >= minimum'",
                    "optset": "the option-set policy verdict is not membership",
                    "prov_m": "the proven level is not the best level over the admissible proximity parameters (range bound, or a level credited to an inadmissible parameter)"}.get(ev, "trace rejected")
            small = {k: (x if not isinstance(x, list) or len(x) < 12 else x[:12] + ["..."]) for k, x in bad.items()}
            v.violation("security/%s%s" % (ev, "/" + bad.get("axis", "") if ev == "mono" else ("/" + bad.get("kind", "") if ev == "policy" else "")),
                        what + " (trace %s line %d)" % (f["path"], line), small)
    if res["files"]:
        sample = [json.loads(l) for l in open(res["files"][0]["path"]).read().splitlines()[:60]]
        sample = [{k: (x if not isinstance(x, list) or len(x) < 10 else x[:10] + ["..."]) for k, x in s.items()} for s in sample if s["ev"] in ("policy", "optset")][:3] + \
                 [{k: (x if not isinstance(x, list) or len(x) < 10 else x[:10] + ["..."]) for k, x in s.items()} for s in sample if s["ev"] == "row"][:1]
    log("[trace] %d grid rows (x255 query counts), %d events, %d/%d shards accepted" % (res["rows"], events, ok, len(res["files"])))
    rc = v.finish()
    vlib.write_evidence(PID, tier, seed, "model_checking", {
        "states": states, "transitions": trans, "traces_validated_against_impl": ok,
        "samples": sample,
        "evaluations": res["rows"] * 255, "distinct_nontrivial": res["rows"],
        "rule": "grid rows (field bits 62/64/128 x extension 1..3 x blowup 2..128 x grinding x trace length x collision resistance 96/124/128), "
                "each with all 255 query counts; neighbours along grinding/extension/collision resistance; policy thresholds level-1/level/level+1; "
                "option sets with and without the proof's options",
        "field_gate_rows": gate_rows, "exhaustive": False, "trace_events": events,
        "known_finding_occurrences": v.n_known, "new_violations": v.n_new,
    }, time.time() - t0, violations=v.n_new,
        assumptions=["LDE domains above 2^31 cannot be constructed through Context::new and are not tabulated",
                     "the per-parameter value of the proven estimate (floating point) is not modelled: monotonicity, the cap, its use by the policy, and - through the hook - the range of proximity parameters it is maximised over are checked",
                     "the refusal of proofs whose claimed field differs from the computation's field is exercised by the STARK-level checks (C03/C06)"])
    return rc


def replay(path):
    print(open(path).read()[:4000])
    return 1
