CONSTANT TransposeCapped = TRUE
CONSTANT TransposeMinBatchCells = 0
INIT Init
NEXT Next
INVARIANT InvLocalLookup
