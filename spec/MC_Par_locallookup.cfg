CONSTANT TransposeCapped = TRUE
INIT Init
NEXT Next
INVARIANT InvLocalLookup
