------------------------------ MODULE Gen_Coin ------------------------------
(* R1 + R2 for C19: the abstract coin as a state machine over small alphabets of seeds, reseed data and nonces.
   R1: in every reachable state the pair (chain, ctr) has never produced an output before (freshness) and the
   counter counts exactly the values consumed since the last absorption.  R2: every history of length Depth is
   printed as a scenario for the harness.                                                           *)
EXTENDS Coin, Json, IOUtils

Depth == atoi(IOEnv.GEN_DEPTH)
Seeds == {1, 2}
Datas == {1, 2, 3}         \* ids; 3 is the all-zero (default) digest: the hash of nothing, or an absent commitment
Nonces == {1, 2, 3}          \* ids; the harness maps them to boundary 64-bit values
Ops == {[op |-> "reseed", a |-> d, b |-> 0] : d \in Datas}
       \cup {[op |-> "draw", a |-> e, b |-> 0] : e \in {1, 2, 3}}                \* a = extension degree
       \cup {[op |-> "clz", a |-> n, b |-> 0] : n \in Nonces}
       \cup {[op |-> "ints", a |-> n, b |-> m] : n \in {1, 2, 3}, m \in {1, 3}}      \* b = how many

VARIABLES coin, hist, outs, done
vars == <<coin, hist, outs, done>>

Init == \E s \in Seeds : coin = CoinNew(s) /\ hist = <<[op |-> "new", a |-> s, b |-> 0]>> /\ outs = {} /\ done = FALSE

\* in the abstract machine every draw consumes exactly one counter value (the harness observes the real k)
Do(o) == /\ coin' = CASE o.op = "reseed" -> CoinReseed(coin, o.a)
                      [] o.op = "draw"   -> CoinDraw(coin, 1)
                      [] o.op = "clz"    -> coin
                      [] o.op = "ints"   -> CoinInts(coin, o.b, o.a)
         /\ outs' = outs \cup (CASE o.op = "draw" -> {OutTerm(coin, 1)}
                                 [] o.op = "ints" -> {OutTerm(CoinInts(coin, 0, o.a), i) : i \in 1..o.b}
                                 [] OTHER -> {})
         /\ hist' = Append(hist, o)
         /\ UNCHANGED done

Finish == Len(hist) = Depth + 1 /\ ~done /\ done' = TRUE /\ UNCHANGED <<coin, hist, outs>>
Offered == IF IOEnv.GEN_PICK = "random" THEN {RandomElement(Ops)} ELSE Ops
Next == (Len(hist) <= Depth /\ \E o \in Offered : Do(o)) \/ Finish

\* freshness: the next output has not been produced earlier in this history
Fresh == OutTerm(coin, 1) \notin outs
Emit == done => PrintT(ToJson([hist |-> hist]))
=============================================================================
