---------------------------- MODULE MC_FriProtocol ----------------------------
EXTENDS FriProtocol, Json, TLC
\* every finished behaviour is a strategy for the replay: what the prover committed and sent, with the model's verdict
Emit == phase = "done" => PrintT(ToJson([f0 |-> f0, layers |-> layers, openings |-> openings, rem |-> remSent, remc |-> remC, hit |-> hit, verdict |-> verdict]))
=============================================================================
