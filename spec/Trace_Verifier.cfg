INIT Init
NEXT Next
POSTCONDITION Accepted
