SPECIFICATION Spec
INVARIANT Bounded
PROPERTY Mono
