----------------------------- MODULE Trace_Coin -----------------------------
(* R3 for C19: every operation of the real DefaultRandomCoin, observed together with the hash calls it makes
   (recording hasher), must be the Coin.tla transition: which hash function is called on which arguments,
   how the seed and the counter evolve, and which bytes of which digest make the returned value.  At the end
   of every history a probe (two base-field draws) is compared across all histories of the run:
   equal abstract state (chain, ctr) <=> equal probe  (determinism and sensitivity).                *)
EXTENDS Coin, Json, IOUtils, TLCExt

Rec == ndJsonDeserialize(IOEnv.TRACE)

VARIABLES l, hasher, modulus, cb, seedD, coin, seen
vars == <<l, hasher, modulus, cb, seedD, coin, seen>>

E == Rec[l]

Init == l = 1 /\ hasher = "" /\ modulus = <<>> /\ cb = 0 /\ seedD = <<>> /\ coin = CoinNew(<<>>) /\ seen = <<>>

IsMWI(c, seed, vbytes) == c.f = "merge_with_int" /\ c.a = <<seed>> /\ c.v = vbytes

\* a draw of an element of extension degree deg from state (seed, ctr0): calls, returned bytes
DrawOK(calls, seed, ctr0, deg, ok, res) ==
    LET k  == Len(calls)
        eb == deg * cb
    IN  /\ k >= 1 /\ k <= 1000
        /\ \A i \in 1..k : IsMWI(calls[i], seed, LE8(ctr0 + i))
        /\ \A i \in 1..(k - 1) : ~ValidElement(SubSeq(calls[i].out, 1, eb), deg, cb, modulus)
        /\ IF ok THEN ValidElement(SubSeq(calls[k].out, 1, eb), deg, cb, modulus) /\ res = SubSeq(calls[k].out, 1, eb)
                 ELSE k = 1000 /\ ~ValidElement(SubSeq(calls[k].out, 1, eb), deg, cb, modulus)

Reset == /\ E.ev = "reset"
         /\ hasher' = E.hasher /\ modulus' = E.modulus /\ cb' = E.cb
         /\ UNCHANGED <<seedD, coin, seen>>

New == /\ E.ev = "new"
       /\ Len(E.calls) = 1 /\ E.calls[1].f = "hash_elements" /\ E.calls[1].a = <<E.seed>>
       /\ seedD' = E.calls[1].out
       /\ coin' = CoinNew(E.seed)
       /\ UNCHANGED <<hasher, modulus, cb, seen>>

Reseed == /\ E.ev = "reseed"
          /\ Len(E.calls) = 1 /\ E.calls[1].f = "merge" /\ E.calls[1].a = <<seedD, E.data>>
          /\ seedD' = E.calls[1].out
          /\ coin' = CoinReseed(coin, E.data)
          /\ UNCHANGED <<hasher, modulus, cb, seen>>

Draw == /\ E.ev = "draw"
        /\ DrawOK(E.calls, seedD, coin.ctr, E.deg, E.ok, E.res)
        /\ coin' = CoinDraw(coin, Len(E.calls))
        /\ UNCHANGED <<hasher, modulus, cb, seedD, seen>>

Clz == /\ E.ev = "clz"
       /\ Len(E.calls) = 1 /\ IsMWI(E.calls[1], seedD, E.nonce)
       /\ E.res = TZ64(E.calls[1].out)                       \* the measure the prover searched for
       /\ UNCHANGED <<hasher, modulus, cb, seedD, coin, seen>>

Ints == /\ E.ev = "ints"
        /\ E.ok
        /\ Len(E.calls) = E.m + 1 /\ IsMWI(E.calls[1], seedD, E.nonce)
        /\ LET s2 == E.calls[1].out
           IN  /\ \A i \in 1..E.m : IsMWI(E.calls[i + 1], s2, LE8(i))
               /\ Len(E.res) = E.m                                   \* exactly the requested number
               /\ \A i \in 1..E.m : E.res[i] = MaskLow(E.calls[i + 1].out, E.lg)   \* each below 2^lg
               /\ seedD' = s2
        /\ coin' = CoinInts(coin, E.m, E.nonce)
        /\ UNCHANGED <<hasher, modulus, cb, seen>>

Probe == /\ E.ev = "probe"
         /\ DrawOK(E.calls1, seedD, coin.ctr, 1, TRUE, SubSeq(E.res, 1, cb))
         /\ DrawOK(E.calls2, seedD, coin.ctr + Len(E.calls1), 1, TRUE, SubSeq(E.res, cb + 1, 2 * cb))
         /\ LET key  == <<hasher, coin.chain, coin.ctr>>
                k1   == Len(E.calls1)
                same == {x \in DOMAIN seen : seen[x].res = E.res}
                \* the one way two different states may legitimately give the same outputs: same chain, and every
                \* counter value between the two counters is rejected by the probe's element type (rejection
                \* sampling skips them).  It is still a deviation from the literal property, so it is reported.
                Masked(x) == /\ x[1] = key[1] /\ x[2] = key[2] /\ x[3] # key[3]
                             /\ IF x[3] < key[3] THEN seen[x].k > key[3] - x[3] ELSE k1 > x[3] - key[3]
            IN  IF key \in DOMAIN seen
                THEN E.res = seen[key].res /\ seen' = seen                       \* equal histories, equal outputs
                ELSE /\ \A x \in same : Masked(x)                                \* any difference changes them
                     /\ (same # {} => PrintT(<<"FINDING", "draw-count-masked-by-rejection", hasher>>))
                     /\ seen' = (key :> [res |-> E.res, k |-> k1]) @@ seen
         /\ UNCHANGED <<hasher, modulus, cb, seedD, coin>>

Next == l <= Len(Rec) /\ (Reset \/ New \/ Reseed \/ Draw \/ Clz \/ Ints \/ Probe) /\ l' = l + 1

Accepted ==
    LET d == TLCGet("stats").diameter
    IN  IF d = Len(Rec) + 1 THEN TRUE
        ELSE PrintT(<<"TRACE-REJECTED at line", d, Rec[d]>>) /\ FALSE
=============================================================================
