------------------------------ MODULE Trace_Ext ------------------------------
(* R3 for C08: each recorded operation on real extension elements must be the polynomial arithmetic of ExtField.tla.
   An "ops" event carries two operands x, y (coefficient tuples), a base element b and every result computed by the
   library; "frob" events carry x and conjugate(x) and are checked against x^p.                             *)
EXTENDS ExtField, Json, IOUtils, TLCExt

Rec == ndJsonDeserialize(IOEnv.TRACE)
VARIABLE l
E == Rec[l]
Init == l = 1

T(c) == TLCEval([i \in 1..Deg |-> NormN(c[i])])            \* JSON coefficient list -> element
Canon(c) == \A i \in 1..Deg : IsCanonical(NormN(c[i]))

Ops == /\ E.ev = "ops"
       /\ LET x == T(E.x)  y == T(E.y)  b == NormN(E.b) IN
          /\ \A k \in DOMAIN E.res : Canon(E.res[k])
          /\ T(E.res.add) = AddE(x, y)
          /\ T(E.res.sub) = SubE(x, y)
          /\ T(E.res.mul) = MulE(x, y)
          /\ T(E.res.neg) = NegE(x)
          /\ T(E.res.double) = AddE(x, x)
          /\ T(E.res.square) = MulE(x, x)                                 \* squaring fast path
          /\ T(E.res.cube) = MulE(MulE(x, x), x)
          /\ T(E.res.mul_base) = MulBaseE(x, b)
          /\ T(E.res.from_base) = Embed(b)                                \* embedding ...
          /\ T(E.res.embed_mul) = MulE(Embed(b), Embed(NormN(E.b2)))      \* ... is a ring homomorphism
          /\ T(E.res.embed_mul) = Embed(MulF(b, NormN(E.b2)))
          /\ IsInvE(x, T(E.res.inv))                                      \* every non-zero element has an inverse
          /\ (NormE(y) # ZeroE => MulE(T(E.res.div), y) = NormE(x))
          /\ T(E.res.exp3) = MulE(MulE(x, x), x) /\ T(E.res.exp0) = OneE
          /\ T(E.res.conj_mul) = MulE(T(E.res.conj_x), T(E.res.conj_y))   \* conj(xy) = conj(x) conj(y)
          /\ T(E.res.conj_add) = AddE(T(E.res.conj_x), T(E.res.conj_y))   \* conj(x+y) = conj(x) + conj(y)
          /\ (T(E.res.conj_x) = NormE(x)) = InBase(x)                      \* fixes exactly the base field
          /\ E.roundtrip                                                   \* slice reinterpretation / bytes round trips
          /\ E.eq_fresh

Frob == /\ E.ev = "frob"
        /\ T(E.conj) = Frobenius(T(E.x))

Hdr == E.ev = "hdr" /\ E.field = FieldName /\ E.deg = Deg

Next == l <= Len(Rec) /\ (Hdr \/ Ops \/ Frob) /\ l' = l + 1
Accepted ==
    LET d == TLCGet("stats").diameter
    IN  IF d = Len(Rec) + 1 THEN TRUE
        ELSE PrintT(<<"TRACE-REJECTED at line", d>>) /\ PrintT(Rec[d]) /\ FALSE
=============================================================================
