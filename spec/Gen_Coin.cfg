INIT Init
NEXT Next
INVARIANT Fresh
INVARIANT Emit
