------------------------------ MODULE Trace_PolyF ------------------------------
(* R3 for C20 over the real fields: the polynomial and batch utilities of winter-math executed over f62 / f64 / f128 and
   their quadratic and cubic extensions (Deg = 1 is the base field itself), each result checked against its defining
   identity in the generic algebra of PolyAlg.tla instantiated with the field arithmetic of ExtField.tla (BigNat).   *)
EXTENDS ExtField, Json, IOUtils

PA == INSTANCE PolyAlg WITH FAdd <- AddE, FSub <- SubE, FMul <- MulE, FZero <- ZeroE, FOne <- OneE

Rec == ndJsonDeserialize(IOEnv.TRACE)
VARIABLE l
E == Rec[l]
Init == l = 1

T(c) == TLCEval([i \in 1..Deg |-> NormN(c[i])])                 \* JSON coefficient list -> field element
Canon(c) == Len(c) = Deg /\ \A i \in 1..Deg : IsCanonical(NormN(c[i]))
TP(p) == TLCEval([i \in 1..Len(p) |-> T(p[i])])                 \* JSON list of elements -> polynomial / vector
CanonP(p) == \A i \in DOMAIN p : Canon(p[i])

Hdr == E.ev = "hdr" /\ E.field = FieldName /\ E.deg = Deg

Polys == /\ E.ev = "polys"
         /\ LET a == TP(E.a)  b == TP(E.b)  k == T(E.k)  R == E.res  xs == TP(E.xs)  ys == TP(E.ys)  roots == TP(E.roots)
                db == T(E.db) IN
            /\ \A f \in {"add", "sub", "mul", "scale", "rlz_a", "div", "syn", "synr", "eval_many", "from_roots", "interp", "interp_keep"} : CanonP(R[f])
            /\ PA!PEq(TP(R.add), PA!PAdd(a, b)) /\ Len(R.add) = PA!MaxLen(a, b)
            /\ PA!PEq(TP(R.sub), PA!PSub(a, b))
            /\ PA!PEq(TP(R.mul), PA!PMul(a, b)) /\ ((Len(a) > 0 /\ Len(b) > 0) => Len(R.mul) = Len(a) + Len(b) - 1)
            /\ PA!PEq(TP(R.scale), PA!PScale(a, k)) /\ Len(R.scale) = Len(a)
            /\ R.degree_a = PA!DegreeOf(a) /\ R.degree_b = PA!DegreeOf(b)
            /\ PA!PEq(TP(R.rlz_a), a) /\ (Len(R.rlz_a) = PA!DegreeOf(a) + 1 \/ (PA!IsZeroPoly(a) /\ Len(R.rlz_a) <= 1))
            /\ (R.div_ok => PA!DivRel(a, b, TP(R.div)))
            /\ (R.syn_ok => PA!SynRel(a, E.da, db, TP(R.syn)))
            /\ (R.synr_ok => PA!RootsRel(a, roots, TP(R.synr)))
            /\ T(R.eval_a) = PA!Eval(a, k)
            /\ \A i \in DOMAIN xs : T(R.eval_many[i]) = PA!Eval(a, xs[i])
            /\ PA!PEq(TP(R.from_roots), PA!FromRoots(xs)) /\ Len(R.from_roots) = Len(xs) + 1
            /\ Len(R.interp) <= Len(xs) /\ PA!Interpolates(TP(R.interp), xs, ys)
            /\ Len(R.interp_keep) = Len(xs) /\ PA!Interpolates(TP(R.interp_keep), xs, ys)

Batch == /\ E.ev = "batch"                                    \* interpolate_batch over rows of 4 points
         /\ \A r \in DOMAIN E.xs : PA!Interpolates(TP(E.polys[r]), TP(E.xs[r]), TP(E.ys[r]))

\* vector utilities: the record carries the checked positions only (at[j].i is the 0-based index)
Vec == /\ E.ev = "vectors"
       /\ E.len_series = E.len /\ E.len_series_off = E.len /\ E.len_inv = E.len
       /\ LET b == T(E.b)  s == T(E.s) IN
          \A j \in DOMAIN E.at : LET r == E.at[j]  v == T(r.val)  o == T(r.other)  bi == PA!Pow(b, r.i) IN
                /\ T(r.series) = bi                                                \* get_power_series
                /\ T(r.series_off) = MulE(s, bi)                                   \* get_power_series_with_offset
                /\ IF v = ZeroE THEN T(r.inv) = ZeroE ELSE MulE(v, T(r.inv)) = OneE \* batch_inversion, zeros preserved
                /\ T(r.added) = AddE(v, o)                                         \* add_in_place
                /\ T(r.macc) = AddE(v, MulE(o, s))                                 \* mul_acc
                /\ T(r.macc_base) = AddE(v, MulBaseE(s, NormN(r.other_base)))      \* mul_acc with base-field values

Next == l <= Len(Rec) /\ (Hdr \/ Polys \/ Batch \/ Vec) /\ l' = l + 1
Accepted ==
    LET d == TLCGet("stats").diameter
    IN  IF d = Len(Rec) + 1 THEN TRUE
        ELSE PrintT(<<"TRACE-REJECTED at line", d, Rec[d].ev>>) /\ FALSE
=============================================================================
