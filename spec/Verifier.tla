------------------------------- MODULE Verifier -------------------------------
(* The STARK verifier (verifier/src/lib.rs, perform_verification; fri/src/verifier) as an ordered list of checks over the
   components of a proof, together with the Fiat-Shamir dependency structure of the transcript.  Used for the clause of
   C03 "every value the verifier consumes is tied to a commitment that was made before the query positions were drawn",
   and as the model of WHICH check rejects a proof whose component c was changed.

   Messages are absorbed into the coin in the order Msgs; a challenge depends on every message absorbed before it is drawn.
   A check reads components directly and through challenges.  Changing component c makes the first check fail whose
   inputs depend on c (hash outputs are modelled as changing whenever an input changes; the proof-of-work check fails only
   when grinding is required, and then only with probability 1 - 2^-grinding, so it is an alternative, never the only
   expectation).

   HasAux / HasLag: the computation has an auxiliary segment / a Lagrange kernel column (GKR section);  L: FRI layers.    *)
EXTENDS Naturals, Sequences, FiniteSets, TLC

CONSTANTS HasAux, HasLag, L, Grind,
          CheckConstraintMerkle    \* TRUE in the protocol; FALSE is the refuted variant without the constraint-query opening check

FriRoot(k) == "friroot" \o ToString(k)
FlVal(k)   == "fl" \o ToString(k) \o ".values"
FlPath(k)  == "fl" \o ToString(k) \o ".paths"
Alpha(k)   == "alpha" \o ToString(k)
FriRoots == {FriRoot(k) : k \in 1..L}
FlVals   == {FlVal(k) : k \in 1..L}
FlPaths  == {FlPath(k) : k \in 1..L}
Alphas   == {Alpha(k) : k \in 1..L}

\* ---- the transcript: messages in absorption order, and after which message each challenge is drawn -------------------
Msgs == <<"ctx", "troot">> \o (IF HasAux THEN <<"auxroot">> ELSE <<>>) \o <<"croot", "oodtrace", "oodevals">>
        \o [k \in 1..L |-> FriRoot(k)] \o <<"remcommit", "nonce">>
Pos(m) == CHOOSE i \in DOMAIN Msgs : Msgs[i] = m
\* the message after whose absorption the challenge is drawn
DrawnAfter(ch) ==
    CASE ch = "auxrands"  -> "troot"
      [] ch = "coeffs"    -> IF HasAux THEN "auxroot" ELSE "troot"
      [] ch = "z"         -> "croot"
      [] ch = "deep"      -> "oodevals"
      [] ch = "positions" -> "nonce"
      [] OTHER            -> FriRoot(CHOOSE k \in 1..L : ch = Alpha(k))          \* alpha_k after the k-th layer commitment
Challenges == {"coeffs", "z", "deep", "positions"} \cup (IF HasAux THEN {"auxrands"} ELSE {}) \cup Alphas
\* every message absorbed no later than the draw (the GKR section is consumed by the GKR verifier, which draws from the coin,
\* between the main trace root and the auxiliary random elements)
DependsOn(ch) == {Msgs[i] : i \in 1..Pos(DrawnAfter(ch))} \cup (IF HasLag THEN {"gkr"} ELSE {})

\* ---- the components of a proof ---------------------------------------------------------------------------------------
Opened == {"tq.values", "tq.paths", "cq.values", "cq.paths", "remainder"} \cup FlVals \cup FlPaths
             \cup (IF HasAux THEN {"aq.values", "aq.paths"} ELSE {})
Components == {Msgs[i] : i \in DOMAIN Msgs} \cup Opened \cup (IF HasLag THEN {"gkr", "oodlag"} ELSE {}) \cup {"modulus"}

\* ---- the checks, in the order the verifier performs them, with what each reads -----------------------------------------
\* <<error class, components read directly, challenges read>>
Checks ==
    << [err |-> "InconsistentBaseField", reads |-> {"modulus"}, chals |-> {}] >>
    \o (IF HasLag THEN << [err |-> "GkrProofVerificationFailed", reads |-> {"gkr"}, chals |-> {}] >> ELSE << >>)
    \o
    << [err |-> "InconsistentOodConstraintEvaluations",
        reads |-> {"ctx", "oodtrace", "oodevals"} \cup (IF HasLag THEN {"oodlag"} ELSE {}),
        chals |-> {"coeffs", "z"} \cup (IF HasAux THEN {"auxrands"} ELSE {})],
       [err |-> "QuerySeedProofOfWorkVerificationFailed", reads |-> {Msgs[i] : i \in DOMAIN Msgs}, chals |-> {}],
       [err |-> "TraceQueryDoesNotMatchCommitment",
        reads |-> {"troot", "tq.values", "tq.paths"} \cup (IF HasAux THEN {"auxroot", "aq.values", "aq.paths"} ELSE {}),
        chals |-> {"positions"}],
       [err |-> "ConstraintQueryDoesNotMatchCommitment",
        reads |-> IF CheckConstraintMerkle THEN {"croot", "cq.values", "cq.paths"} ELSE {}, chals |-> IF CheckConstraintMerkle THEN {"positions"} ELSE {}] >>
    \o [k \in 1..L |->
       [err |-> "FriVerificationFailed/LayerCommitmentMismatch", reads |-> {FriRoot(k), FlVal(k), FlPath(k)},
        chals |-> {"positions"}]]
    \o << [err |-> "FriVerificationFailed/RemainderCommitmentMismatch", reads |-> {"remcommit", "remainder"}, chals |-> {}],
          \* the algebraic part of FRI: folding consistency of the DEEP evaluations through the layers down to the remainder
          [err |-> "FriVerificationFailed/InvalidLayerFolding",
           reads |-> {"tq.values", "cq.values", "oodtrace", "oodevals", "remainder"} \cup FlVals
                     \cup (IF HasAux THEN {"aq.values"} ELSE {}) \cup (IF HasLag THEN {"oodlag"} ELSE {}),
           chals |-> {"z", "deep", "positions"} \cup Alphas] >>
PowIdx == CHOOSE i \in DOMAIN Checks : Checks[i].err = "QuerySeedProofOfWorkVerificationFailed"
CommitmentErrors == {"TraceQueryDoesNotMatchCommitment", "ConstraintQueryDoesNotMatchCommitment",
                     "FriVerificationFailed/LayerCommitmentMismatch", "FriVerificationFailed/RemainderCommitmentMismatch"}

Affected(i, c) == c \in Checks[i].reads \/ \E ch \in Checks[i].chals : c \in DependsOn(ch)
\* the first check other than the proof of work that the change of c reaches
FirstFailing(c) == CHOOSE i \in DOMAIN Checks : i # PowIdx /\ Affected(i, c) /\ \A j \in 1..(i - 1) : j # PowIdx => ~Affected(j, c)
Reaches(c) == \E i \in DOMAIN Checks : i # PowIdx /\ Affected(i, c)
\* the error classes with which a proof whose component c was changed may be rejected
Expected(c) == {Checks[FirstFailing(c)].err}
               \cup (IF Grind > 0 /\ Affected(PowIdx, c) /\ PowIdx < FirstFailing(c) THEN {Checks[PowIdx].err} ELSE {})

\* ---- properties of the design -------------------------------------------------------------------------------------------
\* every component of a proof reaches some check: nothing in a proof is ignored
Bound == \A c \in Components : c # "cq.paths" \/ CheckConstraintMerkle => Reaches(c)
\* every opened value is caught by a comparison with a commitment (not only by the algebraic low-degree test), and that
\* commitment was absorbed before the query positions were drawn
TiedToCommitment ==
    \A c \in Opened : /\ Checks[FirstFailing(c)].err \in CommitmentErrors
                      /\ \A m \in Checks[FirstFailing(c)].reads : m \in {Msgs[i] : i \in DOMAIN Msgs} => m \in DependsOn("positions")
\* every challenge depends on every message that precedes it, and on the context
ChallengesBound == \A ch \in Challenges : "ctx" \in DependsOn(ch) /\ \A i \in 1..Pos(DrawnAfter(ch)) : Msgs[i] \in DependsOn(ch)
=============================================================================
