-------------------------------- MODULE Wire --------------------------------
(* The wire format of a proof (air/src/proof and fri/src/proof Serializable impls) as a grammar, and the family of
   structured mutations used by C03 (integrity) and C06 (untrusted input).

   A serialized proof is the sequence of fields below; a scalar field is a little-endian integer of the stated width, a
   blob is a length prefix of the stated width followed by that many bytes.  Per trace segment there is one "tq" group,
   per FRI layer one "fl" group.

   Mutations of a scalar: every boundary value of its width and its neighbours.  Mutations of a blob: shorten / lengthen / append a zero byte to
   the content consistently with the prefix, change the prefix alone (inconsistent with the rest), empty it, flip its
   first / last bit, replace its first element-sized chunk, swap its first two chunks, duplicate its last chunk.
   Content(p) is the decoded proof; the two exemptions of C03 are the FRI partition count (layout only) and alternative
   encodings of a digest.                                                                                  *)
EXTENDS VUtil

Scalar(name, w) == [name |-> name, kind |-> "scalar", width |-> w, inner |-> ""]
Blob(name, w)   == [name |-> name, kind |-> "blob", width |-> w, inner |-> ""]
VBlob(name)     == [name |-> name, kind |-> "vblob", width |-> 1, inner |-> ""]
\* a batch Merkle opening: one byte = number of node vectors, then per vector one byte = number of digests and the digests
PathsBlob(name) == [name |-> name, kind |-> "blob", width |-> 4, inner |-> "paths"]

Header == << Scalar("ti.main_width", 1), Scalar("ti.aux_width", 1), Scalar("ti.rands", 1), Scalar("ti.len_log2", 1),
             Blob("ti.meta", 2), Blob("modulus", 1),
             Scalar("opt.queries", 1), Scalar("opt.blowup", 1), Scalar("opt.grinding", 1), Scalar("opt.extension", 1),
             Scalar("opt.folding", 1), Scalar("opt.remainder", 1),
             Scalar("unique_queries", 1), Blob("commitments", 2) >>
QueryGroup(p) == << Blob(p \o ".values", 4), PathsBlob(p \o ".paths") >>
\* the Lagrange kernel frame: one byte = number of elements, then the elements
LagBlob(name) == [name |-> name, kind |-> "blob", width |-> 2, inner |-> "lagframe"]
Ood == << Blob("ood.trace", 2), LagBlob("ood.lagrange"), Blob("ood.evaluations", 2) >>
\* the optional GKR proof closes the proof: a tag byte, then (if present) a byte vector with a vint64 length prefix (one
\* byte, 2 * length + 1, for the lengths that occur)
Tail_(gkr) == << Blob("fri.remainder", 2), Scalar("fri.partitions", 1), Scalar("pow_nonce", 8), Scalar("gkr.tag", 1) >>
              \o (IF gkr THEN << VBlob("gkr.body") >> ELSE << >>)

\* the grammar for a proof with `segments` trace segments and `layers` FRI layers, with or without a GKR proof
Grammar(segments, layers, gkr) ==
    Header
    \o FoldLeft(LAMBDA acc, i : acc \o QueryGroup("tq" \o ToString(i)), <<>>, [i \in 1..segments |-> i])
    \o QueryGroup("cq") \o Ood
    \o << Scalar("fri.num_layers", 1) >>
    \o FoldLeft(LAMBDA acc, i : acc \o QueryGroup("fl" \o ToString(i)), <<>>, [i \in 1..layers |-> i])
    \o Tail_(gkr)

MaxOf(w) == CASE w = 1 -> "ff" [] w = 2 -> "ffff" [] w = 4 -> "ffffffff" [] w = 8 -> "ffffffffffffffff"
ScalarMutations == {"zero", "one", "max", "max-1", "plus1", "minus1", "flip-high-bit"}
\* the optional trailing component (GKR proof): absent -> present with a well-formed 3-byte body; present -> absent
WideLens == {"max", "max-1", "wrap", "wrap+len", "wrap-1", "2^63", "2^32", "2^31"}
OptionMutations == {"set-some", "set-none"} \cup {"set-some-wide:" \o x : x \in WideLens}
BlobMutations   == {"shorten", "lengthen", "append-zero", "prefix+1", "prefix-1", "prefix-max", "empty", "flip-first-bit", "flip-last-bit",
                    "zero-first-chunk", "swap-chunks", "dup-last-chunk", "drop-first-chunk",
                    \* maximal bytes: the content as it is long, and contents of one to four 8-byte words (whole elements of every field)
                    "fill-ff", "resize-ff:8", "resize-ff:16", "resize-ff:24", "resize-ff:32"}

\* a vint64 length prefix whose first byte is 0 announces an eight-byte length (the following bytes): a huge vector
\* a 64-bit scalar (the proof-of-work nonce) shifted by a field modulus or a limb boundary: a value that a hasher reducing the
\* integer modulo its field, or keeping only one limb, cannot tell from the original
AliasMutations == {"add:" \o x : x \in {"p64", "p62", "2^32", "2^62", "2^63"}}
\* WideLens: the eight-byte length is one of the largest values, or makes "reader position + length" wrap around 2^64
VBlobMutations  == BlobMutations \cup {"prefix-wide"} \cup {"prefix-wide:" \o x : x \in WideLens}
\* one-byte scalars (counts, sizes, exponents, option fields): every value, so that semantic boundaries (the largest valid
\* exponent, the largest valid option) are met whatever they are
ByteSet == {"set:" \o ToString(x) : x \in 0..255}
\* shape changes inside a batch Merkle opening that keep every length prefix consistent (the C10 shape mutations, at proof level)
PathsMutations == {"inner-drop-last-digest", "inner-add-digest", "inner-drop-vector", "inner-add-empty-vector", "inner-move-digest",
                   "inner-empty-vector"}
\* a Lagrange kernel frame with one element fewer / more (count byte and length prefix consistent), and a frame where none belongs
LagMutations == {"lag-drop-element", "lag-add-element", "lag-make-frame"}
\* whole FRI layers added (copies of the last one) or removed together with the layer count
LayerMutations == {"add-layer-copies:" \o ToString(k) : k \in {1, 2, 3, 4, 6, 12}} \cup {"remove-last-layer"}
\* a different statement header with the rest of the proof kept structurally consistent with it: trace length exponent, blowup,
\* folding factor and remainder degree take every combination the option reader admits (also the ones no honest prover can
\* serve: folding steps that leave fewer than two rows or no point at all); the proof gets as many FRI layers and layer
\* commitments as the verifier expects for that header, by the schedule function of Fri.tla
FriM == INSTANCE Fri
HeaderCombos == {<<ln, lb, f, rem>> : ln \in 3..8, lb \in 1..4, f \in {2, 4, 8, 16}, rem \in {0, 1, 3, 7, 15, 31, 63, 127, 255}}
HeaderMutation(h) == "header:" \o ToString(h[1]) \o "," \o ToString(2 ^ h[2]) \o "," \o ToString(h[3]) \o "," \o ToString(h[4]) \o ","
                     \o ToString(FriM!NumLayers(2 ^ (h[1] + h[2]), h[3], 2 ^ h[2], h[4]))
HeaderMutations == {HeaderMutation(h) : h \in HeaderCombos}
\* another field extension claimed, with every component made of extension-field elements re-sized to that extension's element size
\* (all length prefixes consistent): the claim reaches the verifier's dispatch on the extension instead of failing at a length check
ExtensionMutations == {"reextend:" \o ToString(d) : d \in 1..3}
MutationsOf(f) == IF f.name = "opt.extension" THEN {[field |-> f.name, m |-> x] : x \in ByteSet \cup ExtensionMutations} ELSE
                  IF f.name = "commitments" THEN {[field |-> f.name, m |-> x] : x \in BlobMutations \cup HeaderMutations} ELSE
                  IF f.name = "fri.num_layers" THEN {[field |-> f.name, m |-> x] : x \in ByteSet \cup LayerMutations} ELSE
                  IF f.inner = "lagframe" THEN {[field |-> f.name, m |-> x] : x \in BlobMutations \cup LagMutations} ELSE
                  IF f.inner = "paths" THEN {[field |-> f.name, m |-> x] : x \in BlobMutations \cup PathsMutations} ELSE
                  IF f.kind = "scalar" /\ f.width = 1 /\ f.name # "gkr.tag"
                  THEN {[field |-> f.name, m |-> x] : x \in ByteSet} ELSE
                  IF f.kind = "vblob" THEN {[field |-> f.name, m |-> x] : x \in VBlobMutations} ELSE
                  IF f.kind = "scalar" THEN {[field |-> f.name, m |-> x] : x \in ScalarMutations \cup (IF f.name = "gkr.tag" THEN OptionMutations ELSE {})
                                                                              \cup (IF f.width = 8 THEN AliasMutations ELSE {})}
                  ELSE {[field |-> f.name, m |-> x] : x \in BlobMutations}
AllMutations(segments, layers, gkr) == UNION {MutationsOf(Grammar(segments, layers, gkr)[i]) : i \in DOMAIN Grammar(segments, layers, gkr)}

\* a mutation may leave the decoded content unchanged only in these cases (C03's exemptions and no-ops)
MayKeepContent(mu) == mu.field = "fri.partitions"
=============================================================================
