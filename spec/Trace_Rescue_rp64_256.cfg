CONSTANT FieldName = "f64"
CONSTANT Hasher = "rp64_256"
INIT Init
NEXT Next
POSTCONDITION Accepted
