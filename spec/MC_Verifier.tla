------------------------------ MODULE MC_Verifier ------------------------------
(* R1 + R2 for the check-order model: TLC checks Bound / TiedToCommitment / ChallengesBound for the configuration given by the
   environment (VER_AUX, VER_LAG, VER_LAYERS, VER_GRIND, VER_CQM) and prints, for every component, the error classes with
   which a proof whose component was changed may be rejected. *)
EXTENDS Json, IOUtils, Naturals, TLC
V == INSTANCE Verifier WITH HasAux <- IOEnv.VER_AUX = "1", HasLag <- IOEnv.VER_LAG = "1", L <- atoi(IOEnv.VER_LAYERS),
                            Grind <- atoi(IOEnv.VER_GRIND), CheckConstraintMerkle <- IOEnv.VER_CQM = "1"
VARIABLE c
Init == c \in V!Components
Next == UNCHANGED c
Bound == V!Bound
TiedToCommitment == V!TiedToCommitment
ChallengesBound == V!ChallengesBound
Emit == PrintT(ToJson([component |-> c, expected |-> IF V!Reaches(c) THEN V!Expected(c) ELSE {}]))
=============================================================================
