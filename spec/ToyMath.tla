------------------------------- MODULE ToyMath -------------------------------
(* Arithmetic of the toy STARK field F_p, p = 40961 = 5 * 2^13 + 1 (p^2 < 2^31, so TLC evaluates it with native integers),
   and the definitional polynomial operations used as reference by C09 (transforms), C20 (polynomial utilities), C17
   (composition polynomial) and the FRI folding identity of C15.  The generic code of the repository runs over this field
   through the harness type ToyField; generator 3, 2^13-th root of unity 243 = 3^5.                          *)
EXTENDS Naturals, Sequences, SequencesExt, TLCExt

P == 40961
G == 3
Root13 == 243                       \* of order 2^13
Md(x) == x % P
AddM(a, b) == (a + b) % P
SubM(a, b) == (a + P - (b % P)) % P
MulM(a, b) == (a * b) % P
NegM(a) == (P - (a % P)) % P
RECURSIVE PowM(_, _)
PowM(a, e) == IF e = 0 THEN 1 ELSE IF e % 2 = 1 THEN MulM(a, PowM(MulM(a, a), e \div 2)) ELSE PowM(MulM(a, a), e \div 2)
InvM(a) == IF a % P = 0 THEN 0 ELSE PowM(a, P - 2)
\* primitive root of unity of order 2^k (k <= 13)
RootOfOrder(n) == PowM(Root13, 8192 \div n)

\* ---- polynomials: coefficient sequences, lowest degree first ----------------------------------------------
Eval(p, x) == FoldLeft(LAMBDA acc, c : (acc * x + c) % P, 0, Reverse(p))        \* Horner
EvalR(rp, x) == FoldLeft(LAMBDA acc, c : (acc * x + c) % P, 0, rp)              \* rp = Reverse(p), computed once
DegreeOf(p) == LET nz == {i \in DOMAIN p : p[i] % P # 0} IN IF nz = {} THEN 0 ELSE (CHOOSE i \in nz : \A j \in nz : j <= i) - 1
IsZeroPoly(p) == \A i \in DOMAIN p : p[i] % P = 0
Coef(p, i) == IF i >= 1 /\ i <= Len(p) THEN p[i] ELSE 0
PAdd(a, b) == TLCEval([i \in 1..(IF Len(a) >= Len(b) THEN Len(a) ELSE Len(b)) |-> AddM(Coef(a, i), Coef(b, i))])
PSub(a, b) == TLCEval([i \in 1..(IF Len(a) >= Len(b) THEN Len(a) ELSE Len(b)) |-> SubM(Coef(a, i), Coef(b, i))])
PScale(a, k) == TLCEval([i \in 1..Len(a) |-> MulM(a[i], k)])
PMul(a, b) == IF Len(a) = 0 \/ Len(b) = 0 THEN <<>>
              ELSE TLCEval([k \in 1..(Len(a) + Len(b) - 1) |->
                     FoldLeft(LAMBDA acc, i : IF k - i + 1 >= 1 /\ k - i + 1 <= Len(b) THEN (acc + a[i] * b[k - i + 1]) % P ELSE acc,
                              0, [i \in 1..Len(a) |-> i])])
PEq(a, b) == \A i \in 1..(IF Len(a) >= Len(b) THEN Len(a) ELSE Len(b)) : Coef(a, i) % P = Coef(b, i) % P
\* x^k - c
XkMinus(k, c) == TLCEval([i \in 1..(k + 1) |-> IF i = 1 THEN NegM(c) ELSE IF i = k + 1 THEN 1 ELSE 0])
\* product of (x - r) over the roots
FromRoots(rs) == FoldLeft(LAMBDA acc, r : PMul(acc, <<NegM(r), 1>>), <<1>>, rs)
=============================================================================
