------------------------------ MODULE ExtField ------------------------------
(* Quadratic and cubic extensions of the base fields as polynomials modulo the documented irreducible polynomial
   (property C08).  An element is the tuple of its base-field coefficients (BigNat byte sequences), lowest degree first.
       f64  : x^2 = x - 2          x^3 = x + 1
       f62  : x^2 = x + 1          x^3 = -2x - 2
       f128 : x^2 = x + 1          (no cubic extension)
   Multiplication is the schoolbook product followed by the reduction x^n = Red; conjugation is the Frobenius map x -> x^p. *)
EXTENDS PrimeField, TLCExt

CONSTANT Deg                \* 2 | 3

Two == <<2>>
\* coefficients of x^Deg expressed in the basis 1, x, .., x^(Deg-1)
Red == CASE FieldName = "f64"  /\ Deg = 2 -> << NegF(Two), OneN >>
         [] FieldName = "f64"  /\ Deg = 3 -> << OneN, OneN, <<>> >>
         [] FieldName = "f62"  /\ Deg = 2 -> << OneN, OneN >>
         [] FieldName = "f62"  /\ Deg = 3 -> << NegF(Two), NegF(Two), <<>> >>
         [] FieldName = "f128" /\ Deg = 2 -> << OneN, OneN >>

ZeroE == [i \in 1..Deg |-> <<>>]
OneE  == [i \in 1..Deg |-> IF i = 1 THEN OneN ELSE <<>>]
Embed(b) == [i \in 1..Deg |-> IF i = 1 THEN RedF(b) ELSE <<>>]
NormE(x) == TLCEval([i \in 1..Deg |-> RedF(x[i])])
AddE(x, y) == TLCEval([i \in 1..Deg |-> AddF(x[i], y[i])])
SubE(x, y) == TLCEval([i \in 1..Deg |-> SubF(x[i], y[i])])
NegE(x)    == [i \in 1..Deg |-> NegF(x[i])]
MulBaseE(x, b) == [i \in 1..Deg |-> MulF(x[i], b)]

\* coefficient k (0-based) of the plain polynomial product
ProdCoef(x, y, k) == FoldLeft(LAMBDA acc, i : IF k - i >= 0 /\ k - i <= Deg - 1 THEN AddF(acc, MulF(x[i + 1], y[k - i + 1])) ELSE acc,
                              <<>>, [i \in 1..Deg |-> i - 1])
\* fold the coefficient of x^k (k >= Deg, highest first) into the lower ones using x^Deg = Red
RECURSIVE ReduceFrom(_, _)
ReduceFrom(c, k) ==       \* c: function 0..2Deg-2 -> coefficient
    IF k < Deg THEN c
    ELSE ReduceFrom(TLCEval([j \in DOMAIN c |-> IF j = k THEN <<>>
                                        ELSE IF j >= k - Deg /\ j <= k - 1 THEN AddF(c[j], MulF(c[k], Red[j - (k - Deg) + 1]))
                                        ELSE c[j]]), k - 1)
\* TLC evaluates function constructors lazily and without memoisation; TLCEval forces a value so that chains of
\* multiplications (exponentiation) do not recompute their operands
MulE(x, y) == LET c0 == TLCEval([k \in 0..(2 * Deg - 2) |-> ProdCoef(x, y, k)])
                  c  == ReduceFrom(c0, 2 * Deg - 2)
              IN  TLCEval([i \in 1..Deg |-> c[i - 1]])
SqrE(x) == MulE(x, x)

RECURSIVE ExpEAcc(_, _, _)
ExpEAcc(base, e, acc) == IF e = <<>> THEN acc
                         ELSE ExpEAcc(SqrE(base), HalfN(e), IF IsOddN(e) THEN MulE(acc, base) ELSE acc)
ExpE(x, e) == ExpEAcc(NormE(x), NormN(e), OneE)

Frobenius(x) == ExpE(x, Modulus)          \* x -> x^p
IsInvE(x, y) == IF NormE(x) = ZeroE THEN NormE(y) = ZeroE ELSE MulE(x, y) = OneE
InBase(x) == \A i \in 2..Deg : RedF(x[i]) = <<>>
=============================================================================
