-------------------------------- MODULE MC_Par --------------------------------
(* R1 for C14: the decompositions for every length 2^3..2^MaxLog (and lengths around the threshold that are not powers
   of two for batch_iter_mut) and every thread-pool size 1..64; the transposition for every LDE height 2^4..2^MaxLog and
   1..32 segments; the evaluation fragments for 2^10..2^15 rows and periodic tables of 2..2^13 rows.       *)
EXTENDS Par, IOUtils
MaxLog == atoi(IOEnv.PAR_MAXLOG)
VARIABLES kind, len, threads, aux
Threads == IF IOEnv.PAR_THREADS = "all" THEN 1..64 ELSE {1, 2, 3, 4, 5, 7, 8, 9, 16, 17, 24, 32, 33, 63, 64}
Init == /\ threads \in Threads
        /\ \/ kind = "batch" /\ len \in {2 ^ k : k \in 3..MaxLog} \cup {1, 2, 3, 1023, 1025, 1500, 2049, 3000, 4097, 5000, 8193, 16385} /\ aux = 0
           \/ kind = "permute" /\ len \in {2 ^ k : k \in 10..MaxLog} /\ aux = 0
           \/ kind = "merkle" /\ len \in {2 ^ k : k \in 10..MaxLog} /\ aux = 0        \* len = number of leaf pairs (leaves / 2 >= 1024)
           \/ kind = "transpose" /\ len \in {2 ^ k : k \in 4..MaxLog} /\ aux \in 2..32   \* len = LDE rows, aux = segments (one segment is not transposed)
           \/ kind = "fragments" /\ len \in {2 ^ k : k \in 10..14} /\ aux = 0                    \* len = evaluation rows
           \/ kind = "periodic" /\ len \in {2 ^ k : k \in 10..18} /\ aux \in {2 ^ k : k \in 1..16}   \* aux = periodic table rows
Next == UNCHANGED <<kind, len, threads, aux>>
Inv == CASE kind = "batch" -> BatchOK(len, threads)
         [] kind = "permute" -> PermuteOK(len, threads)
         [] kind = "merkle" -> MerkleOK(len, threads)
         [] kind = "transpose" -> TransposeOKArith(len, aux, threads) /\ (len <= 64 => TransposeOK(len, aux, threads))
         [] kind = "fragments" -> FragmentsOK(len, threads)
         [] kind = "periodic" -> PeriodicLookupOK(len, threads, aux, FALSE)
\* refuted (non-vacuity): looking the periodic values up by the fragment-local row index
InvLocalLookup == kind = "periodic" => PeriodicLookupOK(len, threads, aux, TRUE)
=============================================================================
