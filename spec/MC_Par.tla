-------------------------------- MODULE MC_Par --------------------------------
(* R1 for C14: the three decompositions for every length 2^3..2^MaxLog (and lengths around the threshold that are not powers
   of two for batch_iter_mut) and every thread-pool size 1..64.                                            *)
EXTENDS Par, IOUtils
MaxLog == atoi(IOEnv.PAR_MAXLOG)
VARIABLES kind, len, threads
Threads == IF IOEnv.PAR_THREADS = "all" THEN 1..64 ELSE {1, 2, 3, 4, 5, 7, 8, 9, 16, 17, 24, 32, 33, 63, 64}
Init == /\ threads \in Threads
        /\ \/ kind = "batch" /\ len \in {2 ^ k : k \in 3..MaxLog} \cup {1, 2, 3, 1023, 1025, 1500, 2049, 3000, 4097, 5000, 8193, 16385}
           \/ kind = "permute" /\ len \in {2 ^ k : k \in 10..MaxLog}
           \/ kind = "merkle" /\ len \in {2 ^ k : k \in 10..MaxLog}        \* len = number of leaf pairs (leaves / 2 >= 1024)
Next == UNCHANGED <<kind, len, threads>>
Inv == CASE kind = "batch" -> BatchOK(len, threads)
         [] kind = "permute" -> PermuteOK(len, threads)
         [] kind = "merkle" -> MerkleOK(len, threads)
=============================================================================
