INIT Init
NEXT Next
INVARIANT BoundSoundInv
