------------------------- MODULE Trace_ReadAdapter -------------------------
(* R3 for C13: validates executions recorded from the real ReadAdapter (hook verif_state) against the
   implementation-shaped model with the real constants (Cap = 256, CompactAt = 16).  Each "op" line
   must be explained by ApplyA from the current model state: same result, same projected internal
   state (|buf|, bpos, |rbuf|, geof).  This ties the model that R1 checks exhaustively to the code. *)
EXTENDS ReadAdapter, Json, IOUtils, TLCExt

Rec == ndJsonDeserialize(IOEnv.TRACE)

VARIABLES l, st
vars == <<l, st>>

Fresh(stream, chunks) == St(stream, chunks, 1, <<>>, <<>>, 0, FALSE, FALSE)
Proj(s) == [buflen |-> Len(s.buf), bpos |-> s.bpos, rbuf |-> Len(s.rbuf), geof |-> s.geof]

Init == l = 1 /\ st = Fresh(<<>>, <<1>>)

Reset == /\ Rec[l].ev = "reset"
         /\ st' = Fresh(Rec[l].stream, Rec[l].chunks)

OpEv  == /\ Rec[l].ev = "op"
         /\ \E c \in BOOLEAN :
               LET a == ApplyA(st, [op |-> Rec[l].op, n |-> Rec[l].n], c)
               IN  /\ a.res = Rec[l].res
                   /\ Proj(a.st) = Rec[l].st
                   /\ ~a.st.oob
                   /\ st' = a.st

Next == l <= Len(Rec) /\ (Reset \/ OpEv) /\ l' = l + 1

Accepted ==
    LET d == TLCGet("stats").diameter
    IN  IF d = Len(Rec) + 1 THEN TRUE
        ELSE PrintT(<<"TRACE-REJECTED at line", d, Rec[d]>>) /\ FALSE
=============================================================================
