--------------------------- MODULE MC_ReadAdapter ---------------------------
(* R1 for C13: exhaustive refinement check ReadAdapter => Bytes on scaled constants (Cap = 4,
   CompactAt = 2): all listed streams, all chunk schedules over ChunkSizes of length <= MaxSched,
   all operation sequences to depth MaxDepth.                                                   *)
EXTENDS ReadAdapter, IOUtils

Streams == << <<1, 2, 3, 4, 5, 6, 7, 8, 9, 10>>,      \* index-valued (data independence)
              <<0, 1, 2, 3, 4, 5, 6, 7, 8, 9, 10, 11>>, \* 9-byte vint marker first
              <<2, 0, 128, 255, 1, 16, 64, 8, 3>>,      \* vint lengths 2,9,8,1,1,5,7,4 ; bool/utf8 classes
              <<1>>, <<>> >>
ChunkSizes == IF IOEnv.MC_EMPTY = "1" THEN {0, 1, 3} ELSE {1, 2, 3, 5}
MaxSched == 2
MaxDepth == atoi(IOEnv.MC_DEPTH)

Scheds == UNION {[1..k -> ChunkSizes] : k \in 1..MaxSched}

O(name, n) == [op |-> name, n |-> n]
Ops == {O(nm, 0) : nm \in {"read_u8", "peek_u8", "read_bool", "read_u16", "read_u32", "read_u64",
                           "read_usize", "has_more_bytes"}}
       \cup {O(nm, k) : nm \in {"read_slice", "check_eor"}, k \in {0, 1, 3, 5}}
       \cup {O("read_array", k) : k \in {0, 3, 5}}
       \cup {O("read_string", 2), O("read_many_u16", 2), O("read_many_u8", 3)}

VARIABLES sidx, st, depth, good, lastop
vars == <<sidx, st, depth, good, lastop>>

Init == /\ sidx \in 1..Len(Streams)
        /\ \E sch \in Scheds : st = St(Streams[sidx], sch, 1, <<>>, <<>>, 0, FALSE, FALSE)
        /\ depth = 0 /\ good = TRUE /\ lastop = O("init", 0)

Next == /\ depth < MaxDepth /\ good
        /\ \E op \in Ops, compact \in BOOLEAN :
              /\ good' = StepRefines(Streams[sidx], st, op, compact)
              /\ st' = ApplyA(st, op, compact).st
              /\ lastop' = op
        /\ depth' = depth + 1
        /\ UNCHANGED sidx

Refines == good
\* the state the hook exposes stays well-formed
WellFormed == st.bpos <= Len(st.buf) /\ Len(st.rbuf) <= Cap /\ ~st.oob
\* geof is only latched when the source really has nothing left (no empty reads in the schedule)
GeofSound == (st.geof /\ \A i \in DOMAIN st.chunks : st.chunks[i] > 0) => st.src = <<>> /\ st.rbuf = <<>>
View == <<sidx, st, good>>
=============================================================================
