---- MODULE MC_FriProtocol_TTrace_1790252140 ----
EXTENDS Sequences, TLCExt, Toolbox, Naturals, TLC, MC_FriProtocol

_expression ==
    LET MC_FriProtocol_TEExpression == INSTANCE MC_FriProtocol_TEExpression
    IN MC_FriProtocol_TEExpression!expression
----

_trace ==
    LET MC_FriProtocol_TETrace == INSTANCE MC_FriProtocol_TETrace
    IN MC_FriProtocol_TETrace!trace
----

_inv ==
    ~(
        TLCGet("level") = Len(_TETrace)
        /\
        phase = ("done")
        /\
        hit = ("first")
        /\
        remSent = ("committed")
        /\
        verdict = ("accept")
        /\
        layers = (<<"fold">>)
        /\
        f0 = ("low")
        /\
        queried = (TRUE)
        /\
        remC = ("partial")
        /\
        remCommitted = (TRUE)
        /\
        alphasDrawn = (1)
        /\
        openings = (<<"asis">>)
    )
----

_init ==
    /\ phase = _TETrace[1].phase
    /\ queried = _TETrace[1].queried
    /\ remCommitted = _TETrace[1].remCommitted
    /\ layers = _TETrace[1].layers
    /\ alphasDrawn = _TETrace[1].alphasDrawn
    /\ f0 = _TETrace[1].f0
    /\ remC = _TETrace[1].remC
    /\ hit = _TETrace[1].hit
    /\ verdict = _TETrace[1].verdict
    /\ remSent = _TETrace[1].remSent
    /\ openings = _TETrace[1].openings
----

_next ==
    /\ \E i,j \in DOMAIN _TETrace:
        /\ \/ /\ j = i + 1
              /\ i = TLCGet("level")
        /\ phase  = _TETrace[i].phase
        /\ phase' = _TETrace[j].phase
        /\ queried  = _TETrace[i].queried
        /\ queried' = _TETrace[j].queried
        /\ remCommitted  = _TETrace[i].remCommitted
        /\ remCommitted' = _TETrace[j].remCommitted
        /\ layers  = _TETrace[i].layers
        /\ layers' = _TETrace[j].layers
        /\ alphasDrawn  = _TETrace[i].alphasDrawn
        /\ alphasDrawn' = _TETrace[j].alphasDrawn
        /\ f0  = _TETrace[i].f0
        /\ f0' = _TETrace[j].f0
        /\ remC  = _TETrace[i].remC
        /\ remC' = _TETrace[j].remC
        /\ hit  = _TETrace[i].hit
        /\ hit' = _TETrace[j].hit
        /\ verdict  = _TETrace[i].verdict
        /\ verdict' = _TETrace[j].verdict
        /\ remSent  = _TETrace[i].remSent
        /\ remSent' = _TETrace[j].remSent
        /\ openings  = _TETrace[i].openings
        /\ openings' = _TETrace[j].openings

\* Uncomment the ASSUME below to write the states of the error trace
\* to the given file in Json format. Note that you can pass any tuple
\* to `JsonSerialize`. For example, a sub-sequence of _TETrace.
    \* ASSUME
    \*     LET J == INSTANCE Json
    \*         IN J!JsonSerialize("MC_FriProtocol_TTrace_1790252140.json", _TETrace)

=============================================================================

 Note that you can extract this module `MC_FriProtocol_TEExpression`
  to a dedicated file to reuse `expression` (the module in the 
  dedicated `MC_FriProtocol_TEExpression.tla` file takes precedence 
  over the module `MC_FriProtocol_TEExpression` below).

---- MODULE MC_FriProtocol_TEExpression ----
EXTENDS Sequences, TLCExt, Toolbox, Naturals, TLC, MC_FriProtocol

expression == 
    [
        \* To hide variables of the `MC_FriProtocol` spec from the error trace,
        \* remove the variables below.  The trace will be written in the order
        \* of the fields of this record.
        phase |-> phase
        ,queried |-> queried
        ,remCommitted |-> remCommitted
        ,layers |-> layers
        ,alphasDrawn |-> alphasDrawn
        ,f0 |-> f0
        ,remC |-> remC
        ,hit |-> hit
        ,verdict |-> verdict
        ,remSent |-> remSent
        ,openings |-> openings
        
        \* Put additional constant-, state-, and action-level expressions here:
        \* ,_stateNumber |-> _TEPosition
        \* ,_phaseUnchanged |-> phase = phase'
        
        \* Format the `phase` variable as Json value.
        \* ,_phaseJson |->
        \*     LET J == INSTANCE Json
        \*     IN J!ToJson(phase)
        
        \* Lastly, you may build expressions over arbitrary sets of states by
        \* leveraging the _TETrace operator.  For example, this is how to
        \* count the number of times a spec variable changed up to the current
        \* state in the trace.
        \* ,_phaseModCount |->
        \*     LET F[s \in DOMAIN _TETrace] ==
        \*         IF s = 1 THEN 0
        \*         ELSE IF _TETrace[s].phase # _TETrace[s-1].phase
        \*             THEN 1 + F[s-1] ELSE F[s-1]
        \*     IN F[_TEPosition - 1]
    ]

=============================================================================



Parsing and semantic processing can take forever if the trace below is long.
 In this case, it is advised to uncomment the module below to deserialize the
 trace from a generated binary file.

\*
\*---- MODULE MC_FriProtocol_TETrace ----
\*EXTENDS IOUtils, TLC, MC_FriProtocol
\*
\*trace == IODeserialize("MC_FriProtocol_TTrace_1790252140.bin", TRUE)
\*
\*=============================================================================
\*

---- MODULE MC_FriProtocol_TETrace ----
EXTENDS TLC, MC_FriProtocol

trace == 
    <<
    ([phase |-> "commit",hit |-> "na",remSent |-> "none",verdict |-> "none",layers |-> <<>>,f0 |-> "low",queried |-> FALSE,remC |-> "none",remCommitted |-> FALSE,alphasDrawn |-> 0,openings |-> <<>>]),
    ([phase |-> "commit",hit |-> "na",remSent |-> "none",verdict |-> "none",layers |-> <<"fold">>,f0 |-> "low",queried |-> FALSE,remC |-> "none",remCommitted |-> FALSE,alphasDrawn |-> 0,openings |-> <<>>]),
    ([phase |-> "commit",hit |-> "na",remSent |-> "none",verdict |-> "none",layers |-> <<"fold">>,f0 |-> "low",queried |-> FALSE,remC |-> "none",remCommitted |-> FALSE,alphasDrawn |-> 1,openings |-> <<>>]),
    ([phase |-> "commit",hit |-> "na",remSent |-> "none",verdict |-> "none",layers |-> <<"fold">>,f0 |-> "low",queried |-> FALSE,remC |-> "partial",remCommitted |-> TRUE,alphasDrawn |-> 1,openings |-> <<>>]),
    ([phase |-> "query",hit |-> "first",remSent |-> "none",verdict |-> "none",layers |-> <<"fold">>,f0 |-> "low",queried |-> TRUE,remC |-> "partial",remCommitted |-> TRUE,alphasDrawn |-> 1,openings |-> <<>>]),
    ([phase |-> "query",hit |-> "first",remSent |-> "none",verdict |-> "none",layers |-> <<"fold">>,f0 |-> "low",queried |-> TRUE,remC |-> "partial",remCommitted |-> TRUE,alphasDrawn |-> 1,openings |-> <<"asis">>]),
    ([phase |-> "query",hit |-> "first",remSent |-> "committed",verdict |-> "none",layers |-> <<"fold">>,f0 |-> "low",queried |-> TRUE,remC |-> "partial",remCommitted |-> TRUE,alphasDrawn |-> 1,openings |-> <<"asis">>]),
    ([phase |-> "done",hit |-> "first",remSent |-> "committed",verdict |-> "accept",layers |-> <<"fold">>,f0 |-> "low",queried |-> TRUE,remC |-> "partial",remCommitted |-> TRUE,alphasDrawn |-> 1,openings |-> <<"asis">>])
    >>
----


=============================================================================

---- CONFIG MC_FriProtocol_TTrace_1790252140 ----
CONSTANTS
    L = 1
    RemFoldAll = FALSE
    CheckRemCommit = TRUE

INVARIANT
    _inv

CHECK_DEADLOCK
    \* CHECK_DEADLOCK off because of PROPERTY or INVARIANT above.
    FALSE

INIT
    _init

NEXT
    _next

CONSTANT
    _TETrace <- _trace

ALIAS
    _expression
=============================================================================
\* Generated on Thu Sep 24 12:15:41 UTC 2026