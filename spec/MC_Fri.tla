------------------------------- MODULE MC_Fri -------------------------------
(* R1 + R2 for C15/C05.
   layout  : for every domain size n <= MaxN, folding factor and position list (with duplicates) of length <= 3, the
             value the verifier reads for position p is the prover's evaluation at p; folded positions are
             duplicate-free and cover every p mod n/f.
   schedule: every (domain, folding, blowup, remainder) tuple of the option space that is well-formed passes the
             verifier's integer guards, and prover/verifier layer counts agree by construction (same operator).
   protocol: the adversary strategies with the verdict of the model; Sound must hold with the remainder commitment
             check and is refuted without it.                                                            *)
EXTENDS Fri, Json, IOUtils, TLC

MaxLn == atoi(IOEnv.FRI_MAXLN)
Chk   == IOEnv.FRI_CHK = "1"

VARIABLES kind, c
vars == <<kind, c>>

Folds == {2, 4, 8, 16}
LayoutCases == {[n |-> 2 ^ ln, f |-> f, ps |-> ps] : ln \in 3..5, f \in Folds, ps \in {<<>>}} \* placeholder, refined below
PosLists(n) == UNION {[1..k -> 0..(n - 1)] : k \in 1..2} \cup {<<0, n - 1, n \div 2>>, <<1, 1, 1>>, <<n - 1, n \div 4, n - 1>>}

\* remainder degree bounds: FriOptions accepts every value 0..255 (ProofOptions only one less than a power of two)
Rems == {2 ^ r - 1 : r \in 0..8} \cup {2, 4, 5, 6, 12, 100, 200, 254}
SchedCases == {[ln |-> ln, lb |-> lb, f |-> f, rem |-> rem] : ln \in 0..MaxLn, lb \in 1..7, f \in Folds, rem \in Rems}
StratCases == {[s |-> s] : s \in Strategies}
\* degree bounds whose number of coefficients is not a power of two: k * 2^j coefficients
RemVariant == IOEnv.FRI_REMCHECK
BoundCases == {[m |-> k * 2 ^ j, lb |-> lb, f |-> f, rem |-> rem] : k \in {3, 5, 6, 7, 9, 11}, j \in 0..(MaxLn - 2), lb \in 1..4, f \in Folds, rem \in {0, 1, 2, 3, 5, 7, 15, 31}}

Init == \/ /\ kind = "layout" /\ \E ln \in 3..5, f \in Folds : 2 ^ ln \div f >= 2 /\ \E ps \in PosLists(2 ^ ln) : c = [n |-> 2 ^ ln, f |-> f, ps |-> ps]
        \/ /\ kind = "sched" /\ c \in SchedCases
        \/ /\ kind = "strategy" /\ c \in StratCases
        \/ /\ kind = "bound" /\ c \in BoundCases
Next == UNCHANGED vars

\* the honest prover's opened rows for the folded positions, with evaluation p represented by the number p itself
Rows(n, f, folded) == [i \in DOMAIN folded |-> [col \in 1..f |-> folded[i] + (col - 1) * (n \div f)]]
LayoutInv == kind = "layout" =>
    LET folded == FoldPositions(c.ps, c.n, c.f)
    IN  /\ \A i, j \in DOMAIN folded : i # j => folded[i] # folded[j]
        /\ \A i \in DOMAIN c.ps : \E j \in DOMAIN folded : folded[j] = c.ps[i] % (c.n \div c.f)
        /\ \A i \in DOMAIN c.ps : QueryValue(Rows(c.n, c.f, folded), folded, c.ps[i], c.n, c.f) = c.ps[i]
SchedInv == kind = "sched" =>
    LET d == 2 ^ (c.ln + c.lb) IN WellFormed(d, c.f, 2 ^ c.lb, c.rem) => GuardsOK(d, c.f, 2 ^ c.lb, c.rem)
\* refuted (non-vacuity): the domain inferred from the degree instead of the number of coefficients (degree bound 1)
SchedInvOldDomain == kind = "sched" =>
    LET d == 2 ^ (c.ln + c.lb) IN WellFormed(d, c.f, 2 ^ c.lb, c.rem) => GuardsOKWith(d, c.f, 2 ^ c.lb, c.rem, FALSE)
SoundInv == kind = "strategy" => Sound(c.s, Chk)
BoundCompleteInv == kind = "bound" => BoundComplete(RemVariant, c.m, c.f, 2 ^ c.lb, c.rem)
BoundSoundInv == kind = "bound" => BoundSound(RemVariant, c.m, c.f, 2 ^ c.lb, c.rem)

Emit == CASE kind = "sched" ->
               LET d == 2 ^ (c.ln + c.lb) IN
               (WellFormed(d, c.f, 2 ^ c.lb, c.rem) /\ c.ln + c.lb <= IF MaxLn > 10 THEN 14 ELSE 12)
                   => PrintT(ToJson([kind |-> "sched", ln |-> c.ln, lb |-> c.lb, fold |-> c.f, rem |-> c.rem,
                                     layers |-> NumLayers(d, c.f, 2 ^ c.lb, c.rem),
                                     \* the last layer is at most half of the largest admissible remainder domain (the folding "jumps over" it)
                                     jump |-> 2 * RemDomain(d, c.f, 2 ^ c.lb, c.rem) <= MaxRemainderSize(2 ^ c.lb, c.rem)]))
          [] kind = "bound" ->
               LET b == 2 ^ c.lb  d == CoefDomain(c.m, b) IN
               (InBoundClaim(c.m, c.f, b, c.rem) /\ d >= 8 /\ d <= 2 ^ (IF MaxLn > 10 THEN 14 ELSE 11))
                   => PrintT(ToJson([kind |-> "bound", m |-> c.m, lb |-> c.lb, fold |-> c.f, rem |-> c.rem, layers |-> NumLayers(d, c.f, b, c.rem),
                                     excess |-> NextPow2F(c.m) - c.m]))
          [] kind = "strategy" -> PrintT(ToJson([kind |-> "strategy", s |-> c.s, accepts |-> Accepts(c.s, Chk)]))
          [] kind = "layout" -> PrintT(ToJson([kind |-> "layout", n |-> c.n, f |-> c.f, ps |-> c.ps,
                                              folded |-> FoldPositions(c.ps, c.n, c.f)]))
=============================================================================
