CONSTANT L = 3
CONSTANT CheckRemCommit = FALSE
SPECIFICATION Spec
INVARIANT Sound
INVARIANT Complete
INVARIANT Order
INVARIANT Emit
