CONSTANTS
  Cap = 256
  CompactAt = 16
  Bug = "none"
INIT Init
NEXT Next
POSTCONDITION Accepted
