INIT Init
NEXT Next
INVARIANT PosInRange
INVARIANT NonConsumingOK
INVARIANT Emit
