CONSTANT L = 1
CONSTANT RemFoldAll = FALSE
CONSTANT CheckRemCommit = TRUE
SPECIFICATION Spec
INVARIANT Sound
INVARIANT Complete
INVARIANT Order
INVARIANT Emit
