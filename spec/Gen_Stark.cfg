INIT Init
NEXT Next
INVARIANT StaysAdmissible
INVARIANT HonestOK
INVARIANT Emit
VIEW View
