------------------------------- MODULE MC_Wire -------------------------------
(* R2 generator for C03/C06: prints the grammar and every structured mutation for proofs with the given number of
   trace segments and FRI layers; checks that the grammar is well formed (distinct field names, every blob has a prefix
   width) so that a mutation names exactly one place of the serialized proof.                           *)
EXTENDS Wire, Json, IOUtils, TLC
Layers == atoi(IOEnv.WIRE_LAYERS)
Segments == atoi(IOEnv.WIRE_SEGMENTS)
Gkr == IOEnv.WIRE_GKR = "1"
VARIABLE mu
Init == mu \in AllMutations(Segments, Layers, Gkr)
Next == UNCHANGED mu
G == Grammar(Segments, Layers, Gkr)
GrammarOK == /\ \A i, j \in DOMAIN G : i # j => G[i].name # G[j].name
             /\ \A i \in DOMAIN G : G[i].width \in {1, 2, 4, 8}
             /\ \E i \in DOMAIN G : G[i].name = mu.field
Emit == PrintT(ToJson([field |-> mu.field, m |-> mu.m, may_keep_content |-> MayKeepContent(mu)]))
ASSUME PrintT(ToJson([grammar |-> G]))
=============================================================================
