------------------------------- MODULE Merkle -------------------------------
(* Merkle commitment and openings (winter-crypto MerkleTree / BatchMerkleProof), property C10.

   The hash function is uninterpreted and injective: a digest is the term that produced it.
       Leaf(i)   the i-th committed leaf            Mrg(a, b)   H::merge([a, b])         Junk(k)  a foreign digest
   The tree over N = 2^Depth leaves is the heap NodeAt(1..2N-1) with the leaves at N..2N-1.

   Declarative: an opening for the position list ps claims  ps[k] |-> leaves[k];  it must verify iff it is the
   honest opening of ps.  Implementation-shaped: ProveBatchImpl and GetRootImpl transcribe
   MerkleTree::prove_batch and BatchMerkleProof::get_root statement by statement (node vectors indexed by
   the position in the *current* level's index list, proof_pointers, sibling skipping, every InvalidProof exit). *)
EXTENDS VUtil, Integers

CONSTANT Depth
N == 2^Depth

Leaf(i)   == <<"L", i>>
Mrg(a, b) == <<"N", a, b>>
Junk(k)   == <<"J", k>>

RECURSIVE NodeAt(_)
NodeAt(i) == IF i >= N THEN Leaf(i - N) ELSE Mrg(NodeAt(2 * i), NodeAt(2 * i + 1))
Root == NodeAt(1)

Xor1(x) == IF x % 2 = 0 THEN x + 1 ELSE x - 1
Shr1(x) == x \div 2

\* the authentication path of position p as MerkleTree::prove returns it: leaf, sibling leaf, then siblings upward
RECURSIVE PathUp(_)
PathUp(i) == IF i <= 1 THEN <<>> ELSE <<NodeAt(Xor1(i))>> \o PathUp(Shr1(i))
Path(p) == <<Leaf(p)>> \o PathUp(p + N)

\* MerkleTree::verify(root, index, proof), transcribed for proofs of length >= 2 (fold from the leaf pair upward)
RECURSIVE VerifyFold(_, _, _, _)
VerifyFold(v, index, proof, k) ==
    IF k > Len(proof) THEN v
    ELSE VerifyFold(IF index % 2 = 0 THEN Mrg(v, proof[k]) ELSE Mrg(proof[k], v), Shr1(index), proof, k + 1)
VerifyImpl(index, proof) ==
    LET r  == index % 2
        v0 == Mrg(proof[r + 1], proof[(1 - r) + 1])
    IN  VerifyFold(v0, Shr1(index + 2 ^ (Len(proof) - 1)), proof, 3)

\* ---- helpers mirroring map_indexes / normalize_indexes ---------------------------------------------
SortedSeqOf(S) == SortSeq(SetToSeq(S), <)
IndexMapOK(ps, depth) == /\ \A k \in DOMAIN ps : ps[k] < 2 ^ depth
                         /\ Cardinality({ps[k] : k \in DOMAIN ps}) = Len(ps)
PosOf(ps, p) == CHOOSE k \in DOMAIN ps : ps[k] = p          \* index_map.get(p) when present
Has(ps, p)   == \E k \in DOMAIN ps : ps[k] = p
Normalize(ps) == SortedSeqOf({ps[k] - (ps[k] % 2) : k \in DOMAIN ps})

\* ---- prove_batch -------------------------------------------------------------------------------------
\* one level of the upward pass: walks the current index list, pushes the sibling onto nodes[i] unless the next
\* entry is the sibling; returns the new node vectors and the parent index list
RECURSIVE ProveLevel(_, _, _, _)
ProveLevel(idx, i, nodes, next) ==
    IF i > Len(idx) THEN [nodes |-> nodes, next |-> next]
    ELSE LET sib == Xor1(idx[i])
         IN  IF i + 1 <= Len(idx) /\ idx[i + 1] = sib
             THEN ProveLevel(idx, i + 2, nodes, Append(next, Shr1(sib)))
             ELSE ProveLevel(idx, i + 1, [nodes EXCEPT ![i] = Append(@, NodeAt(sib))], Append(next, Shr1(sib)))
RECURSIVE ProveLevels(_, _, _)
ProveLevels(idx, nodes, lvl) ==
    IF lvl >= Depth THEN nodes
    ELSE LET r == ProveLevel(idx, 1, nodes, <<>>) IN ProveLevels(r.next, r.nodes, lvl + 1)

ProveBatchImpl(ps) ==
    LET norm  == Normalize(ps)
        nodes0 == [j \in DOMAIN norm |->
                     (IF Has(ps, norm[j]) THEN <<>> ELSE <<Leaf(norm[j])>>)
                     \o (IF Has(ps, norm[j] + 1) THEN <<>> ELSE <<Leaf(norm[j] + 1)>>)]
        next0 == [j \in DOMAIN norm |-> Shr1(norm[j] + N)]
    IN  [leaves |-> [k \in DOMAIN ps |-> Leaf(ps[k])], nodes |-> ProveLevels(next0, nodes0, 1), depth |-> Depth]

\* ---- get_root ----------------------------------------------------------------------------------------
\* state of the upward pass: v (node index |-> digest), ptr (proof_pointers), err
RECURSIVE RootLevel(_, _, _, _, _, _)
RootLevel(pr, idx, i, v, ptr, next) ==
    IF i > Len(idx) THEN [err |-> FALSE, v |-> v, ptr |-> ptr, next |-> next]
    ELSE LET ni  == idx[i]
             sib == Xor1(ni)
         IN  IF i + 1 <= Len(idx) /\ idx[i + 1] = sib
             THEN IF sib \notin DOMAIN v \/ ni \notin DOMAIN v THEN [err |-> TRUE]
                  ELSE LET parent == IF ni % 2 # 0 THEN Mrg(v[sib], v[ni]) ELSE Mrg(v[ni], v[sib])
                       IN  RootLevel(pr, idx, i + 2, (Shr1(ni) :> parent) @@ v, ptr, Append(next, Shr1(ni)))
             ELSE IF Len(pr.nodes[i]) <= ptr[i] THEN [err |-> TRUE]
                  ELSE IF ni \notin DOMAIN v THEN [err |-> TRUE]
                  ELSE LET s == pr.nodes[i][ptr[i] + 1]
                           parent == IF ni % 2 # 0 THEN Mrg(s, v[ni]) ELSE Mrg(v[ni], s)
                       IN  RootLevel(pr, idx, i + 1, (Shr1(ni) :> parent) @@ v, [ptr EXCEPT ![i] = @ + 1],
                                     Append(next, Shr1(ni)))
RECURSIVE RootLevels(_, _, _, _, _)
RootLevels(pr, idx, v, ptr, lvl) ==
    IF lvl >= pr.depth THEN [err |-> FALSE, v |-> v, ptr |-> ptr]
    ELSE LET r == RootLevel(pr, idx, 1, v, ptr, <<>>)
         IN  IF r.err THEN r ELSE RootLevels(pr, r.next, r.v, r.ptr, lvl + 1)

\* first level: pairs of leaves; returns per normalized index either an error or [parent, ptr]
FirstLevel(pr, ps, norm, j) ==
    LET index == norm[j]
        nl == Len(pr.leaves)
    IN  IF Has(ps, index)
        THEN IF nl < PosOf(ps, index) THEN [err |-> TRUE]
             ELSE IF Has(ps, index + 1)
                  THEN IF nl < PosOf(ps, index + 1) THEN [err |-> TRUE]
                       ELSE [err |-> FALSE, parent |-> Mrg(pr.leaves[PosOf(ps, index)], pr.leaves[PosOf(ps, index + 1)]), ptr |-> 0]
                  ELSE IF pr.nodes[j] = <<>> THEN [err |-> TRUE]
                       ELSE [err |-> FALSE, parent |-> Mrg(pr.leaves[PosOf(ps, index)], pr.nodes[j][1]), ptr |-> 1]
        ELSE IF pr.nodes[j] = <<>> THEN [err |-> TRUE]
             ELSE IF Has(ps, index + 1)
                  THEN IF nl < PosOf(ps, index + 1) THEN [err |-> TRUE]
                       ELSE [err |-> FALSE, parent |-> Mrg(pr.nodes[j][1], pr.leaves[PosOf(ps, index + 1)]), ptr |-> 1]
                  ELSE [err |-> TRUE]

\* Strict = the checks added by the fix: commit (leaf count, all nodes consumed); FALSE models the code before it
GetRootImpl(pr, ps, Strict) ==
    IF Len(ps) = 0 \/ Len(ps) > 255 THEN Err("count")
    ELSE IF pr.depth >= 31 THEN Err("depth")                          \* 2^depth must be representable
    ELSE IF ~IndexMapOK(ps, pr.depth) THEN Err("index")
    ELSE LET norm == Normalize(ps)
         IN  IF Len(norm) # Len(pr.nodes) THEN Err("invalid")
             ELSE IF Strict /\ Len(pr.leaves) # Len(ps) THEN Err("invalid")
             ELSE LET fl == [j \in DOMAIN norm |-> FirstLevel(pr, ps, norm, j)]
                  IN  IF \E j \in DOMAIN norm : fl[j].err THEN Err("invalid")
                      ELSE LET offset == 2 ^ pr.depth
                               v0   == [x \in {Shr1(offset + norm[j]) : j \in DOMAIN norm} |->
                                          fl[CHOOSE j \in DOMAIN norm : Shr1(offset + norm[j]) = x].parent]
                               ptr0 == [j \in DOMAIN norm |-> fl[j].ptr]
                               idx0 == [j \in DOMAIN norm |-> Shr1(offset + norm[j])]
                               r    == RootLevels(pr, idx0, v0, ptr0, 1)
                           IN  IF r.err THEN Err("invalid")
                               ELSE IF 1 \notin DOMAIN r.v THEN Err("invalid")
                               ELSE IF Strict /\ \E j \in DOMAIN norm : r.ptr[j] # Len(pr.nodes[j]) THEN Err("invalid")
                               ELSE Ok(r.v[1])

\* ---- mutations of an opening (pr, ps): records [k |-> kind, i, j, x] applied by Mutate --------------------
MutationsOf(pr, ps) ==
    {[k |-> "leaf", i |-> i, j |-> 0, x |-> 0] : i \in DOMAIN pr.leaves}
    \cup {[k |-> "swapleaves", i |-> i, j |-> i + 1, x |-> 0] : i \in 1..(Len(pr.leaves) - 1)}
    \cup UNION {{[k |-> "node", i |-> i, j |-> j, x |-> 0] : j \in DOMAIN pr.nodes[i]} : i \in DOMAIN pr.nodes}
    \cup {[k |-> "addnode", i |-> i, j |-> 0, x |-> 0] : i \in DOMAIN pr.nodes}
    \cup {[k |-> "dropnode", i |-> i, j |-> 0, x |-> 0] : i \in {i2 \in DOMAIN pr.nodes : pr.nodes[i2] # <<>>}}
    \cup {[k |-> kk, i |-> 0, j |-> 0, x |-> 0] : kk \in {"addvec", "dropvec", "addleaf", "dropleaf", "depth+1", "depth-1"}}
    \cup UNION {{[k |-> "pos", i |-> i, j |-> 0, x |-> x] : x \in (0..(N + 1)) \ {ps[i]}} : i \in DOMAIN ps}

DropLast(s) == SubSeq(s, 1, Len(s) - 1)
Mutate(pr, ps, m) ==
    CASE m.k = "leaf"       -> [pr |-> [pr EXCEPT !.leaves[m.i] = Junk(1)], ps |-> ps]
      [] m.k = "swapleaves" -> [pr |-> [pr EXCEPT !.leaves[m.i] = pr.leaves[m.j], !.leaves[m.j] = pr.leaves[m.i]], ps |-> ps]
      [] m.k = "node"       -> [pr |-> [pr EXCEPT !.nodes[m.i][m.j] = Junk(2)], ps |-> ps]
      [] m.k = "addnode"    -> [pr |-> [pr EXCEPT !.nodes[m.i] = Append(@, Junk(3))], ps |-> ps]
      [] m.k = "dropnode"   -> [pr |-> [pr EXCEPT !.nodes[m.i] = DropLast(@)], ps |-> ps]
      [] m.k = "addvec"     -> [pr |-> [pr EXCEPT !.nodes = Append(@, <<>>)], ps |-> ps]
      [] m.k = "dropvec"    -> [pr |-> [pr EXCEPT !.nodes = DropLast(@)], ps |-> ps]
      [] m.k = "addleaf"    -> [pr |-> [pr EXCEPT !.leaves = Append(@, Junk(4))], ps |-> ps]
      [] m.k = "dropleaf"   -> [pr |-> [pr EXCEPT !.leaves = DropLast(@)], ps |-> ps]
      [] m.k = "depth+1"    -> [pr |-> [pr EXCEPT !.depth = @ + 1], ps |-> ps]
      [] m.k = "depth-1"    -> [pr |-> [pr EXCEPT !.depth = @ - 1], ps |-> ps]
      [] m.k = "pos"        -> [pr |-> pr, ps |-> [ps EXCEPT ![m.i] = m.x]]

\* ---- properties of the design ---------------------------------------------------------------------------
Complete(ps, Strict) == GetRootImpl(ProveBatchImpl(ps), ps, Strict) = Ok(Root)
SinglePathOK(p)      == VerifyImpl(p, Path(p)) = Root
AcceptedMutations(ps, Strict) ==
    LET pr == ProveBatchImpl(ps)
    IN  {m \in MutationsOf(pr, ps) : LET mm == Mutate(pr, ps, m) IN GetRootImpl(mm.pr, mm.ps, Strict) = Ok(Root)}
Sound(ps, Strict) == AcceptedMutations(ps, Strict) = {}
=============================================================================
