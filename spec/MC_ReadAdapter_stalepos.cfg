CONSTANTS
  Cap = 4
  CompactAt = 2
  Bug = "stalepos"
INIT Init
NEXT Next
INVARIANT Refines
INVARIANT WellFormed
INVARIANT GeofSound
VIEW View
