CONSTANT Depth = 1
INIT Init
NEXT Next
INVARIANT CompleteInv
INVARIANT PathInv
INVARIANT Emit
