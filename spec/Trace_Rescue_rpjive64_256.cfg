CONSTANT FieldName = "f64"
CONSTANT Hasher = "rpjive64_256"
INIT Init
NEXT Next
POSTCONDITION Accepted
