CONSTANTS
  Cap = 4
  CompactAt = 2
  Bug = "shorteof"
INIT Init
NEXT Next
INVARIANT Refines
INVARIANT WellFormed
INVARIANT GeofSound
VIEW View
