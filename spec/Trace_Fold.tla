------------------------------ MODULE Trace_Fold ------------------------------
(* R3 for the folding identity of C15: fri::folding::apply_drp executed over ToyField for every folding factor N.

   f has m coefficients; its evaluations over the coset offset * <w_m> are the input.  Writing f(x) = sum_{j<N} x^j f_j(x^N)
   (f_j = the j-th interleaved coefficient slice), the folded polynomial is g(y) = sum_{j<N} alpha^j f_j(y), and the output must be
   the evaluations of g over the folded coset offset^N * <w_{m/N}> in natural order.
   fold_positions: the positions p mod (m/N) in order of first occurrence, without duplicates.                          *)
EXTENDS ToyMath, Json, IOUtils, Naturals, FiniteSets

Rec == ndJsonDeserialize(IOEnv.TRACE)
VARIABLE l
E == Rec[l]
Init == l = 1

Pt(offset, N, i) == MulM(offset, PowM(RootOfOrder(N), i))

Folded(poly, N, alpha) == TLCEval([t \in 1..(Len(poly) \div N) |->
                             FoldLeft(LAMBDA acc, j : AddM(acc, MulM(PowM(alpha, j), poly[(t - 1) * N + j + 1])), 0, [j \in 1..N |-> j - 1])])

Fold == /\ E.ev = "fold"
        /\ Len(E.poly) = E.m /\ Len(E.evals) = E.m /\ Len(E.out) = E.m \div E.N
        /\ LET rp == Reverse(E.poly) IN \A i \in 0..(E.m - 1) : E.evals[i + 1] = EvalR(rp, Pt(E.offset, E.m, i))
        /\ LET g == Reverse(Folded(E.poly, E.N, E.alpha))
               off == PowM(E.offset, E.N)
           IN  \A i \in 0..(E.m \div E.N - 1) : E.out[i + 1] = EvalR(g, Pt(off, E.m \div E.N, i))

\* first-occurrence order without duplicates
RECURSIVE Dedup(_, _)
Dedup(s, acc) == IF s = <<>> THEN acc
                 ELSE IF \E k \in DOMAIN acc : acc[k] = Head(s) THEN Dedup(Tail(s), acc) ELSE Dedup(Tail(s), Append(acc, Head(s)))
Positions == /\ E.ev = "positions"
             /\ E.folded = Dedup([k \in DOMAIN E.ps |-> E.ps[k] % (E.m \div E.N)], <<>>)

Next == l <= Len(Rec) /\ (Fold \/ Positions) /\ l' = l + 1
Accepted ==
    LET d == TLCGet("stats").diameter
    IN  IF d = Len(Rec) + 1 THEN TRUE
        ELSE PrintT(<<"TRACE-REJECTED at line", d, Rec[d].ev, Rec[d].N, Rec[d].m>>) /\ FALSE
=============================================================================
