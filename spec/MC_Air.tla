------------------------------- MODULE MC_Air -------------------------------
(* R1 + R2 for C16.  Every initial state is one case (a trace length with an assertion, an exemption count, or
   an ill-formed candidate); the invariants are the design-level statements of the property, and Emit
   prints the case with the specification's expectation for the harness to replay on the real fields. *)
EXTENDS Air, Json, IOUtils, TLC

Lens == {2^k : k \in atoi(IOEnv.AIR_MINLOG)..atoi(IOEnv.AIR_MAXLOG)}
PairMax == 2^atoi(IOEnv.AIR_PAIRLOG)       \* all-pairs overlap check for n <= PairMax

VARIABLES n, kind, a, k
vars == <<n, kind, a, k>>

NoA == Asr("none", 0, 0, 0, 0)

\* ill-formed and borderline candidates
Cand(m) == {Asr("single", 0, f, 0, 1) : f \in {0, m - 1, m, m + 1}}
           \cup {Asr("periodic", 0, f, s, 1) : f \in {0, 1, 2, 3, m}, s \in {0, 1, 2, 3, 4, 6, m, 2 * m}}
           \cup {Asr("sequence", 0, f, s, c) : f \in {0, 1, 2, 4}, s \in {0, 1, 2, 3, 4, m \div 2, m}, c \in {0, 1, 2, 3, 4, m \div 4, m \div 2, m}}

Init == /\ n \in Lens
        /\ \/ kind = "assertion" /\ a \in WellFormedSet(n, {0}) /\ k = 0
           \/ kind = "transition" /\ a = NoA /\ k \in 1..(n \div 2 + 1)
           \/ kind = "candidate" /\ a \in Cand(n) /\ k = 0
Next == UNCHANGED vars

SortedSeq(S) == SortSeq(SetToSeq(S), <)

DivisorInv == /\ kind = "assertion"  => AssertionDivisorOK(a, n) /\ WellFormed(a, n) /\ ~RefusedImpl(a, n)
              /\ kind = "transition" => TransitionDivisorOK(n, k)
              /\ kind = "candidate"  => RefusalOK(a, n)

Others == WellFormedSet(n, {0, 1})
OverlapInv == (kind = "assertion" /\ n <= PairMax) => \A b \in Others : OverlapOK(a, b, n) /\ GroupingOK(a, b, n)

\* sets of two assertions: refused exactly when they name a common cell, both kept otherwise
DedupFirst == IOEnv.AIR_DEDUPFIRST = "1"
PrepareInv == (kind = "assertion" /\ n <= PairMax) => \A b \in Others : PrepareOK(a, b, n, DedupFirst)

\* the b's that a overlaps with, by the declarative definition (what the harness must observe)
OverlapRow == {b \in Others : b.col = a.col /\ StepsOf(a, n) \cap StepsOf(b, n) # {}}

Emit ==
    CASE kind = "assertion" ->
           PrintT(ToJson([kind |-> kind, n |-> n, a |-> a, steps |-> SortedSeq(StepsOf(a, n)),
                          overlaps |-> IF n <= PairMax THEN SetToSeq(OverlapRow) ELSE <<>>,
                          pairs |-> n <= PairMax]))
      [] kind = "transition" ->
           PrintT(ToJson([kind |-> kind, n |-> n, k |-> k, steps |-> SortedSeq(TransitionSteps(n, k))]))
      [] kind = "candidate" ->
           PrintT(ToJson([kind |-> kind, n |-> n, a |-> a, wellformed |-> WellFormed(a, n)]))
=============================================================================
