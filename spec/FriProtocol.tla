----------------------------- MODULE FriProtocol -----------------------------
(* The FRI protocol between an adversarial prover and the verifier as a state machine (property C05).

   Commit phase (before the query positions exist):  the prover commits to layer 1 .. L (after each commitment the verifier's
   challenge alpha is drawn), then to the remainder polynomial.  A committed layer k+1 is either the honest folding of the
   committed layer k with the drawn challenge ("fold") or anything else ("junk", e.g. folding with a wrong challenge).  The
   function f0 the prover starts from is "low" (degree within the bound), "high" (a polynomial whose degree exceeds the bound,
   folded honestly by a prover configured for the larger degree, so that its committed remainder is consistent but has more
   coefficients than the bound allows) or "far" (far from every polynomial of the bound).
   Query phase: the positions are drawn.  Afterwards the prover sends, per layer, the opening of the committed rows ("asis") or
   different values ("tampered"), and a remainder: the committed one, one interpolated through the folded values at the queried
   positions ("adaptive"), or anything else ("other").
   The remainder committed in the commit phase is either the interpolation of the last layer ("honest") or a polynomial within the
   bound that agrees with the last layer on as many points as it has coefficients - a fraction 1/blowup of the layer, the best a
   prover can do when the last layer is far from low degree ("partial").  When the queries are drawn, the first folded position may
   ("first") or may not ("none") fall into that agreement set; that every queried position falls into it is one of the events of
   negligible probability.

   The verifier performs the checks of fri/src/verifier/mod.rs:
     Merkle      every opened row is the committed one
     Fold(k)     the value claimed for layer k+1 at each queried position is the folding of the opened row of layer k
     RemFold     the remainder evaluates to the folded values of the last layer at the queried positions
     RemBound    the remainder has at most the admissible number of coefficients
     RemCommit   the remainder hashes to its commitment            (CheckRemCommit = the fix: commit a88165d)

   Probabilistic facts are modelled as certain (the replay uses enough queries for an error < 2^-40):  a junk layer disagrees with
   the folding of its predecessor at some queried position; if f0 is far and all layers are honest foldings, the last layer is far
   from low degree, so the remainder committed in the commit phase (which has few coefficients) disagrees with it at a queried position. *)
EXTENDS Naturals, Sequences, FiniteSets

CONSTANTS L,               \* number of committed layers
          CheckRemCommit,  \* does the verifier compare the remainder with its commitment?
          RemFoldAll       \* does the verifier compare the remainder with the last layer at EVERY queried position (or the first only)?

VARIABLES phase, f0, layers, alphasDrawn, remCommitted, remC, hit, queried, openings, remSent, verdict
vars == <<phase, f0, layers, alphasDrawn, remCommitted, remC, hit, queried, openings, remSent, verdict>>

Init == /\ phase = "commit" /\ f0 \in {"low", "high", "far"} /\ layers = <<>> /\ alphasDrawn = 0 /\ remCommitted = FALSE
        /\ remC = "none" /\ hit = "na" /\ queried = FALSE /\ openings = <<>> /\ remSent = "none" /\ verdict = "none"

\* prover commits to the next layer; the challenge for it is drawn right after (one action per critical section of build_layer)
CommitLayer(kind) == /\ phase = "commit" /\ Len(layers) < L /\ alphasDrawn = Len(layers)
                     /\ layers' = Append(layers, kind)
                     /\ UNCHANGED <<phase, f0, alphasDrawn, remCommitted, remC, hit, queried, openings, remSent, verdict>>
DrawAlpha == /\ phase = "commit" /\ alphasDrawn < Len(layers)
             /\ alphasDrawn' = alphasDrawn + 1
             /\ UNCHANGED <<phase, f0, layers, remCommitted, remC, hit, queried, openings, remSent, verdict>>
CommitRemainder(kind) == /\ phase = "commit" /\ Len(layers) = L /\ alphasDrawn = L /\ ~remCommitted
                         /\ kind \in {"honest", "partial", "missing"}   \* "missing": the prover sends no commitment for the remainder
                         /\ remCommitted' = TRUE /\ remC' = kind
                         /\ UNCHANGED <<phase, f0, layers, alphasDrawn, hit, queried, openings, remSent, verdict>>
DrawQueries == /\ phase = "commit" /\ remCommitted
               /\ phase' = "query" /\ queried' = TRUE
               /\ hit' \in (IF remC = "partial" THEN {"first", "none"} ELSE {"na"})
               /\ UNCHANGED <<f0, layers, alphasDrawn, remCommitted, remC, openings, remSent, verdict>>
\* answers are chosen with knowledge of the positions
SendOpenings(o) == /\ phase = "query" /\ openings = <<>> /\ L > 0
                   /\ o \in [1..L -> {"asis", "tampered"}]
                   /\ openings' = o
                   /\ UNCHANGED <<phase, f0, layers, alphasDrawn, remCommitted, remC, hit, queried, remSent, verdict>>
SendRemainder(r) == /\ phase = "query" /\ (L = 0 \/ openings # <<>>) /\ remSent = "none"
                    /\ r \in {"committed", "adaptive", "other"}
                    /\ remSent' = r
                    /\ UNCHANGED <<phase, f0, layers, alphasDrawn, remCommitted, remC, hit, queried, openings, verdict>>

AllFold == \A k \in 1..Len(layers) : layers[k] = "fold"
\* the individual checks, as facts about the state
MerkleOK  == \A k \in DOMAIN openings : openings[k] = "asis"
FoldOK    == AllFold                                   \* a junk layer is caught at a queried position
\* does the remainder the prover sends agree with the folded last layer at the queried positions?
RemFoldOK == CASE remSent = "adaptive"  -> TRUE                       \* built to agree there
               [] remSent = "committed" ->                              \* committed before the queries
                     IF remC \in {"honest", "missing"} THEN f0 \in {"low", "high"} /\ AllFold     \* only an honest polynomial run agrees everywhere
                     ELSE (~RemFoldAll /\ hit = "first")                           \* partial agreement: some queried position disagrees
               [] remSent = "other"     -> FALSE
RemCommitOK == remSent = "committed" /\ remC # "missing"   \* without a commitment nothing ties the remainder to the commit phase
\* the remainder has at most (degree bound + 1) / fold^L coefficients: fails exactly for the honest run of a too-high degree
RemBoundOK == ~(f0 = "high" /\ remSent = "committed" /\ remC \in {"honest", "missing"})
Verify == /\ phase = "query" /\ remSent # "none" /\ verdict = "none"
          /\ verdict' = IF MerkleOK /\ FoldOK /\ RemFoldOK /\ RemBoundOK /\ (CheckRemCommit => RemCommitOK) THEN "accept" ELSE "reject"
          /\ phase' = "done"
          /\ UNCHANGED <<f0, layers, alphasDrawn, remCommitted, remC, hit, queried, openings, remSent>>

Next == \/ \E kd \in {"fold", "junk"} : CommitLayer(kd)
        \/ DrawAlpha \/ (\E kd \in {"honest", "partial", "missing"} : CommitRemainder(kd)) \/ DrawQueries
        \/ \E o \in [1..L -> {"asis", "tampered"}] : SendOpenings(o)
        \/ \E r \in {"committed", "adaptive", "other"} : SendRemainder(r)
        \/ Verify
Spec == Init /\ [][Next]_vars

\* ---- properties -------------------------------------------------------------------------------------------------------
\* soundness: an accepted run started from a low-degree function, every layer was an honest folding, and every value the
\* verifier consumed was fixed before the positions were drawn
Sound == verdict = "accept" => (f0 = "low" /\ AllFold /\ MerkleOK /\ remSent = "committed" /\ remC = "honest")
\* completeness: the honest run is accepted
Complete == (verdict # "none" /\ f0 = "low" /\ AllFold /\ MerkleOK /\ remSent = "committed" /\ remC = "honest") => verdict = "accept"
\* order: challenges only after the corresponding commitment, queries only after all commitments
Order == /\ alphasDrawn <= Len(layers) /\ (queried => (Len(layers) = L /\ alphasDrawn = L /\ remCommitted))
=============================================================================
