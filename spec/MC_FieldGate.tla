---------------------------- MODULE MC_FieldGate ----------------------------
(* C18, "computing the level from the field the computation is defined over".  A proof carries the modulus it claims to be
   defined over (little-endian bytes); the security level of Security.tla is computed from the size of that claimed modulus;
   verify() admits the proof only if the claimed modulus passes a comparison with the modulus of the computation's field.
   The gate is sound when every claim it admits gives the level of the true field.  Variants of the comparison:
       "equal"  - the byte strings are equal (the code)
       "prefix" - one is a prefix of the other (e.g. a comparison by zip, which stops at the shorter one)
   TLC checks GateSound for "equal", refutes it for "prefix", and prints the family of claimed moduli for the replay: for each
   real field the true modulus, every other field's modulus, the true one with 1..6 non-zero bytes appended, cut by 1..2
   bytes, with its first / last byte changed, and the empty string.                                                    *)
EXTENDS Security, Json, IOUtils, TLC

Compare == IOEnv.GATE_COMPARE
Mod62  == <<1, 0, 0, 0, 128, 200, 255, 63>>
Mod64  == <<1, 0, 0, 0, 255, 255, 255, 255>>
Mod128 == <<1, 0, 0, 0, 0, 211, 255, 255, 255, 255, 255, 255, 255, 255, 255, 255>>
TrueMod(f) == CASE f = "f62" -> Mod62 [] f = "f64" -> Mod64 [] f = "f128" -> Mod128
Fields == {"f62", "f64", "f128"}

\* number of bits of a little-endian byte string (0 for the empty string / zero)
RECURSIVE Strip(_)
Strip(s) == IF s # <<>> /\ s[Len(s)] = 0 THEN Strip(SubSeq(s, 1, Len(s) - 1)) ELSE s
BitsOfByte(x) == CHOOSE k \in 0..8 : x < 2 ^ k /\ (k = 0 \/ x >= 2 ^ (k - 1))
Bits(s) == LET t == Strip(s) IN IF t = <<>> THEN 0 ELSE 8 * (Len(t) - 1) + BitsOfByte(t[Len(t)])

Ones(k) == [i \in 1..k |-> 255]
Claims(f) ==
    LET m == TrueMod(f) IN
    {m, <<>>} \cup {TrueMod(g) : g \in Fields}
    \cup {m \o Ones(k) : k \in 1..6} \cup {m \o <<1>>}
    \cup {SubSeq(m, 1, Len(m) - k) : k \in 1..2}
    \cup {[m EXCEPT ![1] = 3], [m EXCEPT ![Len(m)] = (m[Len(m)] + 1) % 256]}

IsPrefixOf(a, b) == Len(a) <= Len(b) /\ SubSeq(b, 1, Len(a)) = a
Admits(claimed, f) == CASE Compare = "equal" -> claimed = TrueMod(f)
                        [] OTHER -> IsPrefixOf(claimed, TrueMod(f)) \/ IsPrefixOf(TrueMod(f), claimed)
\* the level for a weak parameter set (27 queries, blowup 4, no grinding, no extension, 2^10 steps, 128-bit hash), from the claimed size
Level(bits) == Conj(27, 2, 0, 1, bits, 10, 128)

VARIABLES f, claimed
Init == f \in Fields /\ claimed \in Claims(f)
Next == UNCHANGED <<f, claimed>>
GateSound == Admits(claimed, f) => Bits(claimed) = Bits(TrueMod(f))
Emit == PrintT(ToJson([field |-> f, claimed |-> claimed, admitted |-> Admits(claimed, f), bits |-> Bits(claimed)]))
=============================================================================
