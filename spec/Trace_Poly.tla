------------------------------ MODULE Trace_Poly ------------------------------
(* R3 for C20: the polynomial and batch utilities of winter-math executed over ToyField, each result checked against its
   defining identity (ToyMath.tla).                                                                         *)
EXTENDS ToyMath, Json, IOUtils, Naturals

Rec == ndJsonDeserialize(IOEnv.TRACE)
VARIABLE l
E == Rec[l]
Init == l = 1

Deg(p) == DegreeOf(p)
\* a - q*d has degree below that of d (or is zero when d is constant)
DivRel(a, d, q) == LET r == PSub(a, PMul(q, d)) IN IF Deg(d) = 0 THEN IsZeroPoly(r) ELSE (IsZeroPoly(r) \/ Deg(r) < Deg(d))

Polys == /\ E.ev = "polys"
         /\ LET a == E.a  b == E.b  k == E.k  R == E.res IN
            /\ PEq(R.add, PAdd(a, b)) /\ Len(R.add) = (IF Len(a) >= Len(b) THEN Len(a) ELSE Len(b))
            /\ PEq(R.sub, PSub(a, b))
            /\ PEq(R.mul, PMul(a, b)) /\ ((Len(a) > 0 /\ Len(b) > 0) => Len(R.mul) = Len(a) + Len(b) - 1)
            /\ PEq(R.scale, PScale(a, k)) /\ Len(R.scale) = Len(a)
            /\ R.degree_a = Deg(a) /\ R.degree_b = Deg(b)
            /\ PEq(R.rlz_a, a) /\ (Len(R.rlz_a) = Deg(a) + 1 \/ (IsZeroPoly(a) /\ Len(R.rlz_a) <= 1))   \* remove_leading_zeros
            /\ (R.div_ok => DivRel(a, b, R.div))                                  \* long division (when the divisor is admissible)
            /\ (R.syn_ok => LET r == PSub(a, PMul(R.syn, XkMinus(E.da, E.db))) IN IsZeroPoly(r) \/ Deg(r) < E.da)
            /\ (R.synr_ok => LET r == PSub(a, PMul(R.synr, FromRoots(E.roots))) IN IsZeroPoly(r) \/ Deg(r) < Len(E.roots))
            /\ R.eval_a = Eval(a, k)
            /\ \A i \in DOMAIN E.xs : R.eval_many[i] = Eval(a, E.xs[i])
            /\ PEq(R.from_roots, FromRoots(E.xs)) /\ Len(R.from_roots) = Len(E.xs) + 1
            /\ Len(R.interp) <= Len(E.xs)                                          \* interpolation inverts evaluation
            /\ \A i \in DOMAIN E.xs : Eval(R.interp, E.xs[i]) = E.ys[i]
            /\ \A i \in DOMAIN E.xs : Eval(R.interp_keep, E.xs[i]) = E.ys[i]
            /\ Len(R.interp_keep) = Len(E.xs)

Batch == /\ E.ev = "batch"                                    \* interpolate_batch over rows of 4 points
         /\ \A r \in DOMAIN E.xs : \A j \in 1..4 : Eval(E.polys[r], E.xs[r][j]) = E.ys[r][j]

Vec == /\ E.ev = "vectors"
       /\ LET n == E.len IN
          /\ Len(E.series) = n /\ Len(E.series_off) = n /\ Len(E.inv) = n
          /\ \A k \in DOMAIN E.chk : LET i == E.chk[k] + 1 IN
                /\ E.series[i] = PowM(E.b, i - 1)                                  \* get_power_series
                /\ E.series_off[i] = MulM(E.s, PowM(E.b, i - 1))                   \* get_power_series_with_offset
                /\ IF E.vals[i] = 0 THEN E.inv[i] = 0 ELSE MulM(E.vals[i], E.inv[i]) = 1   \* batch_inversion, zeros preserved
                /\ E.added[i] = AddM(E.vals[i], E.other[i])                        \* add_in_place
                /\ E.macc[i] = AddM(E.vals[i], MulM(E.other[i], E.s))              \* mul_acc

Next == l <= Len(Rec) /\ (Polys \/ Batch \/ Vec) /\ l' = l + 1
Accepted ==
    LET d == TLCGet("stats").diameter
    IN  IF d = Len(Rec) + 1 THEN TRUE
        ELSE PrintT(<<"TRACE-REJECTED at line", d, Rec[d].ev>>) /\ FALSE
=============================================================================
