------------------------------ MODULE Trace_CompX ------------------------------
(* R3 for C17 over extension fields: the definition of the constraint composition polynomial of Trace_Comp.tla,

       H(x) = sum_i  cct[i] * C_i(T(x), T(g x), P(x)) / Z_T(x)   +   sum_a  ccb[a] * (T_col(a)(x) - V_a(x)) / Z_a(x)
              (+ auxiliary transition / boundary terms and the Lagrange kernel terms, see Trace_Comp.tla)

   evaluated in an extension of the harness field (ToyExt.tla: Deg = 2, 3; Deg = 1 is the base field).  The main trace, the
   periodic columns, the assertion values and the trace-domain generator g are base-field values; the composition
   coefficients, the random elements, the auxiliary columns, the evaluation points and the values of H delivered by the real
   prover are extension elements (coefficient tuples).  All interpolation nodes lie in the base field, so the only divisions
   by extension elements are the divisions by the divisors Z_T(x), Z_a(x), x^(2^k) - 1.                                *)
EXTENDS ToyExt, Json, IOUtils, Naturals, FiniteSets

Rec == ndJsonDeserialize(IOEnv.TRACE)
VARIABLE l
E == Rec[l]
Init == l = 1

SumX(S, f(_)) == FoldLeft(LAMBDA acc, s : AddX(acc, f(s)), ZeroX, SetToSeq(S))
ProdX(S, f(_)) == FoldLeft(LAMBDA acc, s : MulX(acc, f(s)), OneX, SetToSeq(S))
X(v) == [i \in 1..Deg |-> v[i]]                 \* JSON coefficient list -> element
EmbSeq(v) == [j \in DOMAIN v |-> Emb(v[j])]

\* Lagrange interpolation through the base-field nodes xs[j] with extension values ys[j], evaluated at the extension point x
LagrangeAt(xs, ys, x) ==
    SumX(DOMAIN xs, LAMBDA j : MulX(ys[j], ProdX(DOMAIN xs \ {j}, LAMBDA m : ScaleX(SubX(x, Emb(xs[m])), InvM(SubM(xs[j], xs[m]))))))

TracePts == [s \in 1..E.n |-> PowM(E.g, s - 1)]
TraceAt(c, x) == LagrangeAt(TracePts, EmbSeq(E.trace[c]), x)
PeriodicAt(k, x) == LET vals == E.periodic[k]  cyc == Len(vals)  gc == PowM(E.g, E.n \div cyc)
                    IN  LagrangeAt([j \in 1..cyc |-> PowM(gc, j - 1)], EmbSeq(vals), PowX(x, E.n \div cyc))

\* transition constraint of column i (1-based), ShapeAir family; T / Tn: the trace columns at x and at g x
Constraint(i, x, T, Tn) ==
    LET w == E.width
    IN  IF E.mode = "copy" THEN SubX(Tn[i], T[i])
        ELSE IF \E k \in DOMAIN E.neg : E.neg[k] = i - 1 THEN SubX(Tn[i], SubX(Emb(i), T[i]))
        ELSE LET p == IF E.pcol[i] >= 0 THEN PeriodicAt(E.pcol[i] + 1, x) ELSE OneX
             IN  SubX(Tn[i], AddX(AddX(MulX(PowX(T[i], E.degs[i]), p), T[(i % w) + 1]), Emb(i)))

ZT(x) == DivX(SubX(PowX(x, E.n), OneX), ProdX((E.n - E.exempt)..(E.n - 1), LAMBDA s : SubX(x, Emb(PowM(E.g, s)))))

StepsOfA(a) == CASE a.kind = "single"   -> <<a.first>>
                 [] a.kind = "periodic" -> [j \in 1..(E.n \div a.stride) |-> a.first + a.stride * (j - 1)]
                 [] a.kind = "sequence" -> [j \in 1..a.count |-> a.first + a.stride * (j - 1)]
Key(a) == <<IF a.kind = "single" THEN 0 ELSE a.stride, a.first, a.col>>
LessKey(p, q) == \/ p[1] < q[1] \/ (p[1] = q[1] /\ p[2] < q[2]) \/ (p[1] = q[1] /\ p[2] = q[2] /\ p[3] < q[3])
Rank(k) == Cardinality({m \in DOMAIN E.asserts : LessKey(Key(E.asserts[m]), Key(E.asserts[k]))}) + 1

Boundary(k, x, T) ==
    LET a  == E.asserts[k]
        st == StepsOfA(a)
        xs == [j \in DOMAIN st |-> PowM(E.g, st[j])]
        ys == [j \in DOMAIN st |-> Emb(IF Len(E.avalues[k]) = 1 THEN E.avalues[k][1] ELSE E.avalues[k][j])]
        V  == LagrangeAt(xs, ys, x)
        Z  == ProdX(DOMAIN xs, LAMBDA j : SubX(x, Emb(xs[j])))
    IN  MulX(X(E.ccb[Rank(k)]), DivX(SubX(T[a.col + 1], V), Z))

\* ---- auxiliary segment ------------------------------------------------------------------------------------------
NAux == Len(E.aux_degs)
AuxAt(j, x) == LagrangeAt(TracePts, [s \in 1..E.n |-> X(E.aux[j][s])], x)
RandOf(j) == IF Len(E.rands) = 0 THEN OneX ELSE X(E.rands[((j - 1) % Len(E.rands)) + 1])
MainOf(j) == ((j - 1) % E.width) + 1
AuxConstraint(j, T, A, An) ==
    LET m == T[MainOf(j)]  r == RandOf(j)
    IN  IF E.aux_degs[j] = 1 THEN SubX(An[j], AddX(A[j], MulX(r, m))) ELSE SubX(An[j], MulX(A[j], PowX(AddX(m, r), E.aux_degs[j] - 1)))
PrefixSum(c, s) == FoldLeft(LAMBDA acc, i : AddM(acc, E.trace[c][i]), 0, [i \in 1..s |-> i])
AuxValue(j, s) == IF E.aux_degs[j] = 1 THEN ScaleX(RandOf(j), PrefixSum(MainOf(j), s)) ELSE OneX
AuxRank(k) == Cardinality({m \in DOMAIN E.aux_asserts : LessKey(Key(E.aux_asserts[m]), Key(E.aux_asserts[k]))}) + 1
AuxBoundary(k, x, A) ==
    LET a  == E.aux_asserts[k]
        st == StepsOfA(a)
        xs == [j \in DOMAIN st |-> PowM(E.g, st[j])]
        ys == [j \in DOMAIN st |-> AuxValue(a.col + 1, st[j])]
        V  == LagrangeAt(xs, ys, x)
        Z  == ProdX(DOMAIN xs, LAMBDA j : SubX(x, Emb(xs[j])))
    IN  MulX(X(E.ccb[E.nmain_asserts + AuxRank(k)]), DivX(SubX(A[a.col + 1], V), Z))
LagAt(x) == AuxAt(NAux + 1, x)
LagrangeTerms(x) ==
    LET v == Len(E.lrands)
        r == [i \in 1..v |-> X(E.lrands[i])]
        Lx == LagAt(x)
    IN  AddX(SumX(1..v, LAMBDA k : MulX(X(E.lct[k]),
                     DivX(SubX(MulX(r[v - k + 1], Lx), MulX(SubX(OneX, r[v - k + 1]), LagAt(ScaleX(x, PowM(E.g, 2 ^ (v - k)))))),
                          SubX(PowX(x, 2 ^ (k - 1)), OneX)))),
             MulX(X(E.lcb), DivX(SubX(Lx, ProdX(1..v, LAMBDA i : SubX(OneX, r[i]))), SubX(x, OneX))))

H(x) ==
    LET gx == ScaleX(x, E.g)
        T  == TLCEval([c \in 1..E.width |-> TraceAt(c, x)])
        Tn == TLCEval([c \in 1..E.width |-> TraceAt(c, gx)])
        A  == TLCEval([j \in 1..NAux |-> AuxAt(j, x)])
        An == TLCEval([j \in 1..NAux |-> AuxAt(j, gx)])
    IN  AddX(AddX(DivX(AddX(SumX(1..E.width, LAMBDA i : MulX(X(E.cct[i]), Constraint(i, x, T, Tn))),
                            SumX(1..NAux, LAMBDA j : MulX(X(E.cct[E.width + j]), AuxConstraint(j, T, A, An)))), ZT(x)),
                  AddX(SumX(DOMAIN E.asserts, LAMBDA k : Boundary(k, x, T)), SumX(DOMAIN E.aux_asserts, LAMBDA k : AuxBoundary(k, x, A)))),
             IF E.lagrange THEN LagrangeTerms(x) ELSE ZeroX)

Comp == /\ E.ev = "comp" /\ E.deg = Deg
        /\ \A pi \in DOMAIN E.points :
              LET pt == E.points[pi]
                  x == X(pt.x)
                  got == SumX(DOMAIN pt.h, LAMBDA j : MulX(PowX(x, (j - 1) * E.n), X(pt.h[j])))
              IN  Len(pt.h) = E.ccols /\ got = H(x)

Next == l <= Len(Rec) /\ Comp /\ l' = l + 1
Accepted ==
    LET d == TLCGet("stats").diameter
    IN  IF d = Len(Rec) + 1 THEN TRUE
        ELSE PrintT(<<"TRACE-REJECTED at line", d, Rec[d].id>>) /\ FALSE
=============================================================================
