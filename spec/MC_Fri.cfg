INIT Init
NEXT Next
INVARIANT LayoutInv
INVARIANT SchedInv
INVARIANT SoundInv
INVARIANT Emit
INVARIANT BoundCompleteInv
INVARIANT BoundSoundInv
