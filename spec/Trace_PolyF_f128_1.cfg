CONSTANT FieldName = "f128"
CONSTANT Deg = 1
INIT Init
NEXT Next
POSTCONDITION Accepted
