------------------------------- MODULE MC_Serde -------------------------------
(* R1 + R2 for C12.  R1: the vint64 encoding round-trips through the reader contract for every value 0..SmallMax and every
   boundary value 2^(7k) - 1, 2^(7k), 2^(7k) + 1, 2^64 - 1; encoded lengths are 1..9.  R2: every case is printed with the
   exact bytes of the documented encoding (primitives) or as an abstract description accepted by the constructor
   (TraceInfo, ProofOptions) for the harness to build, encode and decode with every reader implementation.   *)
EXTENDS Serde, Json, IOUtils, TLC

SmallMax == atoi(IOEnv.SERDE_SMALLMAX)
Boundary == {<<>>, <<1>>} \cup UNION {{SubN(Pow2N(7 * k), <<1>>), Pow2N(7 * k), AddN(Pow2N(7 * k), <<1>>)} : k \in 1..9}
            \cup {SubN(Pow2N(64), <<1>>), SubN(Pow2N(64), <<2>>), Pow2N(32), SubN(Pow2N(32), <<1>>), Pow2N(56), SubN(Pow2N(56), <<1>>)}

VARIABLES kind, c
vars == <<kind, c>>
Init == \/ kind = "usize" /\ c \in {[v |-> b] : b \in {x \in Boundary : LessN(x, Pow2N(64))}} \cup {[v |-> FromInt(i)] : i \in 0..SmallMax}
        \/ kind = "uint" /\ c \in {[v |-> b, w |-> w] : w \in {1, 2, 4, 8, 16}, b \in {<<>>, <<1>>, <<255>>, <<0, 1>>, <<255, 255>>, <<255, 255, 255, 255>>}} 
        \/ kind = "traceinfo" /\ \E main \in {1, 2, 100, 254, 255}, aux \in {0, 1, 2, 154, 254}, rands \in {0, 1, 255}, ln \in {3, 10, 31}, ml \in {0, 1, 255, 65535} :
               TraceInfoAccepted(main, aux, rands, ln, ml) /\ c = [main |-> main, aux |-> aux, rands |-> rands, ln |-> ln, metalen |-> ml]
        \/ kind = "options" /\ \E q \in {1, 2, 128, 255}, b \in {2, 128}, g \in {0, 32}, ext \in 1..3, f \in {2, 16}, rem \in {0, 127, 255} :
               OptionsAccepted(q, b, g, f, rem) /\ c = [q |-> q, blowup |-> b, grind |-> g, ext |-> ext, fold |-> f, rem |-> rem]
        \* proof contexts up to the largest LDE domain the constructor admits (2^31), with every blowup factor
        \/ kind = "context" /\ \E ln \in {3, 10} \cup 23..30, lb \in 1..7, fld \in {62, 64, 128}, aux \in {0, 3} :
               ContextAccepted(ln, lb) /\ (ln + lb >= 30 \/ ln = 3) /\ c = [ln |-> ln, lb |-> lb, field |-> fld, aux |-> aux]
        \* out-of-domain frames: main / auxiliary widths, Lagrange kernel frames of log2(n) + 1 evaluations for every trace length the
        \* option space allows, composition column counts; with 8..48-byte elements the three sections cross 255 / 256 bytes and,
        \* for wide traces, come close to their 16-bit length prefixes
        \/ kind = "oodframe" /\ \E main \in {1, 2, 100, 255}, aux \in {0, 1, 3}, lag \in {0, 4, 8, 9, 11, 16, 21, 32}, cc \in {1, 2, 8, 255}, fld \in {62, 64, 128}, ext \in 1..3 :
               /\ (lag > 0 => aux > 0) /\ ~(fld = 128 /\ ext = 3) /\ ~(fld = 62 /\ ext = 3 /\ main = 100)
               /\ (main + aux) * 2 * ext * (fld \div 8 + (IF fld = 62 THEN 1 ELSE 0)) < 65535
               /\ c = [main |-> main, aux |-> aux, lag |-> lag, ccols |-> cc, field |-> fld, ext |-> ext]
Next == UNCHANGED vars

RoundTripInv == kind = "usize" => UsizeRoundTrip(c.v) /\ Len(EncUsize(c.v)) \in 1..9
Emit == CASE kind = "usize" -> PrintT(ToJson([kind |-> kind, v |-> ToBytes(c.v, 8), enc |-> EncUsize(c.v)]))
          [] kind = "uint" -> (Len(NormN(c.v)) <= c.w => PrintT(ToJson([kind |-> kind, w |-> c.w, v |-> ToBytes(c.v, 16), enc |-> EncUInt(c.v, c.w)])))
          [] kind = "traceinfo" -> PrintT(ToJson([kind |-> kind, d |-> c,
                                                  enc |-> EncTraceInfo(c.main, c.aux, c.rands, c.ln, [i \in 1..c.metalen |-> i % 251])]))
          [] kind = "context" -> PrintT(ToJson([kind |-> kind, d |-> c]))
          [] kind = "oodframe" -> PrintT(ToJson([kind |-> kind, d |-> c]))
          [] kind = "options" -> PrintT(ToJson([kind |-> kind, d |-> c, enc |-> EncOptions(c.q, c.blowup, c.grind, c.ext, c.fold, c.rem)]))
=============================================================================
