------------------------------- MODULE VUtil -------------------------------
(* Small helpers shared by all specification modules.  TLC integers are 32-bit, so numbers wider than
   31 bits are little-endian byte sequences (the bytes the library serializes); see BigNat.tla.      *)
EXTENDS Naturals, Sequences, SequencesExt, FiniteSets, Functions, TLC

Ok(v)  == [ok |-> TRUE,  val |-> v]
Err(c) == [ok |-> FALSE, err |-> c]

Min2(a, b) == IF a <= b THEN a ELSE b
Max2(a, b) == IF a >= b THEN a ELSE b

Pow2(k) == 2^k                      \* k <= 30

\* number of trailing zero bits of a byte (8 for the zero byte)
TZ8(b) == IF b = 0 THEN 8 ELSE CHOOSE k \in 0..7 : b % Pow2(k) = 0 /\ (b \div Pow2(k)) % 2 = 1

\* bit j (0-based) of the little-endian number denoted by the byte sequence bs (0 beyond its length)
BitOf(bs, j) == IF j \div 8 + 1 > Len(bs) THEN 0 ELSE (bs[j \div 8 + 1] \div Pow2(j % 8)) % 2

\* the n-byte little-endian sequence of (value(bs) >> k)
ShiftRBytes(bs, k, n) ==
    [i \in 1..n |-> LET base == 8 * (i - 1) + k
                    IN  BitOf(bs, base) + 2 * BitOf(bs, base + 1) + 4 * BitOf(bs, base + 2)
                        + 8 * BitOf(bs, base + 3) + 16 * BitOf(bs, base + 4) + 32 * BitOf(bs, base + 5)
                        + 64 * BitOf(bs, base + 6) + 128 * BitOf(bs, base + 7)]

\* pad / truncate a byte sequence to exactly n bytes (little endian: zeros appended)
PadTo(bs, n) == [i \in 1..n |-> IF i <= Len(bs) THEN bs[i] ELSE 0]

Take(s, n) == SubSeq(s, 1, Min2(n, Len(s)))
Drop(s, n) == SubSeq(s, n + 1, Len(s))

SumSeq(s) == FoldLeft(LAMBDA acc, x : acc + x, 0, s)

Log2(n) == CHOOSE k \in 0..31 : Pow2(k) <= n /\ (k = 30 \/ n < Pow2(k + 1))   \* floor, n in 1..2^30
IsPow2(n) == n >= 1 /\ Pow2(Log2(n)) = n
=============================================================================
