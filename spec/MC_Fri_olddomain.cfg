INIT Init
NEXT Next
INVARIANT SchedInvOldDomain
