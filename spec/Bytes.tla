------------------------------- MODULE Bytes -------------------------------
(* The byte-reader contract (winter-utils ByteReader), as a sequential state machine.

   State: a fixed stream and a position.  Every reader operation is the pure function
       Apply(stream, pos, op) = [res |-> Ok(bytes) | Err(class), pos |-> new position]
   which is *by construction* the contract of the in-memory slice reader: values are returned as the
   little-endian bytes that were consumed (integers), the raw bytes (slices, vectors, arrays,
   strings) or <<0/1>> (booleans); errors are "eof" (not enough data) or "invalid" (bytes do not
   denote a value of the type).  "If an error occurs the reader is not rolled back": composite
   operations keep what their successful sub-steps consumed.

   The streaming adapter must return the same result and the same position for every stream,
   chunking and operation sequence (property C13); the only permitted difference is CheckEor,
   which may answer Ok optimistically while the end of the stream has not been observed.        *)
EXTENDS VUtil

Remaining(s, pos) == Len(s) - pos

R(res, pos) == [res |-> res, pos |-> pos]

\* primitive: consume n bytes or fail without consuming
ReadBytes(s, pos, n) ==
    IF Remaining(s, pos) >= n THEN R(Ok(SubSeq(s, pos + 1, pos + n)), pos + n) ELSE R(Err("eof"), pos)

PeekU8(s, pos) == IF Remaining(s, pos) >= 1 THEN R(Ok(<<s[pos + 1]>>), pos) ELSE R(Err("eof"), pos)

ReadBool(s, pos) ==
    LET r == ReadBytes(s, pos, 1)
    IN  IF ~r.res.ok THEN r
        ELSE IF r.res.val[1] \in {0, 1} THEN r ELSE R(Err("invalid"), r.pos)

(* vint64: the number of trailing zero bits of the first byte, plus one, is the encoded length;
   a zero first byte announces the 9-byte form (marker + 8 little-endian bytes).               *)
ReadUsize(s, pos) ==
    LET p == PeekU8(s, pos)
    IN  IF ~p.res.ok THEN p
        ELSE LET len == TZ8(p.res.val[1]) + 1
             IN  IF len = 9
                 THEN LET r == ReadBytes(s, pos + 1, 8)           \* the marker byte stays consumed
                      IN  IF r.res.ok THEN r ELSE R(Err("eof"), pos + 1)
                 ELSE LET r == ReadBytes(s, pos, len)
                      IN  IF r.res.ok THEN R(Ok(ShiftRBytes(r.res.val, len, 8)), r.pos) ELSE r

(* UTF-8 validity (the definition Rust's String::from_utf8 implements), as a DFA folded over the
   bytes.  State: <<continuation bytes still expected, lower bound, upper bound for the next byte>>;
   <<-1,..>> is the reject state.                                                                *)
Utf8Step(st, b) ==
    IF st[1] = 0 - 1 THEN st
    ELSE IF st[1] = 0
    THEN IF b <= 127 THEN <<0, 128, 191>>
         ELSE IF b >= 194 /\ b <= 223 THEN <<1, 128, 191>>
         ELSE IF b = 224 THEN <<2, 160, 191>>
         ELSE IF (b >= 225 /\ b <= 236) \/ b = 238 \/ b = 239 THEN <<2, 128, 191>>
         ELSE IF b = 237 THEN <<2, 128, 159>>
         ELSE IF b = 240 THEN <<3, 144, 191>>
         ELSE IF b >= 241 /\ b <= 243 THEN <<3, 128, 191>>
         ELSE IF b = 244 THEN <<3, 128, 143>>
         ELSE <<0 - 1, 0, 0>>
    ELSE IF b >= st[2] /\ b <= st[3] THEN <<st[1] - 1, 128, 191>> ELSE <<0 - 1, 0, 0>>
Utf8Valid(bs) == FoldLeft(Utf8Step, <<0, 128, 191>>, bs)[1] = 0

ReadString(s, pos, n) ==
    LET r == ReadBytes(s, pos, n)
    IN  IF ~r.res.ok THEN r ELSE IF Utf8Valid(r.res.val) THEN r ELSE R(Err("invalid"), r.pos)

\* read_many::<T>(n) for a fixed-width T of w bytes: element-wise, stops at the first failure
ReadMany(s, pos, w, n) ==
    LET fit == Min2(n, Remaining(s, pos) \div w)
    IN  IF fit = n THEN R(Ok(SubSeq(s, pos + 1, pos + n * w)), pos + n * w)
        ELSE R(Err("eof"), pos + fit * w)

HasMore(s, pos)     == R(Ok(<<IF pos < Len(s) THEN 1 ELSE 0>>), pos)
CheckEor(s, pos, n) == IF Remaining(s, pos) >= n THEN R(Ok(<<>>), pos) ELSE R(Err("eof"), pos)

\* op is a record [op |-> name, n |-> argument]
Apply(s, pos, op) ==
    CASE op.op = "read_u8"      -> ReadBytes(s, pos, 1)
      [] op.op = "peek_u8"      -> PeekU8(s, pos)
      [] op.op = "read_bool"    -> ReadBool(s, pos)
      [] op.op = "read_u16"     -> ReadBytes(s, pos, 2)
      [] op.op = "read_u32"     -> ReadBytes(s, pos, 4)
      [] op.op = "read_u64"     -> ReadBytes(s, pos, 8)
      [] op.op = "read_u128"    -> ReadBytes(s, pos, 16)
      [] op.op = "read_usize"   -> ReadUsize(s, pos)
      [] op.op = "read_slice"   -> ReadBytes(s, pos, op.n)
      [] op.op = "read_array"   -> ReadBytes(s, pos, op.n)
      [] op.op = "read_vec"     -> ReadBytes(s, pos, op.n)
      [] op.op = "read_string"  -> ReadString(s, pos, op.n)
      [] op.op = "read_many_u16"-> ReadMany(s, pos, 2, op.n)
      [] op.op = "read_many_u8" -> ReadMany(s, pos, 1, op.n)
      [] op.op = "check_eor"    -> CheckEor(s, pos, op.n)
      [] op.op = "has_more_bytes" -> HasMore(s, pos)

\* number of bytes an operation's result accounts for ("each byte exactly once")
Consumed(s, pos, op) == Apply(s, pos, op).pos - pos

NonConsuming == {"peek_u8", "check_eor", "has_more_bytes"}
=============================================================================
