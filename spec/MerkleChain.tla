----------------------------- MODULE MerkleChain -----------------------------
(* Evidence that an opened row was hashed into a commitment: the verifier's hash function is replaced by a recording one, so the
   table `merges` holds every merge <<left, right, out>> it performed (digests interned as positive integers).  A row opened at
   position pos of a tree of the given depth is tied to the root when its leaf digest (the recorded hash of the row, 0 = the row
   was never hashed) climbs to the root through recorded merges, entering each merge on the side the position's bit names.       *)
EXTENDS Naturals, Sequences, FiniteSets, SequencesExt

Up(merges, S, bit) == {merges[m][3] : m \in {k \in DOMAIN merges : merges[k][IF bit = 0 THEN 1 ELSE 2] \in S}}
Reach(merges, leaf, pos, depth) ==
    FoldLeft(LAMBDA S, j : Up(merges, S, (pos \div (2 ^ (j - 1))) % 2), {leaf}, [j \in 1..depth |-> j])
ChainOK(merges, leaf, pos, depth, root) == leaf # 0 /\ root \in Reach(merges, leaf, pos, depth)
TreeOK(merges, t) == /\ Len(t.leaves) = Len(t.positions)
                     /\ \A k \in DOMAIN t.positions : ChainOK(merges, t.leaves[k], t.positions[k], t.depth, t.root)
=============================================================================
