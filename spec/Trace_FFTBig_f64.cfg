CONSTANT FieldName = "f64"
INIT Init
NEXT Next
POSTCONDITION Accepted
