-------------------------------- MODULE Serde --------------------------------
(* Documented encodings of winter-utils (property C12): little-endian fixed-width integers, bool, Option tag, the vint64
   size encoding, length-prefixed collections; and the admission predicates of the composite winterfell types.
   Values wider than 31 bits are BigNat byte sequences.  Decoding is the byte-reader contract of Bytes.tla.   *)
EXTENDS BigNat, Bytes

\* ---- vint64 (usize) ------------------------------------------------------------------------------------
\* number of bytes of the encoding: k bytes carry 7k payload bits, the 9-byte form carries 64
EncodedLen(v) == IF \E k \in 1..8 : LessN(v, Pow2N(7 * k)) THEN CHOOSE k \in 1..8 : LessN(v, Pow2N(7 * k)) /\ (k = 1 \/ ~LessN(v, Pow2N(7 * (k - 1)))) ELSE 9
EncUsize(v) == LET len == EncodedLen(v)
               IN  IF len = 9 THEN <<0>> \o ToBytes(v, 8)
                   ELSE ToBytes(MulN(AddN(MulSmallN(v, 2), OneN), Pow2N(len - 1)), len)
\* round trip through the reader contract
UsizeRoundTrip(v) == LET enc == EncUsize(v)  r == ReadUsize(enc \o <<171, 205>>, 0)
                     IN  r.res.ok /\ r.res.val = ToBytes(v, 8) /\ r.pos = Len(enc)

\* ---- fixed-width integers, bool, option ---------------------------------------------------------------------
EncUInt(v, w) == ToBytes(v, w)
EncBool(b)    == <<IF b THEN 1 ELSE 0>>
EncOption(present, payload) == IF present THEN <<1>> \o payload ELSE <<0>>
EncVecU8(bytes) == EncUsize(FromInt(Len(bytes))) \o bytes          \* Vec<u8> / String: length prefix then elements

\* ---- composite admission predicates (what the constructors accept) -----------------------------------------
\* TraceInfo::new_multi_segment(main, aux, rands, 2^ln, meta)
TraceInfoAccepted(main, aux, rands, ln, metalen) ==
    /\ main >= 1 /\ main + aux <= 255
    /\ (aux = 0 => rands = 0) /\ rands <= 255
    /\ ln >= 3 /\ metalen <= 65535
\* wire image of a TraceInfo
EncTraceInfo(main, aux, rands, ln, meta) == <<main, aux, rands, ln>> \o ToBytes(FromInt(Len(meta)), 2) \o meta
\* ProofOptions::new(q, blowup, grind, ext, fold, rem)
OptionsAccepted(q, b, g, f, rem) ==
    /\ q >= 1 /\ q <= 255 /\ b \in {2, 4, 8, 16, 32, 64, 128} /\ g <= 32 /\ f \in {2, 4, 8, 16}
    /\ rem \in {0, 1, 3, 7, 15, 31, 63, 127, 255}
EncOptions(q, b, g, ext, f, rem) == <<q, b, g, ext, f, rem>>        \* ext: 1 | 2 | 3
\* Context::new(trace info with 2^ln rows, options with blowup 2^lb): trace length and LDE domain size at most u32::MAX
ContextAccepted(ln, lb) == ln >= 3 /\ lb \in 1..7 /\ ln + lb <= 31
=============================================================================
