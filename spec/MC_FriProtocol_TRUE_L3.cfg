CONSTANT L = 3
CONSTANT RemFoldAll = TRUE
CONSTANT CheckRemCommit = TRUE
SPECIFICATION Spec
INVARIANT Sound
INVARIANT Complete
INVARIANT Order
INVARIANT Emit
