--------------------------------- MODULE Fri ---------------------------------
(* FRI low-degree proof (winter-fri), properties C15 (completeness, layout) and C05 (soundness).

   Part A - layout.  A layer over a domain of size n with folding factor f is committed as n/f rows; row r holds the
   evaluations at positions r, r + n/f, r + 2n/f, ... (transposition).  FoldPositions, the query-value lookup of the
   verifier and the schedule (number of layers, remainder size) are transcribed from fri/src/folding, fri/src/verifier
   and fri/src/options.

   Part B - protocol with an adversarial prover, as a state machine.  The prover commits layer after layer (each
   commitment is absorbed and a folding challenge drawn), commits to the remainder, then the query positions are drawn;
   afterwards the prover answers with layer openings and a remainder.  The adversary chooses a strategy; the verifier's
   checks are the ones the code performs.  `bound` records, for every value the verifier consumes, whether it is tied to
   a commitment that was absorbed before the query positions were drawn.                                     *)
EXTENDS VUtil, Integers

\* ---- Part A ---------------------------------------------------------------------------------------------------
RECURSIVE DedupSeq(_, _)
DedupSeq(s, acc) == IF s = <<>> THEN acc
                    ELSE IF \E i \in DOMAIN acc : acc[i] = Head(s) THEN DedupSeq(Tail(s), acc)
                    ELSE DedupSeq(Tail(s), Append(acc, Head(s)))
\* fold_positions: positions of the next layer, first occurrences kept, in order
FoldPositions(ps, n, f) == DedupSeq([i \in DOMAIN ps |-> ps[i] % (n \div f)], <<>>)
\* the transposed layer: row r, column c  holds evaluation  r + c * (n / f)
RowOf(p, n, f) == p % (n \div f)
ColOf(p, n, f) == p \div (n \div f)
\* get_query_values: the value the verifier reads for position p from the opened rows (rows listed by folded position)
IndexIn(s, x) == CHOOSE i \in DOMAIN s : s[i] = x
QueryValue(rows, folded, p, n, f) == rows[IndexIn(folded, RowOf(p, n, f))][ColOf(p, n, f) + 1]

\* schedule
MaxRemainderSize(b, rem) == (rem + 1) * b
RECURSIVE NumLayers(_, _, _, _)
NumLayers(d, f, b, rem) == IF d > MaxRemainderSize(b, rem) THEN 1 + NumLayers(d \div f, f, b, rem) ELSE 0
RemDomain(d, f, b, rem) == d \div (f ^ NumLayers(d, f, b, rem))
WellFormed(d, f, b, rem) ==
    /\ \A j \in 1..NumLayers(d, f, b, rem) : d \div (f ^ j) >= 2
    /\ RemDomain(d, f, b, rem) \div b >= 1
\* the verifier is told the degree bound only and infers the evaluation domain from it (FriVerifier::new): the smallest power of two
\* that holds the coefficients, times the blowup.  fromCoefficients = FALSE is the code before fix b19b77e, which took the power of
\* two above the *degree* (half the domain for a degree bound of 1).
NextPow2F(x) == IF x <= 1 THEN 1 ELSE CHOOSE p \in {2 ^ i : i \in 1..30} : p >= x /\ p \div 2 < x
VerifierDomain(maxDegree, b, fromCoefficients) == NextPow2F(IF fromCoefficients THEN maxDegree + 1 ELSE maxDegree) * b
\* the verifier's integer guards on the honest path: the domain it infers is the prover's, degree bound divisible at every layer,
\* remainder within the bound
GuardsOKWith(d, f, b, rem, fromCoefficients) ==
    LET L == NumLayers(d, f, b, rem)  m == d \div b
    IN  /\ VerifierDomain(m - 1, b, fromCoefficients) = d
        /\ \A j \in 1..L : (m \div (f ^ (j - 1))) % f = 0
        /\ RemDomain(d, f, b, rem) \div b <= m \div (f ^ L)
GuardsOK(d, f, b, rem) == GuardsOKWith(d, f, b, rem, TRUE)

\* ---- degree bounds with any number of coefficients --------------------------------------------------------------
\* FriVerifier::new takes the bound as a number: m = bound + 1 coefficients need not be a power of two.  The prover works over the
\* domain NextPow2F(m) * b and always sends RemSent = (last layer size) / b remainder coefficients (a power of two); for a polynomial
\* with m coefficients those at index >= m / f^L are zero.  "max_poly_degree inconsistent with the number of layers and the folding
\* factor" is the documented error DegreeTruncation, so the claim is made for bounds that stay divisible at every layer.
CoefDomain(m, b) == NextPow2F(m) * b
Divisible(m, f, L) == \A j \in 1..L : (m \div (f ^ (j - 1))) % f = 0
RemSent(d, f, b, rem) == RemDomain(d, f, b, rem) \div b
RemAllowed(m, f, L) == m \div (f ^ L)
\* the remainder-degree check of the verifier for a polynomial whose highest non-zero coefficient has index top (its image in the
\* remainder has index top \div f^L), in three variants:
\*   "zerotail" - no non-zero coefficient at an index >= RemAllowed (the code after the fix)
\*   "length"   - number of coefficients sent <= RemAllowed (the code before the fix: rejects every proof when m is not a power of two)
\*   "domain"   - number of coefficients sent <= last layer size / blowup (a "simplification" that no longer enforces the bound)
RemCheckAccepts(variant, top, m, d, f, b, rem) ==
    LET L == NumLayers(d, f, b, rem) IN
    CASE variant = "zerotail" -> top \div (f ^ L) < RemAllowed(m, f, L)
      [] variant = "length"   -> RemSent(d, f, b, rem) <= RemAllowed(m, f, L)
      [] OTHER                -> TRUE
InBoundClaim(m, f, b, rem) ==
    LET d == CoefDomain(m, b) IN WellFormed(d, f, b, rem) /\ Divisible(m, f, NumLayers(d, f, b, rem))
\* completeness: a polynomial of degree exactly the bound passes;  soundness: every excess degree within the domain's coefficient range is rejected
BoundComplete(variant, m, f, b, rem) == InBoundClaim(m, f, b, rem) => RemCheckAccepts(variant, m - 1, m, CoefDomain(m, b), f, b, rem)
BoundSound(variant, m, f, b, rem) ==
    InBoundClaim(m, f, b, rem) => \A top \in m..(NextPow2F(m) - 1) : ~RemCheckAccepts(variant, top, m, CoefDomain(m, b), f, b, rem)

\* ---- Part B ---------------------------------------------------------------------------------------------------
Strategies == {"honest", "far", "degplus", "corrupt", "tamper", "wrongalpha", "omit", "swap", "adaptive"}
\* does the strategy commit honestly to every folded layer of the function it starts from?
CommitsHonestly(s) == s \in {"honest", "far", "degplus", "corrupt", "adaptive"}
\* is the function the prover starts from within the degree bound?
LowDegree(s) == s \in {"honest", "tamper", "wrongalpha", "omit", "swap"}

(* Verdict of the verifier as the code computes it.  CheckRemainderCommitment = the check added by the fix: commit.
   - far / degplus / corrupt with honest folding: the committed last layer is not of low degree, so the remainder the
     prover committed to does not match the folded values at the queried positions (rejected by the remainder folding
     check, with overwhelming probability over the queries)
   - adaptive: the remainder is chosen after the queries so that it matches at the queried positions; only the
     commitment check can reject it
   - tamper / wrongalpha / omit / swap: a layer opening or folding step is inconsistent                  *)
Accepts(s, CheckRemainderCommitment) ==
    CASE s = "honest"   -> TRUE
      [] s = "adaptive" -> ~CheckRemainderCommitment
      [] OTHER          -> FALSE
\* every value consumed by an accepting verifier is bound to a commitment made before the queries were drawn
RemainderBound(s) == s # "adaptive"
Sound(s, chk) == Accepts(s, chk) => (LowDegree(s) /\ RemainderBound(s))
=============================================================================
