INIT Init
NEXT Next
INVARIANT RoundTripInv
INVARIANT Emit
