----------------------------- MODULE PrimeField -----------------------------
(* The three base fields as integer arithmetic modulo their primes (property C07), on BigNat byte sequences.
   FieldName selects the field; the modulus is given by its defining formula's value, the multiplicative group by the
   factorisation of M - 1 (used for the Lucas certificate of primality / generator order).                 *)
EXTENDS BigNat

CONSTANT FieldName          \* "f62" | "f64" | "f128"

\* 2^62 - 111*2^39 + 1,   2^64 - 2^32 + 1,   2^128 - 45*2^40 + 1     (little-endian bytes)
Modulus == CASE FieldName = "f62"  -> <<1, 0, 0, 0, 128, 200, 255, 63>>
             [] FieldName = "f64"  -> <<1, 0, 0, 0, 255, 255, 255, 255>>
             [] FieldName = "f128" -> <<1, 0, 0, 0, 0, 211, 255, 255, 255, 255, 255, 255, 255, 255, 255, 255>>
ElemBytes == IF FieldName = "f128" THEN 16 ELSE 8
TwoAdicity == CASE FieldName = "f62" -> 39 [] FieldName = "f64" -> 32 [] FieldName = "f128" -> 40

Tab == Multiples(Modulus)            \* constant: evaluated once
RedF(a)    == ModTab(a, Tab)
AddF(a, b) == RedF(AddN(a, b))
NegF(a)    == LET r == RedF(a) IN IF r = <<>> THEN <<>> ELSE SubN(Modulus, r)
SubF(a, b) == AddF(RedF(a), NegF(b))
MulF(a, b) == RedF(MulN(a, b))
SqrF(a)    == MulF(a, a)

\* a^e for a BigNat exponent e, by square and multiply
RECURSIVE ExpAcc(_, _, _)
ExpAcc(base, e, acc) == IF e = <<>> THEN acc
                        ELSE ExpAcc(SqrF(base), HalfN(e), IF IsOddN(e) THEN MulF(acc, base) ELSE acc)
ExpF(a, e) == ExpAcc(RedF(a), NormN(e), OneN)

RECURSIVE SqrTimes(_, _)
SqrTimes(a, k) == IF k = 0 THEN a ELSE SqrTimes(SqrF(a), k - 1)

\* b is the inverse of a (zero maps to zero)
IsInvF(a, b) == IF RedF(a) = <<>> THEN RedF(b) = <<>> ELSE MulF(a, b) = OneN
IsCanonical(a) == LessN(a, Modulus)

\* M - 1 = 2^TwoAdicity * odd part; prime factors of M - 1 (the largest ones exceed 32 bits and are byte sequences)
PrimeFactors == CASE FieldName = "f62"  -> << <<2>>, <<13>>, <<17>>, FromInt(37957) >>
                  [] FieldName = "f64"  -> << <<2>>, <<3>>, <<5>>, <<17>>, FromInt(257), FromInt(65537) >>
                  [] FieldName = "f128" -> << <<2>>, <<29>>, <<181>>, FromInt(286619), FromInt(11394379),
                                              <<91, 90, 22, 52, 4>> >>            \* 18053749339
MMinus1 == SubN(Modulus, OneN)
\* exact division of M - 1 by a factor q, found as the x with x*q = M-1 via the multiplicative inverse is circular;
\* instead the cofactors are derived by repeated halving for q = 2 and supplied for the odd primes by CofactorOK below
Cofactor(x, q) == MulN(x, q) = MMinus1
=============================================================================
