------------------------------ MODULE MC_Merkle ------------------------------
(* R1 + R2 for C10: every position list (all non-empty subsets in ascending order; all orders for up to MaxPerm
   positions) of a tree of the given Depth is one initial state.  Invariants: the honest opening verifies
   (Complete), single paths verify, and no single mutation of the honest opening is accepted (Sound).  Emit
   prints the case with the mutation list and the model's verdicts for the replay on the real code.     *)
EXTENDS Merkle, Json, IOUtils, TLC

Strict  == IOEnv.MK_STRICT = "1"
MaxPerm == atoi(IOEnv.MK_MAXPERM)
MaxSize == atoi(IOEnv.MK_MAXSIZE)          \* largest subset size enumerated
Stride  == atoi(IOEnv.MK_STRIDE)           \* keep every Stride-th subset of sizes > MaxPerm (1 = all)

VARIABLE ps
vars == <<ps>>

Positions == 0..(N - 1)
Perms(S) == {f \in [1..Cardinality(S) -> S] : \A a, b \in 1..Cardinality(S) : a # b => f[a] # f[b]}
Code(S) == SumSeq([k \in 1..Cardinality(S) |-> 2 ^ SortedSeqOf(S)[k]])
Subsets == {S \in SUBSET Positions : S # {} /\ Cardinality(S) <= MaxSize}
Init == \E S \in Subsets :
            IF Cardinality(S) <= MaxPerm THEN ps \in Perms(S)
            ELSE Code(S) % Stride = 0 /\ ps = SortedSeqOf(S)
Next == UNCHANGED vars

CompleteInv == Complete(ps, Strict)
PathInv     == \A k \in DOMAIN ps : SinglePathOK(ps[k])
SoundInv    == Sound(ps, Strict)

Emit == LET pr == ProveBatchImpl(ps)
        IN  PrintT(ToJson([depth |-> Depth, ps |-> ps,
                           shape |-> [j \in DOMAIN pr.nodes |-> Len(pr.nodes[j])],
                           muts |-> SetToSeq(MutationsOf(pr, ps)),
                           model_accepts |-> SetToSeq(AcceptedMutations(ps, Strict))]))
=============================================================================
