---- MODULE MC_ReadAdapter_TTrace_1790223372 ----
EXTENDS MC_ReadAdapter, Sequences, TLCExt, Toolbox, Naturals, TLC

_expression ==
    LET MC_ReadAdapter_TEExpression == INSTANCE MC_ReadAdapter_TEExpression
    IN MC_ReadAdapter_TEExpression!expression
----

_trace ==
    LET MC_ReadAdapter_TETrace == INSTANCE MC_ReadAdapter_TETrace
    IN MC_ReadAdapter_TETrace!trace
----

_inv ==
    ~(
        TLCGet("level") = Len(_TETrace)
        /\
        st = ([bpos |-> 2, buf |-> <<1, 2>>, rbuf |-> <<3>>, oob |-> TRUE, geof |-> FALSE, chunks |-> <<1>>, src |-> <<4, 5, 6, 7, 8, 9, 10>>, ck |-> 1])
        /\
        depth = (1)
        /\
        good = (FALSE)
        /\
        lastop = ([n |-> 2, op |-> "read_many_u16"])
        /\
        sidx = (1)
    )
----

_init ==
    /\ good = _TETrace[1].good
    /\ lastop = _TETrace[1].lastop
    /\ sidx = _TETrace[1].sidx
    /\ st = _TETrace[1].st
    /\ depth = _TETrace[1].depth
----

_next ==
    /\ \E i,j \in DOMAIN _TETrace:
        /\ \/ /\ j = i + 1
              /\ i = TLCGet("level")
        /\ good  = _TETrace[i].good
        /\ good' = _TETrace[j].good
        /\ lastop  = _TETrace[i].lastop
        /\ lastop' = _TETrace[j].lastop
        /\ sidx  = _TETrace[i].sidx
        /\ sidx' = _TETrace[j].sidx
        /\ st  = _TETrace[i].st
        /\ st' = _TETrace[j].st
        /\ depth  = _TETrace[i].depth
        /\ depth' = _TETrace[j].depth

\* Uncomment the ASSUME below to write the states of the error trace
\* to the given file in Json format. Note that you can pass any tuple
\* to `JsonSerialize`. For example, a sub-sequence of _TETrace.
    \* ASSUME
    \*     LET J == INSTANCE Json
    \*         IN J!JsonSerialize("MC_ReadAdapter_TTrace_1790223372.json", _TETrace)

=============================================================================

 Note that you can extract this module `MC_ReadAdapter_TEExpression`
  to a dedicated file to reuse `expression` (the module in the 
  dedicated `MC_ReadAdapter_TEExpression.tla` file takes precedence 
  over the module `MC_ReadAdapter_TEExpression` below).

---- MODULE MC_ReadAdapter_TEExpression ----
EXTENDS MC_ReadAdapter, Sequences, TLCExt, Toolbox, Naturals, TLC

expression == 
    [
        \* To hide variables of the `MC_ReadAdapter` spec from the error trace,
        \* remove the variables below.  The trace will be written in the order
        \* of the fields of this record.
        good |-> good
        ,lastop |-> lastop
        ,sidx |-> sidx
        ,st |-> st
        ,depth |-> depth
        
        \* Put additional constant-, state-, and action-level expressions here:
        \* ,_stateNumber |-> _TEPosition
        \* ,_goodUnchanged |-> good = good'
        
        \* Format the `good` variable as Json value.
        \* ,_goodJson |->
        \*     LET J == INSTANCE Json
        \*     IN J!ToJson(good)
        
        \* Lastly, you may build expressions over arbitrary sets of states by
        \* leveraging the _TETrace operator.  For example, this is how to
        \* count the number of times a spec variable changed up to the current
        \* state in the trace.
        \* ,_goodModCount |->
        \*     LET F[s \in DOMAIN _TETrace] ==
        \*         IF s = 1 THEN 0
        \*         ELSE IF _TETrace[s].good # _TETrace[s-1].good
        \*             THEN 1 + F[s-1] ELSE F[s-1]
        \*     IN F[_TEPosition - 1]
    ]

=============================================================================



Parsing and semantic processing can take forever if the trace below is long.
 In this case, it is advised to uncomment the module below to deserialize the
 trace from a generated binary file.

\*
\*---- MODULE MC_ReadAdapter_TETrace ----
\*EXTENDS MC_ReadAdapter, IOUtils, TLC
\*
\*trace == IODeserialize("MC_ReadAdapter_TTrace_1790223372.bin", TRUE)
\*
\*=============================================================================
\*

---- MODULE MC_ReadAdapter_TETrace ----
EXTENDS MC_ReadAdapter, TLC

trace == 
    <<
    ([st |-> [bpos |-> 0, buf |-> <<>>, rbuf |-> <<>>, oob |-> FALSE, geof |-> FALSE, chunks |-> <<1>>, src |-> <<1, 2, 3, 4, 5, 6, 7, 8, 9, 10>>, ck |-> 1],depth |-> 0,good |-> TRUE,lastop |-> [n |-> 0, op |-> "init"],sidx |-> 1]),
    ([st |-> [bpos |-> 2, buf |-> <<1, 2>>, rbuf |-> <<3>>, oob |-> TRUE, geof |-> FALSE, chunks |-> <<1>>, src |-> <<4, 5, 6, 7, 8, 9, 10>>, ck |-> 1],depth |-> 1,good |-> FALSE,lastop |-> [n |-> 2, op |-> "read_many_u16"],sidx |-> 1])
    >>
----


=============================================================================

---- CONFIG MC_ReadAdapter_TTrace_1790223372 ----
CONSTANTS
    Cap = 4
    CompactAt = 2
    Bug = "buflen"

INVARIANT
    _inv

CHECK_DEADLOCK
    \* CHECK_DEADLOCK off because of PROPERTY or INVARIANT above.
    FALSE

INIT
    _init

NEXT
    _next

CONSTANT
    _TETrace <- _trace

ALIAS
    _expression
=============================================================================
\* Generated on Thu Sep 24 04:16:12 UTC 2026