CONSTANT FieldName = "f128"
INIT Init
NEXT Next
POSTCONDITION Accepted
