CONSTANT Depth = 10
INIT Init
NEXT Next
INVARIANT CompleteInv
INVARIANT PathInv
INVARIANT SoundInv
INVARIANT Emit
