-------------------------------- MODULE Coin --------------------------------
(* The public coin (winter-crypto RandomCoin / DefaultRandomCoin), property C19 and the coin layer of C04.

   Abstract state: the chain of absorbed messages and the number of counter values consumed since the
   last absorption.  The hash functions are uninterpreted; with injective (collision-free) hashes the
   seed digest is determined by, and determines, the chain:
       new(es)                  chain = << HE(es) >>                      ctr = 0
       reseed(d)                chain' = chain \o << M(d) >>              ctr' = 0
       draw                     consumes k >= 1 counter values (rejection sampling); output derived
                                from MI(seed, ctr + k)                     ctr' = ctr + k
       check_leading_zeros(n)   trailing zeros of the first 8 bytes (LE) of MI(seed, n); no state change
       draw_integers(m,size,n)  chain' = chain \o << MI(n) >>, then m counter values  ctr' = m
   The byte-level predicates at the end state exactly which bytes make a drawn value (used by the
   trace specification, where the hash calls of the real coin are observed through a recording hasher). *)
EXTENDS VUtil

Tok(t, v) == [t |-> t, v |-> v]

CoinNew(seedId)      == [chain |-> <<Tok("HE", seedId)>>, ctr |-> 0]
CoinReseed(c, dId)   == [chain |-> Append(c.chain, Tok("M", dId)), ctr |-> 0]
CoinDraw(c, k)       == [c EXCEPT !.ctr = @ + k]
CoinInts(c, m, nId)  == [chain |-> Append(c.chain, Tok("MI", nId)), ctr |-> m]
\* the term an output is derived from
OutTerm(c, k)        == <<c.chain, c.ctr + k>>

\* ---- byte-level definitions ---------------------------------------------------------------------
\* little-endian comparison a < b of equal-length byte sequences
RECURSIVE LessLE(_, _)
LessLE(a, b) == IF Len(a) = 0 THEN FALSE
                ELSE IF a[Len(a)] # b[Len(b)] THEN a[Len(a)] < b[Len(b)]
                ELSE LessLE(SubSeq(a, 1, Len(a) - 1), SubSeq(b, 1, Len(b) - 1))

\* trailing zero bits of the little-endian 64-bit number in bs[1..8]
TZ64(bs) == LET nz == {j \in 1..8 : bs[j] # 0}
            IN  IF nz = {} THEN 64 ELSE LET j == CHOOSE x \in nz : \A y \in nz : x <= y IN 8 * (j - 1) + TZ8(bs[j])

\* the low `lg` bits of the little-endian number in bs[1..8], as 8 little-endian bytes
MaskLow(bs, lg) == [j \in 1..8 |-> LET keep == Max2(0, Min2(8, lg - 8 * (j - 1))) IN bs[j] % Pow2(keep)]

LE8(v) == [j \in 1..8 |-> IF j <= 4 THEN (v \div (256 ^ (j - 1))) % 256 ELSE 0]     \* v < 2^31

\* a candidate digest prefix denotes an element iff every base coefficient (cb bytes each, little endian) is
\* below the modulus (given as cb little-endian bytes)
ValidElement(bytes, deg, cb, modulus) ==
    \A i \in 0..(deg - 1) : LessLE(SubSeq(bytes, i * cb + 1, (i + 1) * cb), modulus)
=============================================================================
