----------------------------- MODULE Trace_Rescue -----------------------------
(* R3 for C11 part C: the Rescue permutations of the real hash functions against their reference definition.
   One round:  S-box x^alpha on every element, multiplication by the MDS matrix (as a matrix product - the implementation of
   the 64-bit hashers uses a frequency-domain fast path), addition of the first round constants, inverse S-box x^(1/alpha),
   MDS again, second round constants.  The permutation is seven rounds.  Every state the code produces must consist of
   canonical elements (an element equal to the one re-read from its serialization).                           *)
EXTENDS PrimeField, RescueConsts, Json, IOUtils, TLCExt

CONSTANT Hasher          \* "rp64_256" | "rpjive64_256" | "rp62_248"
Rec == ndJsonDeserialize(IOEnv.TRACE)
VARIABLE l
E == Rec[l]
Init == l = 1

MDS   == CASE Hasher = "rp64_256" -> MDS_rp64256 [] Hasher = "rpjive64_256" -> MDS_rpjive64256 [] Hasher = "rp62_248" -> MDS_rp62248
ARK1  == CASE Hasher = "rp64_256" -> ARK1_rp64256 [] Hasher = "rpjive64_256" -> ARK1_rpjive64256 [] Hasher = "rp62_248" -> ARK1_rp62248
ARK2  == CASE Hasher = "rp64_256" -> ARK2_rp64256 [] Hasher = "rpjive64_256" -> ARK2_rpjive64256 [] Hasher = "rp62_248" -> ARK2_rp62248
Alpha == CASE Hasher = "rp64_256" -> ALPHA_rp64256 [] Hasher = "rpjive64_256" -> ALPHA_rpjive64256 [] Hasher = "rp62_248" -> ALPHA_rp62248
InvAlpha == CASE Hasher = "rp64_256" -> INVALPHA_rp64256 [] Hasher = "rpjive64_256" -> INVALPHA_rpjive64256 [] Hasher = "rp62_248" -> INVALPHA_rp62248
InvMDS == CASE Hasher = "rp64_256" -> INVMDS_rp64256 [] Hasher = "rpjive64_256" -> INVMDS_rpjive64256 [] Hasher = "rp62_248" -> INVMDS_rp62248
W == Len(MDS)

NormState(s) == TLCEval([i \in 1..Len(s) |-> NormN(s[i])])
NormMat(m) == [r \in 1..Len(m) |-> NormState(m[r])]
\* matrix-vector product: the row sums are accumulated as integers and reduced once
MatVec(m, v) == TLCEval([r \in 1..W |-> RedF(FoldLeft(LAMBDA acc, c : AddN(acc, MulN(m[r][c], v[c])), <<>>, [c \in 1..W |-> c]))])
SubVec(a, b) == TLCEval([i \in 1..W |-> SubF(a[i], b[i])])
AddVec(a, b) == TLCEval([i \in 1..W |-> AddF(a[i], b[i])])
Sbox(v)    == TLCEval([i \in 1..W |-> ExpF(v[i], FromInt(Alpha))])
InvSbox(v) == TLCEval([i \in 1..W |-> ExpF(v[i], InvAlpha)])
Round(s, r) == AddVec(MatVec(MDS, InvSbox(AddVec(MatVec(MDS, Sbox(s)), ARK1[r]))), ARK2[r])
(* `out` is the round image of `inp`.  Where the inverse MDS matrix is published the two halves of the round are met in the
   middle (the state y after the inverse S-box is recovered from the output; y^alpha must be the state before it), which avoids
   the 64-bit exponentiation; otherwise the round is computed forward.                                         *)
RoundOK(inp, out, r) ==
    IF InvMDS = <<>> THEN out = Round(inp, r)
    ELSE LET x == AddVec(MatVec(MDS, Sbox(inp)), ARK1[r])
             y == MatVec(InvMDS, SubVec(out, ARK2[r]))
         IN  Sbox(y) = x
Identity == [r \in 1..W |-> [c \in 1..W |-> IF r = c THEN OneN ELSE <<>>]]
MatMulIsIdentity(a, b) == \A r \in 1..W, c \in 1..W :
    RedF(FoldLeft(LAMBDA acc, k : AddN(acc, MulN(a[r][k], b[k][c])), <<>>, [k \in 1..W |-> k])) = Identity[r][c]

Consts == /\ E.ev = "consts" /\ E.name = Hasher /\ E.width = W /\ E.alpha = Alpha /\ NormN(E.inv_alpha) = InvAlpha
          /\ NormMat(E.mds) = MDS /\ NormMat(E.ark1) = ARK1 /\ NormMat(E.ark2) = ARK2       \* published tables (pinned copy)
          /\ ModN(MulN(FromInt(Alpha), InvAlpha), MMinus1) = OneN                             \* x -> x^(1/alpha) inverts x -> x^alpha
          /\ NormMat(E.inv_mds) = InvMDS /\ (InvMDS # <<>> => MatMulIsIdentity(MDS, InvMDS))

Perm == /\ E.ev = "perm"
        /\ Len(E.chain) = 8
        /\ \A r \in 1..7 : RoundOK(NormState(E.chain[r]), NormState(E.chain[r + 1]), r)        \* every round equals its definition
        /\ E.perm = E.chain[8]                                                                \* the permutation is the seven rounds
        /\ E.canon

\* ---- sponge (part B) ---------------------------------------------------------------------------------------
\* layout: rate / capacity / digest positions (1-based start) of the state
RateStart  == IF Hasher = "rp62_248" THEN 1 ELSE 5
RateWidth  == IF Hasher = "rpjive64_256" THEN 4 ELSE 8
CapStart   == IF Hasher = "rp62_248" THEN 12 ELSE 1     \* rp62_248 keeps the element count in the last capacity element
DigestStart == IF Hasher = "rp62_248" THEN 1 ELSE 5
\* a byte string becomes field elements in 7-byte little-endian chunks; the last chunk gets a 1 byte appended
ChunkElems(bytes) ==
    LET n == Len(bytes)  k == (n + 6) \div 7
    IN  [j \in 1..k |-> NormN(IF j < k THEN SubSeq(bytes, 7 * (j - 1) + 1, 7 * j)
                                       ELSE SubSeq(bytes, 7 * (j - 1) + 1, n) \o <<1>>)]
NBlocks(n) == (n + RateWidth - 1) \div RateWidth
ZeroState == [i \in 1..W |-> <<>>]
\* state after adding block b (1-based) of the elements into the rate portion of `prev`
Absorb(prev, elems, b) ==
    TLCEval([i \in 1..W |-> LET j == (b - 1) * RateWidth + (i - RateStart) + 1
                           IN  IF i >= RateStart /\ i < RateStart + RateWidth /\ j <= Len(elems) THEN AddF(prev[i], elems[j]) ELSE prev[i]])
\* the Jive variant (rpjive64_256): the first capacity element is a padding flag (1 iff the number of elements is not a multiple of
\* the rate), and "appending a 1 followed by zeros" to a partial last block is done by WRITING 1, 0, .. into the rest of the rate
\* (for inputs longer than one block this overwrites what the previous permutation left there - the code as it is, named here)
Jive == Hasher = "rpjive64_256"
AbsorbJive(prev, elems, b) ==
    LET r == Len(elems) - (b - 1) * RateWidth IN          \* elements in this block
    TLCEval([i \in 1..W |-> LET p == i - RateStart + 1 IN   \* 1-based position within the rate
                           IF p < 1 \/ p > RateWidth THEN prev[i]
                           ELSE IF p <= r THEN AddF(prev[i], elems[(b - 1) * RateWidth + p])
                           ELSE IF r < RateWidth /\ p = r + 1 THEN OneN
                           ELSE IF r < RateWidth THEN <<>> ELSE prev[i]])
InitState(n) == IF Jive THEN [ZeroState EXCEPT ![CapStart] = IF n % RateWidth # 0 THEN OneN ELSE <<>>]
                ELSE [ZeroState EXCEPT ![CapStart] = FromInt(n)]
Digest4(final) == [i \in 1..4 |-> final[DigestStart + i - 1]]
\* merge: the sponge over the eight elements of the two digests; Jive: the compression mode x + y + P(x, y) summed over both halves
JiveSum(pre, post) == [i \in 1..4 |-> AddF(AddF(pre[i], pre[4 + i]), AddF(post[i], post[4 + i]))]
\* the elements an integer contributes: its residue, and its quotient by the modulus when it does not fit one element
IntElems(v) == LET x == NormN(v) IN IF LessN(x, Modulus) THEN <<x>> ELSE <<DivModN(x, Modulus).r, DivModN(x, Modulus).q>>
PlaceAt(state, start, elems) == [i \in 1..W |-> IF i >= start /\ i < start + Len(elems) THEN elems[i - start + 1] ELSE state[i]]
RMerge == /\ E.ev = "rmerge"
          /\ LET a == NormState(E.a)  b == NormState(E.b)  pre == NormState(E.pre)  post == NormState(E.post) IN
             IF Jive THEN /\ pre = PlaceAt(ZeroState, 1, a \o b)
                          /\ NormState(E.digest) = JiveSum(pre, post)
             ELSE /\ pre = PlaceAt([ZeroState EXCEPT ![CapStart] = FromInt(8)], RateStart, a \o b)
                  /\ NormState(E.digest) = Digest4(post)
RMergeInt == /\ E.ev = "rmergeint"
             /\ LET seed == NormState(E.seed)  ie == IntElems(E.v)  pre == NormState(E.pre)  post == NormState(E.post)
                    cnt == FromInt(4 + Len(ie)) IN
                IF Jive THEN /\ pre = [PlaceAt(ZeroState, 1, seed \o ie) EXCEPT ![W] = cnt]
                             /\ NormState(E.digest) = JiveSum(pre, post)
                ELSE /\ pre = PlaceAt([ZeroState EXCEPT ![CapStart] = cnt], RateStart, seed \o ie)
                     /\ NormState(E.digest) = Digest4(post)

Sponge == /\ E.ev = "sponge"
          /\ LET elems == NormState(E.elems)  n == Len(elems)  nb == NBlocks(n)
                 init == InitState(n)                                                \* capacity: number of elements / padding flag
             IN  /\ (E.kind = "bytes" => elems = ChunkElems(E.bytes))                  \* 7-byte chunks, padded last chunk
                 /\ Len(E.pre) = nb /\ Len(E.post) = nb                               \* one permutation per (partial) block
                 /\ \A b \in 1..nb : NormState(E.pre[b]) = (IF Jive THEN AbsorbJive(IF b = 1 THEN init ELSE NormState(E.post[b - 1]), elems, b)
                                                                      ELSE Absorb(IF b = 1 THEN init ELSE NormState(E.post[b - 1]), elems, b))
                 /\ LET final == IF nb = 0 THEN init ELSE NormState(E.post[nb])
                    IN  NormState(E.digest) = [i \in 1..4 |-> final[DigestStart + i - 1]]   \* the library's digest

Next == l <= Len(Rec) /\ (Consts \/ Perm \/ Sponge \/ RMerge \/ RMergeInt) /\ l' = l + 1
Accepted ==
    LET dd == TLCGet("stats").diameter
    IN  IF dd = Len(Rec) + 1 THEN TRUE
        ELSE PrintT(<<"TRACE-REJECTED at line", dd, Rec[dd].ev>>) /\ FALSE
=============================================================================
