CONSTANT FieldName = "f128"
INIT Init
NEXT Next
INVARIANT Emit
