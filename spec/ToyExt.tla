------------------------------- MODULE ToyExt -------------------------------
(* The extensions of the harness field F_40961 with native integers: an element is the tuple of its Deg coefficients, lowest
   degree first; multiplication is the schoolbook product reduced by the irreducible polynomial the harness field declares
       Deg = 2 :  x^2 = x - 1          Deg = 3 :  x^3 = x + 4          (Deg = 1: the base field itself)
   Inversion goes through the norm: the product of the conjugates a^p, a^(p^2) of a is inv(a) times an element of the base field. *)
EXTENDS ToyMath

CONSTANT Deg

ZeroX == [i \in 1..Deg |-> 0]
OneX  == [i \in 1..Deg |-> IF i = 1 THEN 1 ELSE 0]
Emb(v) == [i \in 1..Deg |-> IF i = 1 THEN v % P ELSE 0]
NormX(a) == [i \in 1..Deg |-> a[i] % P]
AddX(a, b) == [i \in 1..Deg |-> (a[i] + b[i]) % P]
SubX(a, b) == [i \in 1..Deg |-> (a[i] + P - (b[i] % P)) % P]
NegX(a) == [i \in 1..Deg |-> (P - (a[i] % P)) % P]
ScaleX(a, k) == [i \in 1..Deg |-> (a[i] * (k % P)) % P]
Pr(x, y) == (x * y) % P
MulX(a, b) ==
    CASE Deg = 1 -> << Pr(a[1], b[1]) >>
      [] Deg = 2 -> LET hh == Pr(a[2], b[2])
                    IN  << (Pr(a[1], b[1]) + P - hh) % P, (Pr(a[1], b[2]) + Pr(a[2], b[1]) + hh) % P >>
      [] Deg = 3 -> LET c0 == Pr(a[1], b[1])
                        c1 == (Pr(a[1], b[2]) + Pr(a[2], b[1])) % P
                        c2 == (Pr(a[1], b[3]) + Pr(a[2], b[2]) + Pr(a[3], b[1])) % P
                        c3 == (Pr(a[2], b[3]) + Pr(a[3], b[2])) % P
                        c4 == Pr(a[3], b[3])
                    \* x^3 = x + 4,  x^4 = x^2 + 4x
                    IN  << (c0 + 4 * c3) % P, (c1 + c3 + 4 * c4) % P, (c2 + c4) % P >>
RECURSIVE PowX(_, _)
PowX(a, e) == IF e = 0 THEN OneX ELSE IF e % 2 = 1 THEN MulX(a, PowX(MulX(a, a), e \div 2)) ELSE PowX(MulX(a, a), e \div 2)
FrobX(a) == PowX(a, P)
InvX(a) == IF NormX(a) = ZeroX THEN ZeroX
           ELSE CASE Deg = 1 -> << InvM(a[1]) >>
                  [] Deg = 2 -> LET c == FrobX(a) IN ScaleX(c, InvM(MulX(a, c)[1]))
                  [] Deg = 3 -> LET f1 == FrobX(a)  c == MulX(f1, FrobX(f1)) IN ScaleX(c, InvM(MulX(a, c)[1]))
DivX(a, b) == MulX(a, InvX(b))
\* the norm lies in the base field (used as a self-check of the reduction rule)
NormInBase(a) == LET c == IF Deg = 2 THEN FrobX(a) ELSE IF Deg = 3 THEN MulX(FrobX(a), FrobX(FrobX(a))) ELSE OneX
                 IN  \A i \in 2..Deg : MulX(a, c)[i] = 0
=============================================================================
