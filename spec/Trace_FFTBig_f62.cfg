CONSTANT FieldName = "f62"
INIT Init
NEXT Next
POSTCONDITION Accepted
