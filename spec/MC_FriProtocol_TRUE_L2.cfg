CONSTANT L = 2
CONSTANT CheckRemCommit = TRUE
SPECIFICATION Spec
INVARIANT Sound
INVARIANT Complete
INVARIANT Order
INVARIANT Emit
