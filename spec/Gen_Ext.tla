------------------------------- MODULE Gen_Ext -------------------------------
(* R2 for C08: operand pairs of extension elements with boundary base coefficients (0, 1, p-1, p-2, (p+1)/2, 2^32, 2^32-1,
   2^63 - where they fit) in every coefficient position; the set is enumerated and thinned by a stride.
   Second family ("unit products"): the extension products are sums of base-field partial products x_i * y_j, and the
   fast paths double / subtract those partial products in their internal representation.  For the two Montgomery fields
   the coefficient classes Img are the residues whose internal image (v * 2^64 mod p) is a boundary word - 2^63-1, 2^63,
   the first value whose double exceeds the modulus without a carry, 2^32-1, p-1 ... - and the other operand has a 1 in
   position j, so that the partial product x_i * y_j *is* that boundary image; for every (class, i, j), alone (all other
   coefficients zero) and surrounded by ones.  For the 128-bit field the classes sit at the 64-bit limb boundary.   *)
EXTENDS ExtField, Json, IOUtils, TLC
Stride == atoi(IOEnv.GE_STRIDE)
P == Modulus
Cls == << <<>>, <<1>>, SubN(P, <<1>>), SubN(P, <<2>>), HalfN(AddN(P, <<1>>)), Pow2N(32), SubN(Pow2N(32), <<1>>), FromInt(1234567) >>
NC == Len(Cls)
Elems == [1..Deg -> 1..NC]
Code(f) == FoldLeft(LAMBDA acc, i : acc * NC + (f[i] - 1), 0, [i \in 1..Deg |-> i])
Stride2 == atoi(IOEnv.GE_STRIDE2)
R64 == Pow2N(64)
RInv == ExpF(R64, SubN(P, <<2>>))                  \* 2^-64 mod p (Fermat)
Images == CASE FieldName = "f64" -> << SubN(Pow2N(63), <<1>>), Pow2N(63), AddN(SubN(Pow2N(63), Pow2N(31)), <<1>>), SubN(Pow2N(32), <<1>>),
                                       SubN(P, <<1>>), Pow2N(32), SubN(Pow2N(63), Pow2N(31)) >>
            [] FieldName = "f62" -> << SubN(P, <<1>>), SubN(P, <<2>>), Pow2N(61), SubN(Pow2N(61), <<1>>), HalfN(AddN(P, <<1>>)), Pow2N(32), <<1>> >>
            [] OTHER -> << >>
Img == IF FieldName = "f128"
       THEN << Pow2N(64), SubN(Pow2N(64), <<1>>), AddN(Pow2N(64), <<1>>), SubN(Pow2N(127), <<1>>), AddN(Pow2N(96), <<1>>), SubN(Pow2N(128), Pow2N(64)) >>
       ELSE [k \in 1..Len(Images) |-> MulF(Images[k], RInv)]
NI == Len(Img)
Bytes(v) == ToBytes(v, ElemBytes)
Alone(c, i) == [k \in 1..Deg |-> Bytes(IF k = i THEN c ELSE <<>>)]
Among(c, i) == [k \in 1..Deg |-> Bytes(IF k = i THEN c ELSE <<1>>)]
VARIABLE sc
\* every zero / non-zero pattern of the coefficients (0 and p-1), whatever the stride: x with the pattern, y with its mirror image
Patterns == [1..Deg -> {1, 3}]
Init == \/ \E f \in Elems, g \in Elems :
            /\ \/ (Code(f) * 7 + Code(g) * 13) % Stride = 0
               \/ f \in Patterns /\ g = [i \in 1..Deg |-> f[Deg + 1 - i]]
            /\ sc = [x |-> [i \in 1..Deg |-> ToBytes(Cls[f[i]], ElemBytes)], y |-> [i \in 1..Deg |-> ToBytes(Cls[g[i]], ElemBytes)],
                     b |-> ToBytes(Cls[f[1]], ElemBytes), b2 |-> ToBytes(Cls[g[Deg]], ElemBytes)]
        \* unit products
        \/ \E c \in 1..NI, i \in 1..Deg, j \in 1..Deg, among \in BOOLEAN :
            /\ ((c * Deg + i) * Deg + j) % Stride2 = 0
            /\ sc = IF among THEN [x |-> Among(Img[c], i), y |-> Among(Img[(c % NI) + 1], j), b |-> Bytes(Img[c]), b2 |-> Bytes(Img[(c % NI) + 1])]
                             ELSE [x |-> Alone(Img[c], i), y |-> Alone(<<1>>, j), b |-> Bytes(Img[c]), b2 |-> Bytes(<<1>>)]
Next == UNCHANGED sc
Emit == PrintT(ToJson(sc))
=============================================================================
