------------------------------- MODULE Gen_Ext -------------------------------
(* R2 for C08: operand pairs of extension elements with boundary base coefficients (0, 1, p-1, p-2, (p+1)/2, 2^32, 2^32-1,
   2^63 - where they fit) in every coefficient position; the set is enumerated and thinned by a stride.     *)
EXTENDS ExtField, Json, IOUtils, TLC
Stride == atoi(IOEnv.GE_STRIDE)
P == Modulus
Cls == << <<>>, <<1>>, SubN(P, <<1>>), SubN(P, <<2>>), HalfN(AddN(P, <<1>>)), Pow2N(32), SubN(Pow2N(32), <<1>>), FromInt(1234567) >>
NC == Len(Cls)
Elems == [1..Deg -> 1..NC]
Code(f) == FoldLeft(LAMBDA acc, i : acc * NC + (f[i] - 1), 0, [i \in 1..Deg |-> i])
VARIABLE sc
\* every zero / non-zero pattern of the coefficients (0 and p-1), whatever the stride: x with the pattern, y with its mirror image
Patterns == [1..Deg -> {1, 3}]
Init == \E f \in Elems, g \in Elems :
            /\ \/ (Code(f) * 7 + Code(g) * 13) % Stride = 0
               \/ f \in Patterns /\ g = [i \in 1..Deg |-> f[Deg + 1 - i]]
            /\ sc = [x |-> [i \in 1..Deg |-> ToBytes(Cls[f[i]], ElemBytes)], y |-> [i \in 1..Deg |-> ToBytes(Cls[g[i]], ElemBytes)],
                     b |-> ToBytes(Cls[f[1]], ElemBytes), b2 |-> ToBytes(Cls[g[Deg]], ElemBytes)]
Next == UNCHANGED sc
Emit == PrintT(ToJson(sc))
=============================================================================
