------------------------------ MODULE Security ------------------------------
(* Security estimate and acceptance policy (property C18).

   Conj is the documented formula of the conjectured security level (air/src/proof/mod.rs, module docs and
   ProofOptions docs): the minimum of the field-size bound and the query bound, minus one, capped by the collision
   resistance of the hash function; grinding contributes only when the query bound alone reaches 80 bits.
   The policy: a proof is acceptable iff its level is at least the caller's minimum (conjectured or proven), or its
   options are a member of the caller's option set.                                                          *)
EXTENDS VUtil

GrindingFloor == 80

\* q queries, blowup b (power of two), grinding g, extension degree ext, field size bits, trace length 2^ln, collision
\* resistance cr
Conj(q, lb, g, ext, bits, ln, cr) ==
    LET fieldSec == bits * ext - (ln + lb)
        qs0      == lb * q
        querySec == IF qs0 >= GrindingFloor THEN qs0 + g ELSE qs0
    IN  Min2(Min2(fieldSec, querySec) - 1, cr)

\* documented digest sizes of the six hash functions in bits (Blake3 / SHA-3: output bytes; Rescue: four field elements of 64 resp.
\* 62 significant bits); generic collision resistance is half the digest size
DigestBits == [blake3_192 |-> 192, blake3_256 |-> 256, sha3_256 |-> 256, rp64_256 |-> 256, rpjive64_256 |-> 256, rp62_248 |-> 248]
CollisionResistance(h) == DigestBits[h] \div 2
AcceptMin(level, minimum) == level >= minimum

\* The proven estimate is a maximum over the proximity parameter m of the list-decoding regime.  Theorem 8 of eprint 2022/1216
\* applies to m only when the agreement parameter (1 + 1/2m) * sqrt(rho) exceeds sqrt(rho+), rho = 1/b, rho+ = (n + 2)/(n*b);
\* squaring and clearing denominators this is exactly  n * (4m + 1) > 8 m^2  (no rounding, no dependence on the blowup).
\* The code scans m = 3 .. UpperM(n) - 1, UpperM being the first m that is not admissible, capped at 1000.
MaxProximity == 1000
Admissible(n, m) == m >= 3 /\ n * (4 * m + 1) > 8 * m * m
UpperM(n) == Min2(MaxProximity, CHOOSE m \in 3..(n + 3) : ~Admissible(n, m) /\ \A k \in 3..(m - 1) : Admissible(n, k))
\* f[k] is the level for m = k + 2; the estimate is the best admissible one, capped by the collision resistance; a parameter
\* the theorem does not apply to contributes no security
ProvenFrom(f, n, cr) ==
    LET adm == {m \in 3..(Len(f) + 2) : Admissible(n, m) /\ m < MaxProximity}
        best == IF adm = {} THEN 0 ELSE CHOOSE v \in {f[m - 2] : m \in adm} : \A m \in adm : f[m - 2] <= v
    IN  Min2(best, cr)
=============================================================================
