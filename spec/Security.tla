------------------------------ MODULE Security ------------------------------
(* Security estimate and acceptance policy (property C18).

   Conj is the documented formula of the conjectured security level (air/src/proof/mod.rs, module docs and
   ProofOptions docs): the minimum of the field-size bound and the query bound, minus one, capped by the collision
   resistance of the hash function; grinding contributes only when the query bound alone reaches 80 bits.
   The policy: a proof is acceptable iff its level is at least the caller's minimum (conjectured or proven), or its
   options are a member of the caller's option set.                                                          *)
EXTENDS VUtil

GrindingFloor == 80

\* q queries, blowup b (power of two), grinding g, extension degree ext, field size bits, trace length 2^ln, collision
\* resistance cr
Conj(q, lb, g, ext, bits, ln, cr) ==
    LET fieldSec == bits * ext - (ln + lb)
        qs0      == lb * q
        querySec == IF qs0 >= GrindingFloor THEN qs0 + g ELSE qs0
    IN  Min2(Min2(fieldSec, querySec) - 1, cr)

AcceptMin(level, minimum) == level >= minimum
=============================================================================
