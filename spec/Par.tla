--------------------------------- MODULE Par ---------------------------------
(* Task decompositions of the multi-threaded code paths (property C14), as written in the code, with the index sets each
   task reads and writes.  For a deterministic result that is independent of the schedule it suffices that, within one
   parallel phase, the write sets of different tasks are pairwise disjoint, no task reads an index another task writes, and
   the union of the work equals the serial work.

   batch_iter_mut!(v, f)      utils/core/src/iterators.rs: batch = len / next_pow2(threads); chunks of `batch` elements, task i is
                              handed offset i * batch (the last chunk may be shorter; all of v is processed serially when batch = 0)
   permute(v)                 math/src/fft/concurrent.rs: task b handles i in [b*batch, (b+1)*batch), swaps (i, rev(i)) when rev(i) > i
   build_merkle_nodes(leaves) crypto/src/merkle/concurrent.rs: after the leaf level, task i computes the nodes of its subtree level
                              by level (start = n/2 + bs*i, bs = n/subtrees/2, halving); the top `subtrees` nodes serially
   transpose(segments)        prover/src/matrix/row_matrix.rs: the row-major LDE of `rows` rows and `segs` segments is written in
                              batches of whole rows: batches = 2*next_pow2(threads) once rows*segs >= 1024 (capped at `rows` since
                              fix 3ec6385; TransposeCapped = FALSE is the code before it), rows_per_batch = rows / batches,
                              chunk b of rows*segs/batches cells receives rows b*rows_per_batch .. +rows_per_batch-1
   evaluate (fragments)       prover/src/constraints/evaluator/default.rs + evaluation_table.rs: with at least 8192 rows the
                              constraint-evaluation table is cut into next_pow2(threads) fragments of rows/fragments rows (>= 16);
                              row i of fragment f is step f*size + i of the evaluation domain, and the periodic values of a step
                              are row (step mod table length) of the periodic table                                           *)
EXTENDS Naturals, Sequences, FiniteSets, TLC

NextPow2(x) == CHOOSE p \in {2 ^ i : i \in 0..12} : p >= x /\ (p = 1 \/ p \div 2 < x)
Log2i(n) == CHOOSE k \in 0..20 : 2 ^ k = n
\* bit reversal of i in a domain of size n = 2^k
RECURSIVE RevBits(_, _)
RevBits(i, k) == IF k = 0 THEN 0 ELSE (i % 2) * 2 ^ (k - 1) + RevBits(i \div 2, k - 1)
Rev(i, n) == RevBits(i, Log2i(n))

\* ---- batch_iter_mut ---------------------------------------------------------------------------------------------
Batch(len, threads) == len \div NextPow2(threads)
BatchTasks(len, threads) ==
    LET b == Batch(len, threads)
    IN  IF b < 1 THEN {[offset |-> 0, writes |-> 0..(len - 1)]}
        ELSE {[offset |-> i * b, writes |-> (i * b)..(IF (i + 1) * b - 1 < len - 1 THEN (i + 1) * b - 1 ELSE len - 1)] : i \in 0..((len + b - 1) \div b - 1)}
BatchOK(len, threads) ==
    LET T == BatchTasks(len, threads)
    IN  /\ UNION {t.writes : t \in T} = 0..(len - 1)                                   \* everything is processed
        /\ \A s, u \in T : s # u => s.writes \cap u.writes = {}                            \* nothing twice
        /\ \A t \in T : t.offset = CHOOSE m \in t.writes : \A x \in t.writes : m <= x      \* the offset handed to the task is its first index

\* ---- permute ----------------------------------------------------------------------------------------------------
PermuteTouches(n, threads, b) ==
    LET bs == n \div NextPow2(threads)
    IN  UNION {IF Rev(i, n) > i THEN {i, Rev(i, n)} ELSE {} : i \in (b * bs)..((b + 1) * bs - 1)}
PermuteOK(n, threads) ==
    LET nb == NextPow2(threads)
    IN  /\ n \div nb >= 1                                                               \* the precondition the caller guarantees (n >= 1024)
        /\ \A a, b \in 0..(nb - 1) : a # b => PermuteTouches(n, threads, a) \cap PermuteTouches(n, threads, b) = {}
        /\ UNION {PermuteTouches(n, threads, b) : b \in 0..(nb - 1)} = {i \in 0..(n - 1) : Rev(i, n) # i}

\* ---- Merkle tree ------------------------------------------------------------------------------------------------
\* n = number of leaf pairs = number of internal nodes + 1; internal node k has children 2k and 2k+1 (k >= 1)
RECURSIVE SubtreeWrites(_, _, _)
SubtreeWrites(start, bs, subtrees) ==
    IF start < subtrees THEN {} ELSE (IF bs >= 1 THEN start..(start + bs - 1) ELSE {}) \cup SubtreeWrites(start \div 2, bs \div 2, subtrees)
MerkleTaskWrites(n, threads, i) ==
    LET st == NextPow2(threads)  bs == (n \div st) \div 2
    IN  SubtreeWrites(n \div 2 + bs * i, bs, st)
MerkleOK(n, threads) ==
    LET st == NextPow2(threads)
        W(i) == MerkleTaskWrites(n, threads, i)
        parallel == UNION {W(i) : i \in 0..(st - 1)}
        serialTop == 1..(st - 1)
    IN  /\ \A a, b \in 0..(st - 1) : a # b => W(a) \cap W(b) = {}
        /\ \A i \in 0..(st - 1) : \A k \in W(i) :                                      \* children are leaf-level nodes or written by the same task
               \A ch \in {2 * k, 2 * k + 1} : ch >= n \/ ch \in W(i)
        /\ parallel \cup serialTop \cup (n..(2 * n - 1)) = 1..(2 * n - 1)                  \* every node is computed exactly once
        /\ parallel \cap serialTop = {}

\* ---- row-matrix transposition -------------------------------------------------------------------------------------
CONSTANT TransposeCapped, TransposeMinBatchCells
Min2(a, b) == IF a <= b THEN a ELSE b
\* TransposeMinBatchCells = 0: the code; = c > 0: the variant "no batch smaller than c cells" (batches also capped by cells / c), which
\* for a number of segments that is not a power of two gives a batch count that does not divide the number of rows: refuted
TransposeBatches(rows, segs, threads) ==
    LET nb == IF rows * segs < 1024 THEN 1 ELSE 2 * NextPow2(threads)
        nc == IF TransposeCapped THEN Min2(nb, rows) ELSE nb
    IN  IF TransposeMinBatchCells > 0 /\ rows * segs >= 1024 THEN Min2(nc, (rows * segs) \div TransposeMinBatchCells) ELSE nc
\* cell index (row-major, one cell per row and segment) written by batch b for its local row i and segment j, and the cell
\* the serial code writes for the same (row, segment)
TransposeOK(rows, segs, threads) ==
    LET nb == TransposeBatches(rows, segs, threads)
        rpb == rows \div nb
        chunk == (rows * segs) \div nb
        Cell(b, i, j) == b * chunk + i * segs + j
        Written == {Cell(b, i, j) : b \in 0..(nb - 1), i \in 0..(rpb - 1), j \in 0..(segs - 1)}
    IN  /\ chunk >= 1
        /\ Written = 0..(rows * segs - 1)                                                  \* every cell is written
        /\ \A b \in 0..(nb - 1), i \in 0..(rpb - 1), j \in 0..(segs - 1) :
               Cell(b, i, j) = (b * rpb + i) * segs + j                                    \* with the value of its row and segment

\* the same statement by arithmetic alone (used for the large sizes; the set form above is checked against it on the small ones)
TransposeOKArith(rows, segs, threads) ==
    LET nb == TransposeBatches(rows, segs, threads)
        rpb == rows \div nb
        chunk == (rows * segs) \div nb
    IN  chunk >= 1 /\ rpb * nb = rows /\ chunk = rpb * segs

\* ---- constraint evaluation in fragments ---------------------------------------------------------------------------
Fragments(rows, threads) == IF rows >= 8192 THEN NextPow2(threads) ELSE 1
FragmentsOK(rows, threads) ==
    LET nf == Fragments(rows, threads)
        size == rows \div nf
        Steps(f) == {f * size + i : i \in 0..(size - 1)}
    IN  /\ size >= 16                                                                       \* the assertion in fragments()
        /\ UNION {Steps(f) : f \in 0..(nf - 1)} = 0..(rows - 1)
        /\ \A f, g \in 0..(nf - 1) : f # g => Steps(f) \cap Steps(g) = {}
\* the periodic values used for row i of fragment f are those of the global step: (f*size + i) mod table; a lookup by the local
\* index i alone is right only when every fragment offset is a multiple of the table length
PeriodicLookupOK(rows, threads, table, byLocalIndex) ==
    LET nf == Fragments(rows, threads)
        size == rows \div nf
    IN  \A f \in 0..(nf - 1) : \A i \in {0, 1, size - 1} :
            (IF byLocalIndex THEN i % table ELSE (f * size + i) % table) = (f * size + i) % table
=============================================================================
