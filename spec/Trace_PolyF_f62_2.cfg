CONSTANT FieldName = "f62"
CONSTANT Deg = 2
INIT Init
NEXT Next
POSTCONDITION Accepted
