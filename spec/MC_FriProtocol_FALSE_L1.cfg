CONSTANT L = 1
CONSTANT RemFoldAll = TRUE
CONSTANT CheckRemCommit = FALSE
SPECIFICATION Spec
INVARIANT Sound
INVARIANT Complete
INVARIANT Order
INVARIANT Emit
