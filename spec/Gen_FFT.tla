------------------------------- MODULE Gen_FFT -------------------------------
(* R2 for C09: the configurations of the transforms: log size 1..MaxLog (crossing the sizes at which the recursion strategy
   and the concurrency threshold switch), blowup 1..128 as the two-adicity 13 of the toy field allows, domain offset class
   (1, generator, other), and for the matrix variants the number of columns (multiples and non-multiples of the segment
   width 8, up to 255).  Coefficients are seeded data chosen by the harness.                              *)
EXTENDS Naturals, Sequences, TLC, Json, IOUtils
MaxLog == atoi(IOEnv.FFT_MAXLOG)
Offsets == {"one", "generator", "other"}
VARIABLE c
Init == \/ \E ln \in 1..MaxLog, lb \in 0..7, off \in Offsets :
               /\ ln + lb <= 13 /\ (ln >= 9 => lb <= 2)
               /\ c = [kind |-> "vector", ln |-> ln, lb |-> lb, offset |-> off, cols |-> 1]
        \/ \E ln \in {3, 5, 8}, lb \in {1, 2, 3}, cols \in {1, 2, 7, 8, 9, 15, 16, 17, 64, 100, 255} :
               /\ ln + lb <= 11 /\ (cols > 64 => ln <= 5)
               /\ c = [kind |-> "matrix", ln |-> ln, lb |-> lb, offset |-> "generator", cols |-> cols]
Next == UNCHANGED c
Emit == PrintT(ToJson(c))
=============================================================================
