------------------------------- MODULE Stark -------------------------------
(* The STARK protocol at the level of its integer parameters (property C01) and of its transcript (property C04).

   Part 1 - parameters.  A statement is a tuple
       t = [ln, width, degs, cycles, pcol, k, nasserts, q, lb, grind, fold, rem, ext, bits, auxd, auxr, lag, nauxa, meta]
   (trace length 2^ln, number of columns, per-column constraint degree, periodic cycle lengths and their use,
   transition exemptions, number of assertions, proof options, extension degree, field size; auxiliary segment: degrees
   of its running-sum (1) / running-product (2) columns, number of random elements, Lagrange kernel column 0/1 (one
   more column, the last), number of auxiliary assertions; meta: number of bytes of trace metadata).  Admissible(t)
   transcribes the quantifier of C01; the operators below transcribe every derived quantity and every guard that
   prover, serialization and verifier evaluate on these integers on the honest path.  HonestPathOK(t) states that
   no guard fails; the design-level theorem checked by TLC is  Admissible(t) => HonestPathOK(t).             *)
EXTENDS VUtil, Integers

NextPow2(x) == CHOOSE p \in {2 ^ i : i \in 0..16} : p >= x /\ (p = 1 \/ p \div 2 < x)
CeilDiv(a, b) == (a + b - 1) \div b

N(t)   == 2 ^ t.ln
B(t)   == 2 ^ t.lb
Lde(t) == N(t) * B(t)

\* ---- options constructor (ProofOptions::new) -----------------------------------------------------------
OptionsAccepted(t) ==
    /\ t.q >= 1 /\ t.q <= 255
    /\ t.lb >= 1 /\ t.lb <= 7
    /\ t.grind >= 0 /\ t.grind <= 32
    /\ t.fold \in {2, 4, 8, 16}
    /\ t.rem <= 255 /\ IsPow2(t.rem + 1)

\* ---- FRI schedule (FriOptions::num_fri_layers, FriProver::build_layers / set_remainder) ------------------
MaxRemainderSize(t) == (t.rem + 1) * B(t)
RECURSIVE NumLayersFrom(_, _)
NumLayersFrom(t, d) == IF d > MaxRemainderSize(t) THEN 1 + NumLayersFrom(t, d \div t.fold) ELSE 0
NumFriLayers(t)     == NumLayersFrom(t, Lde(t))
RemainderDomain(t)  == Lde(t) \div (t.fold ^ NumFriLayers(t))
\* "every folded layer keeps at least two rows, at least one remainder coefficient"
WellFormedSchedule(t) ==
    /\ \A j \in 1..NumFriLayers(t) : Lde(t) \div (t.fold ^ j) >= 2
    /\ RemainderDomain(t) \div B(t) >= 1

\* ---- AIR context (TransitionConstraintDegree, AirContext) ------------------------------------------------
NumCycles(t, i)  == IF t.pcol[i] > 0 THEN 1 ELSE 0
MinBlowup(t, i)  == Max2(NextPow2(t.degs[i] + NumCycles(t, i) - 1), 2)
\* auxiliary segment: Len(t.auxd) constrained columns plus the Lagrange kernel column (its constraints are the library's own)
NAux(t)          == Len(t.auxd)
AuxW(t)          == NAux(t) + t.lag
TotalWidth(t)    == t.width + AuxW(t)
AuxMinBlowup(t, j)  == Max2(NextPow2(t.auxd[j] - 1), 2)
AuxEvalDegree(t, j) == t.auxd[j] * (N(t) - 1)
CeBlowup(t)      == Max2(FoldLeft(LAMBDA a, i : Max2(a, MinBlowup(t, i)), 0, [i \in 1..t.width |-> i]),
                         FoldLeft(LAMBDA a, j : Max2(a, AuxMinBlowup(t, j)), 0, [j \in 1..NAux(t) |-> j]))
EvalDegree(t, i) == t.degs[i] * (N(t) - 1)
                    + (IF t.pcol[i] > 0 THEN (N(t) \div t.cycles[t.pcol[i]]) * (t.cycles[t.pcol[i]] - 1) ELSE 0)
\* evaluation degrees of all transition constraints, main then auxiliary
EvalDegrees(t)   == [i \in 1..t.width |-> EvalDegree(t, i)] \o [j \in 1..NAux(t) |-> AuxEvalDegree(t, j)]
MaxEvalDegree(t) == FoldLeft(LAMBDA a, d : Max2(a, d), 0, EvalDegrees(t))
MaxExemptions(t) == FoldLeft(LAMBDA a, d : Min2(a, N(t) * CeBlowup(t) - 1 + N(t) - d), N(t) \div 2 + 1, EvalDegrees(t))
CompositionDegree(t)  == MaxEvalDegree(t) - (N(t) - t.k)          \* degree of the constraint composition polynomial
\* number of columns the composition polynomial is split into (Fixed: floor(d/n) + 1; before the fix: ceil(d/n))
NumCompositionColsV(t, Fixed) == IF Fixed THEN Max2(1, CompositionDegree(t) \div N(t) + 1)
                                 ELSE Max2(1, (CompositionDegree(t) + N(t) - 1) \div N(t))
NumCompositionCols(t) == NumCompositionColsV(t, TRUE)

\* ---- the assertions of a statement (the first t.nasserts of seven templates covering every assertion kind; they never
\* name a common cell) and the cells they name ---------------------------------------------------------------
AsrT(kind, col, first, stride, count) == [kind |-> kind, col |-> col, first |-> first, stride |-> stride, count |-> count]
AssertTemplates(t) ==
    LET n == N(t)  w == t.width
    IN  << AsrT("single", 0, 0, 0, 1),
           AsrT("single", w - 1, n - 1, 0, 1),
           AsrT("periodic", 0, 1, 4, 1),
           AsrT("sequence", 2 % w, 2, 4, n \div 4),
           IF w >= 4 THEN AsrT("sequence", 3, 0, 2, n \div 2) ELSE AsrT("single", 0, 4, 0, 1),
           \* a single assertion on the step "stride + first step" of the periodic one (another column): the two must not share a divisor
           IF w >= 2 THEN AsrT("single", w - 1, 5, 0, 1) ELSE AsrT("single", 0, 3, 0, 1),
           \* a second assertion with the divisor of the first one (same step, another column): one divisor group, two coefficients
           IF w >= 2 THEN AsrT("single", 1, 0, 0, 1) ELSE AsrT("single", 0, 8, 0, 1) >>
Asserts(t) == SubSeq(AssertTemplates(t), 1, t.nasserts)
\* the statement as the conformance harness instantiates it: a column that carries a periodic assertion has to repeat, so
\* it is made a period-two column (constraint degree 1, no periodic factor); everything derived from degrees follows this
Effective(t) == LET pc == {Asserts(t)[x].col + 1 : x \in {y \in 1..t.nasserts : Asserts(t)[y].kind = "periodic"}}
                IN  [t EXCEPT !.degs = [i \in 1..t.width |-> IF i \in pc THEN 1 ELSE t.degs[i]],
                              !.pcol = [i \in 1..t.width |-> IF i \in pc THEN 0 ELSE t.pcol[i]]]
StepsOfA(a, n) == CASE a.kind = "single"   -> {a.first}
                    [] a.kind = "periodic" -> {a.first + a.stride * j : j \in 0..((n \div a.stride) - 1)}
                    [] a.kind = "sequence" -> {a.first + a.stride * j : j \in 0..(a.count - 1)}
AssertedCells(t) == UNION {{<<Asserts(t)[x].col, s>> : s \in StepsOfA(Asserts(t)[x], N(t))} : x \in 1..t.nasserts}

\* auxiliary assertions: the first t.nauxa of three templates; the last two need a running-sum column (their values are
\* r * public prefix sum), a running-product column can only be asserted at step 0 (value 1)
SumCol(t) == IF \E j \in 1..NAux(t) : t.auxd[j] = 1 THEN (CHOOSE j \in 1..NAux(t) : t.auxd[j] = 1 /\ \A x \in 1..(j - 1) : t.auxd[x] # 1) - 1 ELSE 0 - 1
AuxAssertTemplates(t) ==
    LET n == N(t)  sc == SumCol(t)
    IN  << AsrT("single", IF sc = 0 /\ NAux(t) >= 2 THEN 1 ELSE 0, 0, 0, 1),
           AsrT("single", sc, n - 1, 0, 1),
           AsrT("sequence", sc, 2, 4, n \div 4) >>
MaxAuxAsserts(t) == IF NAux(t) = 0 THEN 0 ELSE IF SumCol(t) >= 0 THEN 3 ELSE 1
AuxAsserts(t) == SubSeq(AuxAssertTemplates(t), 1, t.nauxa)
AuxAssertedCells(t) == UNION {{<<AuxAsserts(t)[x].col, s>> : s \in StepsOfA(AuxAsserts(t)[x], N(t))} : x \in 1..t.nauxa}

(* Soundness rule for the ShapeAir family (property C02).  Constraint c reads cur[c], cur[c+1 mod w] and next[c]; the
   transition from step j to j+1 is enforced for j <= n-k-1.  Changing the single cell (c, i) of a valid trace makes the
   trace invalid iff the cell is asserted, or it is the `next` of an enforced transition (1 <= i <= n-k), or the `cur` of
   one (i <= n-k-1).  Cells of the rows n-k+1 .. n-1 that are not asserted are free.                          *)
Violated(t, c, i) == <<c, i>> \in AssertedCells(t) \/ i <= N(t) - t.k
\* with an auxiliary segment: the prover builds the running-sum column j from main column j % width, and the asserted value
\* at step s is r * (claimed prefix sum up to s); changing main cell (c, i) therefore also breaks every auxiliary assertion
\* on such a column that names a step after i (the pair of segments is invalid although the main segment alone is not)
ViolatedMain(t, c, i) ==
    \/ Violated(t, c, i)
    \/ \E x \in 1..t.nauxa : LET a == AuxAsserts(t)[x]
                              IN  t.auxd[a.col + 1] = 1 /\ a.col % t.width = c /\ \E s \in StepsOfA(a, N(t)) : s > i
\* the same rule for a cell of a running-sum/product column; every cell of the Lagrange kernel column is determined
ViolatedAux(t, j, i) == IF t.lag = 1 /\ j = AuxW(t) - 1 THEN TRUE ELSE <<j, i>> \in AuxAssertedCells(t) \/ i <= N(t) - t.k

\* ---- the seed of the public coin: the proof context as field elements (documented layout of Context::to_elements), each
\* element written as ElemBytes little-endian bytes; the public inputs follow (their encoding is the computation's own) ------
ModulusBytes(bits) == CASE bits = 62  -> <<1, 0, 0, 0, 128, 200, 255, 63>>                     \* 2^62 - 111 * 2^39 + 1
                        [] bits = 64  -> <<1, 0, 0, 0, 255, 255, 255, 255>>                    \* 2^64 - 2^32 + 1
                        [] bits = 128 -> <<1, 0, 0, 0, 0, 211>> \o [i \in 1..10 |-> 255]      \* 2^128 - 45 * 2^40 + 1
ElemBytesOf(bits) == IF bits = 128 THEN 16 ELSE 8
Pow2Bytes(e) == [i \in 1..4 |-> IF i - 1 = e \div 8 THEN 2 ^ (e % 8) ELSE 0]
ChunksOf(bs, k) == [j \in 1..CeilDiv(Len(bs), k) |-> SubSeq(bs, (j - 1) * k + 1, Min2(j * k, Len(bs)))]
SeedCtx(t, meta) ==
    LET eb    == ElemBytesOf(t.bits)
        md    == ModulusBytes(t.bits)
        half  == Len(md) \div 2
        \* main width, number of auxiliary segments [, auxiliary width, auxiliary random elements] packed into one element
        first == IF AuxW(t) > 0 THEN <<t.auxr, AuxW(t), 1, t.width>> ELSE <<0, t.width>>
        elems == << first, Pow2Bytes(t.ln) >>                                        \* trace length
                 \o (IF meta = <<>> THEN << >> ELSE ChunksOf(meta, eb - 1))           \* metadata in chunks of eb - 1 bytes
                 \o << SubSeq(md, 1, half), SubSeq(md, half + 1, 2 * half) >>         \* field modulus in two halves
                 \o << <<t.rem, t.fold, t.ext>>, <<t.grind>>, <<2 ^ t.lb>>, <<t.q>> >> \* extension | folding | remainder; grinding; blowup; queries
    IN  FlattenSeq([i \in DOMAIN elems |-> PadTo(elems[i], eb)])

\* ---- layout of the serialized proof: number of field elements / digests of each component (Wire.tla names) ------------
\* u = number of unique query positions
Layout(t, u) == [ood_trace_elems  |-> 2 * (t.width + NAux(t)),               \* current and next row; the Lagrange column has its own frame
                 ood_lag_elems    |-> t.lag * (t.ln + 1),
                 ood_eval_elems   |-> NumCompositionCols(t),
                 commit_digests   |-> 1 + (IF AuxW(t) > 0 THEN 1 ELSE 0) + 1 + NumFriLayers(t) + 1,
                 remainder_elems  |-> RemainderDomain(t) \div B(t),
                 tq1_elems        |-> u * t.width,                            \* base field elements
                 tq2_elems        |-> u * AuxW(t),                            \* extension field elements
                 cq_elems         |-> u * NumCompositionCols(t),
                 fri_layers       |-> NumFriLayers(t)]

\* ---- what the quantifier of C01 admits -----------------------------------------------------------------
Admissible(t) ==
    /\ OptionsAccepted(t)
    /\ t.ln >= 3
    /\ t.width >= 1 /\ t.width <= 255
    /\ \A i \in 1..t.width : t.degs[i] >= 1 /\ MinBlowup(t, i) <= B(t)          \* degree 1 .. blowup + 1
    /\ \A c \in DOMAIN t.cycles : IsPow2(t.cycles[c]) /\ t.cycles[c] >= 2 /\ t.cycles[c] <= N(t)
    /\ t.k >= 1 /\ t.k <= N(t) \div 2 + 1 /\ t.k <= MaxExemptions(t)
    /\ t.nasserts >= 1 /\ t.nasserts <= 7
    /\ (t.nasserts >= 7 /\ t.width = 1 => t.ln >= 4)                            \* with one column the seventh template needs step 8
    /\ t.meta >= 0 /\ t.meta <= 65535                                           \* TraceInfo::MAX_META_LENGTH
    /\ t.lag \in {0, 1} /\ (t.lag = 1 => NAux(t) >= 1)                          \* the context wants one auxiliary constraint
    /\ TotalWidth(t) <= 255 /\ t.auxr >= 0 /\ t.auxr <= 255 /\ (AuxW(t) = 0 => t.auxr = 0)
    /\ \A j \in 1..NAux(t) : t.auxd[j] >= 1 /\ AuxMinBlowup(t, j) <= B(t)       \* degree 1 (running sum), d >= 2 (running product of (m + r)^(d-1))
    /\ t.nauxa >= (IF NAux(t) > 0 THEN 1 ELSE 0) /\ t.nauxa <= MaxAuxAsserts(t)
    /\ WellFormedSchedule(t)
    /\ t.q < Lde(t)                                                              \* fewer queries than LDE points
    /\ t.ext \in 1..3 /\ (t.bits = 128 => t.ext <= 2)                            \* no cubic extension of the 128-bit field
    /\ t.ln + t.lb <= 31

\* ---- guards on the honest path, as the code evaluates them (Fixed = after the fix: commits) -----------------
\* u = number of unique query positions (1..q), an outcome of the coin
TableLimitOK(rows, cols, Fixed) == IF Fixed THEN rows >= 1 /\ rows <= 255 /\ cols >= 1 /\ cols <= 255
                                            ELSE rows >= 1 /\ rows < 255 /\ cols >= 1 /\ cols < 255
TraceInfoReadOK(t, Fixed) == IF Fixed THEN TotalWidth(t) <= 255 ELSE TotalWidth(t) < 255 /\ (AuxW(t) > 0 => t.auxr > 0)
FriFoldingNeed(t) == t.fold                          \* values per FRI query row
HonestPathOK(t, u, Fixed) ==
    /\ t.k <= MaxExemptions(t)                                                   \* set_num_transition_exemptions
    /\ B(t) >= CeBlowup(t)                                                       \* AirContext::new
    /\ NumCompositionColsV(t, Fixed) >= 1
    /\ CompositionDegree(t) < N(t) * NumCompositionColsV(t, Fixed)             \* all coefficients fit into the columns
    /\ CompositionDegree(t) < N(t) * CeBlowup(t)                                \* ... and into the evaluation domain
    /\ u >= 1 /\ u <= 255                                                        \* num_unique_queries: u8
    /\ TraceInfoReadOK(t, Fixed)                                                 \* TraceInfo::read_from
    /\ TableLimitOK(u, t.width, Fixed)                                           \* trace queries table
    /\ (AuxW(t) > 0 => TableLimitOK(u, AuxW(t), Fixed))                          \* auxiliary segment queries table
    /\ t.ln + 1 <= 255                                                          \* Lagrange kernel frame length: u8
    /\ TableLimitOK(u, NumCompositionColsV(t, Fixed), Fixed)                     \* constraint queries table
    /\ \A j \in 1..NumFriLayers(t) : (N(t) \div (t.fold ^ (j - 1))) % t.fold = 0 \* FriVerifier degree guard
    /\ RemainderDomain(t) \div B(t) <= N(t) \div (t.fold ^ NumFriLayers(t))      \* remainder length <= bound
=============================================================================
