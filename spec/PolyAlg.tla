------------------------------ MODULE PolyAlg ------------------------------
(* Polynomial algebra over an arbitrary field, given by its operations (property C20 "all fields and extensions").
   A polynomial is the sequence of its coefficients, lowest degree first; field elements are opaque values in normal
   form (equal elements are equal values).  Instantiated with the real base fields and their extensions on BigNat
   (ExtField.tla, Deg = 1, 2, 3) by Trace_PolyF.tla; ToyMath.tla is the same algebra written with native integers.   *)
EXTENDS Naturals, Sequences, SequencesExt, TLC, TLCExt

CONSTANTS FAdd(_, _), FSub(_, _), FMul(_, _), FZero, FOne

MaxLen(a, b) == IF Len(a) >= Len(b) THEN Len(a) ELSE Len(b)
Coef(p, i) == IF i >= 1 /\ i <= Len(p) THEN p[i] ELSE FZero
PAdd(a, b) == TLCEval([i \in 1..MaxLen(a, b) |-> FAdd(Coef(a, i), Coef(b, i))])
PSub(a, b) == TLCEval([i \in 1..MaxLen(a, b) |-> FSub(Coef(a, i), Coef(b, i))])
PScale(a, k) == TLCEval([i \in 1..Len(a) |-> FMul(a[i], k)])
\* schoolbook product
PMul(a, b) == IF Len(a) = 0 \/ Len(b) = 0 THEN <<>>
              ELSE TLCEval([k \in 1..(Len(a) + Len(b) - 1) |->
                     FoldLeft(LAMBDA acc, i : IF k - i + 1 >= 1 /\ k - i + 1 <= Len(b) THEN FAdd(acc, FMul(a[i], b[k - i + 1])) ELSE acc,
                              FZero, [i \in 1..Len(a) |-> i])])
PEq(a, b) == \A i \in 1..MaxLen(a, b) : Coef(a, i) = Coef(b, i)
IsZeroPoly(p) == \A i \in DOMAIN p : p[i] = FZero
DegreeOf(p) == LET nz == {i \in DOMAIN p : p[i] # FZero} IN IF nz = {} THEN 0 ELSE (CHOOSE i \in nz : \A j \in nz : j <= i) - 1
Eval(p, x) == FoldLeft(LAMBDA acc, c : FAdd(FMul(acc, x), c), FZero, Reverse(p))        \* Horner
XkMinus(k, c) == TLCEval([i \in 1..(k + 1) |-> IF i = 1 THEN FSub(FZero, c) ELSE IF i = k + 1 THEN FOne ELSE FZero])
FromRoots(rs) == FoldLeft(LAMBDA acc, r : PMul(acc, <<FSub(FZero, r), FOne>>), <<FOne>>, rs)
RECURSIVE Pow(_, _)
Pow(b, e) == IF e = 0 THEN FOne ELSE IF e % 2 = 1 THEN FMul(b, Pow(FMul(b, b), e \div 2)) ELSE Pow(FMul(b, b), e \div 2)

\* a - q*d has degree below that of d (or is zero when d is a constant)
DivRel(a, d, q) == LET r == PSub(a, PMul(q, d)) IN IF DegreeOf(d) = 0 THEN IsZeroPoly(r) ELSE (IsZeroPoly(r) \/ DegreeOf(r) < DegreeOf(d))
\* a - q*(x^k - c) has degree below k
SynRel(a, k, c, q) == LET r == PSub(a, PMul(q, XkMinus(k, c))) IN IsZeroPoly(r) \/ DegreeOf(r) < k
\* a - q*prod(x - r_i) has degree below the number of roots
RootsRel(a, rs, q) == LET r == PSub(a, PMul(q, FromRoots(rs))) IN IsZeroPoly(r) \/ DegreeOf(r) < Len(rs)
\* p takes the values ys at the points xs
Interpolates(p, xs, ys) == \A i \in DOMAIN xs : Eval(p, xs[i]) = ys[i]
=============================================================================
