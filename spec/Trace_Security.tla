--------------------------- MODULE Trace_Security ---------------------------
(* R3 for C18: the table of Proof::security_level / AcceptableOptions::validate recorded from the real code.
   row     the conjectured level equals the documented formula for every number of queries 1..255; both estimates
           are monotone in the number of queries and never exceed the collision resistance
   mono    two grid neighbours along grinding / extension degree / collision resistance: neither estimate decreases
   policy  the verdict of a minimum-security policy is exactly  level >= minimum
   optset  the verdict of an option-set policy is exactly membership of the proof's options
   prov_m  (hook) the proven level per proximity parameter m = 3 .. upper bound + 1: the bound is the first inadmissible m,
           inadmissible parameters contribute nothing, and the reported level is the best admissible one, capped
   hasher  the declared collision resistance of each of the six hash functions against its documented digest size      *)
EXTENDS Security, Json, IOUtils, TLCExt

Rec == ndJsonDeserialize(IOEnv.TRACE)
VARIABLE l
E == Rec[l]
Init == l = 1

Row == /\ E.ev = "row"
       /\ \A q \in 1..255 : E.conj[q] = Conj(q, E.lb, E.g, E.ext, E.bits, E.ln, E.cr)
       /\ \A q \in 1..254 : E.conj[q + 1] >= E.conj[q] /\ E.prov[q + 1] >= E.prov[q]
       /\ \A q \in 1..255 : E.prov[q] <= E.cr /\ E.conj[q] <= E.cr

Mono == /\ E.ev = "mono"
        /\ \A q \in 1..255 : E.conj_hi[q] >= E.conj_lo[q] /\ E.prov_hi[q] >= E.prov_lo[q]

Policy == /\ E.ev = "policy"
          /\ E.ok = AcceptMin(E.level, E.min)
          /\ E.kind = "conj" => E.level = Conj(E.q, E.lb, E.g, E.ext, E.bits, E.ln, E.cr)

OptSet == /\ E.ev = "optset"
          /\ E.ok = (\E i \in DOMAIN E.set : E.set[i] = E.opt)

ProvM == /\ E.ev = "prov_m"
         /\ LET n == 2 ^ E.ln IN
            /\ E.m_max = UpperM(n)
            /\ \A k \in DOMAIN E.f : ~Admissible(n, k + 2) => E.f[k] = 0
            /\ E.level = ProvenFrom(E.f, n, E.cr)

\* hasher  the collision resistance a hash function declares is half its documented digest size (Security.tla DigestBits), and it
\*         is the level of a proof whose field and query terms are saturated (conjectured estimate; the proven one never exceeds it)
Hasher == /\ E.ev = "hasher"
          /\ E.name \in DOMAIN DigestBits
          /\ E.cr = CollisionResistance(E.name)
          /\ E.cap_conj = E.cr /\ E.cap_prov <= E.cr

Next == l <= Len(Rec) /\ (Row \/ Mono \/ Policy \/ OptSet \/ ProvM \/ Hasher) /\ l' = l + 1

Accepted ==
    LET d == TLCGet("stats").diameter
    IN  IF d = Len(Rec) + 1 THEN TRUE
        ELSE PrintT(<<"TRACE-REJECTED at line", d, Rec[d].ev>>) /\ PrintT(Rec[d]) /\ FALSE
=============================================================================
