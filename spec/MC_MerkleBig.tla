----------------------------- MODULE MC_MerkleBig -----------------------------
(* R1 + R2 for C10 at the upper end of the quantifier: position lists of 254 and 255 positions in trees of 2^9 .. 2^11 leaves,
   chosen by pattern so that the opening has as many node vectors as the limit allows (no two positions are siblings), as
   few as possible (contiguous positions), or a mixture; a reduced mutation list (the full one of Merkle.tla grows with the
   tree).  Same invariants as MC_Merkle: the honest opening verifies, single paths verify, no listed mutation is accepted. *)
EXTENDS Merkle, Json, IOUtils, TLC

VARIABLE ps
vars == <<ps>>

Seq0(k, f(_)) == [i \in 1..k |-> f(i - 1)]
Patterns ==
    {Seq0(k, LAMBDA i : 2 * i) : k \in {254, 255}}                                  \* even positions: k node vectors
    \cup {Seq0(255, LAMBDA i : 2 * i + 1)}                                          \* odd positions
    \cup {Seq0(255, LAMBDA i : i)} \cup {Seq0(255, LAMBDA i : N - 255 + i)}         \* contiguous, at both ends
    \cup {Seq0(255, LAMBDA i : N - 1 - 2 * i)}                                      \* descending, no siblings
    \cup (IF N >= 1024 THEN {Seq0(255, LAMBDA i : 4 * i + (i % 3)), Seq0(255, LAMBDA i : 3 * i + 1)} ELSE {})
    \cup {Seq0(255, LAMBDA i : IF i < 128 THEN 2 * i ELSE 256 + (i - 128))}         \* 128 singles, then a contiguous run
Init == ps \in Patterns
Next == UNCHANGED vars

SomeMutations(pr) ==
    {[k |-> "leaf", i |-> i, j |-> 0, x |-> 0] : i \in {1, 128, Len(pr.leaves)}}
    \cup {[k |-> "swapleaves", i |-> i, j |-> i + 1, x |-> 0] : i \in {1, Len(pr.leaves) - 1}}
    \cup {[k |-> "node", i |-> i, j |-> 1, x |-> 0] : i \in {i2 \in {1, Len(pr.nodes)} : pr.nodes[i2] # <<>>}}
    \cup {[k |-> "addnode", i |-> i, j |-> 0, x |-> 0] : i \in {1, Len(pr.nodes)}}
    \cup {[k |-> "dropnode", i |-> i, j |-> 0, x |-> 0] : i \in {i2 \in {1, Len(pr.nodes)} : pr.nodes[i2] # <<>>}}
    \cup {[k |-> kk, i |-> 0, j |-> 0, x |-> 0] : kk \in {"addvec", "dropvec", "addleaf", "dropleaf", "depth+1", "depth-1"}}
    \cup {[k |-> "pos", i |-> i, j |-> 0, x |-> x] : i \in {1, Len(ps)}, x \in {0, 1, 2, N - 1, N, N + 1} \ {ps[1], ps[Len(ps)]}}

CompleteInv == Complete(ps, TRUE)
PathInv     == \A k \in {1, 2, 128, Len(ps)} : SinglePathOK(ps[k])
Accepted    == LET pr == ProveBatchImpl(ps)
               IN  {m \in SomeMutations(pr) : LET mm == Mutate(pr, ps, m) IN GetRootImpl(mm.pr, mm.ps, TRUE) = Ok(Root)}
SoundInv    == Accepted = {}
Emit == LET pr == ProveBatchImpl(ps)
        IN  PrintT(ToJson([depth |-> Depth, ps |-> ps, shape |-> [j \in DOMAIN pr.nodes |-> Len(pr.nodes[j])],
                           muts |-> SetToSeq(SomeMutations(pr)), model_accepts |-> <<>>]))
=============================================================================
