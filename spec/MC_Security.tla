----------------------------- MODULE MC_Security -----------------------------
(* R1 for C18: the conjectured level as a state machine over the whole parameter space.  A state is a parameter
   tuple; every step increases exactly one of the parameters the level must be monotone in (queries, grinding,
   extension degree, collision resistance).  Action property Mono: no step decreases the level.  Invariant
   Bounded: the level never exceeds the collision resistance and is never negative.                      *)
EXTENDS Security, IOUtils

QS    == IF IOEnv.SEC_FULL = "1" THEN 1..255 ELSE {1, 2, 3, 10, 11, 12, 13, 14, 19, 20, 26, 27, 39, 40, 41, 79, 80, 81, 127, 128, 254, 255}
LBS   == 1..7
GS    == IF IOEnv.SEC_FULL = "1" THEN 0..32 ELSE {0, 1, 15, 16, 31, 32}
EXTS  == 1..3
BITS  == {62, 64, 128}
LNS   == IF IOEnv.SEC_FULL = "1" THEN 3..32 ELSE {3, 4, 10, 20, 31, 32}
CRS   == {96, 100, 124, 128}

VARIABLES q, lb, g, ext, bits, ln, cr
vars == <<q, lb, g, ext, bits, ln, cr>>
Level == Conj(q, lb, g, ext, bits, ln, cr)

NextIn(S, x) == IF \E y \in S : y > x THEN {CHOOSE y \in S : y > x /\ \A z \in S : z > x => y <= z} ELSE {}

Init == /\ q = 1 /\ g = 0 /\ ext = 1 /\ cr = 96
        /\ lb \in LBS /\ bits \in BITS /\ ln \in LNS
IncQ   == \E y \in NextIn(QS, q)   : q' = y   /\ UNCHANGED <<lb, g, ext, bits, ln, cr>>
IncG   == \E y \in NextIn(GS, g)   : g' = y   /\ UNCHANGED <<q, lb, ext, bits, ln, cr>>
IncExt == \E y \in NextIn(EXTS, ext) : ext' = y /\ UNCHANGED <<q, lb, g, bits, ln, cr>>
IncCr  == \E y \in NextIn(CRS, cr) : cr' = y  /\ UNCHANGED <<q, lb, g, ext, bits, ln>>
Next == IncQ \/ IncG \/ IncExt \/ IncCr
Spec == Init /\ [][Next]_vars

Mono == [][Conj(q', lb', g', ext', bits', ln', cr') >= Level]_vars
Bounded == Level <= cr /\ Level >= 0
=============================================================================
