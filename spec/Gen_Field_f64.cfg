CONSTANT FieldName = "f64"
INIT Init
NEXT Next
INVARIANT Emit
