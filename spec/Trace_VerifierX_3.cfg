CONSTANT Deg = 3
INIT Init
NEXT Next
POSTCONDITION Accepted
