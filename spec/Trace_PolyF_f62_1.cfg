CONSTANT FieldName = "f62"
CONSTANT Deg = 1
INIT Init
NEXT Next
POSTCONDITION Accepted
