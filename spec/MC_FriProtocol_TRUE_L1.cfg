CONSTANT L = 1
CONSTANT RemFoldAll = TRUE
CONSTANT CheckRemCommit = TRUE
SPECIFICATION Spec
INVARIANT Sound
INVARIANT Complete
INVARIANT Order
INVARIANT Emit
