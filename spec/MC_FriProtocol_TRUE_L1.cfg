CONSTANT L = 1
CONSTANT CheckRemCommit = TRUE
SPECIFICATION Spec
INVARIANT Sound
INVARIANT Complete
INVARIANT Order
INVARIANT Emit
