CONSTANT Depth = 11
INIT Init
NEXT Next
INVARIANT CompleteInv
INVARIANT PathInv
INVARIANT SoundInv
INVARIANT Emit
