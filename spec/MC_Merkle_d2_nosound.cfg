CONSTANT Depth = 2
INIT Init
NEXT Next
INVARIANT CompleteInv
INVARIANT PathInv
INVARIANT Emit
