----------------------------- MODULE Gen_Bytes -----------------------------
(* R2 behaviour generator for C13: every behaviour of the Bytes contract over real-size streams, printed as
   one JSON scenario per behaviour with the contract's result and position after every step.  The
   harness executes each scenario on the streaming adapter under every chunking of the source (and on
   the slice reader and Cursor) and compares with the values printed here.                         *)
EXTENDS Bytes, Json, IOUtils

Depth   == atoi(IOEnv.GEN_DEPTH)
OpSet   == IOEnv.GEN_OPS              \* "small" | "full"

Alphabet == <<0, 1, 2, 127, 128, 255, 194, 4, 16, 65>>
PatByte(p, i) == Alphabet[((i * (2 * p + 1) + (i \div 11) + p) % 10) + 1]
StreamLens == <<0, 1, 2, 9, 15, 16, 17, 40, 255, 256, 257, 300, 511, 512, 513, 600>>
NStreams == Len(StreamLens)
StreamTab == [sid \in 1..NStreams |-> [i \in 1..StreamLens[sid] |-> PatByte(sid, i)]]   \* evaluated once
Stream(sid) == StreamTab[sid]
StreamIds == IF IOEnv.GEN_STREAMS = "all" THEN 1..NStreams ELSE {2, 4, 6, 7, 8, 10, 11, 12, 13, 16}

O(name, n) == [op |-> name, n |-> n]
NoArg == {"read_u8", "peek_u8", "read_bool", "read_u16", "read_u32", "read_u64", "read_u128",
          "read_usize", "has_more_bytes"}
Huge == 2147483647
SizesSmall == {0, 1, 16, 17, 256, 300}
SizesFull  == {0, 1, 2, 3, 15, 16, 17, 255, 256, 257, 300}
ArrSmall   == {0, 3, 17, 256}
ArrFull    == {0, 1, 2, 3, 4, 8, 16, 17, 32, 64, 255, 256, 257, 300}    \* instantiated in the harness

StaticOps ==
    {O(n, 0) : n \in NoArg}
    \cup (IF OpSet = "small"
          THEN {O("read_slice", k) : k \in SizesSmall} \cup {O("read_array", k) : k \in ArrSmall}
               \cup {O("check_eor", k) : k \in {1, 17, 257}} \cup {O("read_string", 3), O("read_many_u16", 9)}
          ELSE {O(nm, k) : nm \in {"read_slice", "read_vec", "read_string", "check_eor"}, k \in SizesFull}
               \cup {O("read_array", k) : k \in ArrFull}
               \cup {O("read_many_u16", k) : k \in {0, 1, 8, 128, 129, 200}}
               \cup {O("read_many_u8", k) : k \in {1, 17, 257}}
               \* lengths no stream can satisfy: Huge stands for usize::MAX, Huge - 1 for usize::MAX - 3 (position + length wraps
               \* around the word size once four bytes have been read); the contract answers "end of data" like for any other excess
               \cup {O(nm, k) : nm \in {"read_slice", "read_vec", "check_eor"}, k \in {Huge, Huge - 1}})
\* sizes relative to what is left: the exact fit and one byte too many
RelOps(rem) == {O(nm, k) : nm \in {"read_slice", "check_eor", "read_vec"}, k \in {rem, rem + 1}}

VARIABLES sid, pos, hist, done
vars == <<sid, pos, hist, done>>

Init == sid \in StreamIds /\ pos = 0 /\ hist = <<>> /\ done = FALSE

Step(op) == LET a == Apply(Stream(sid), pos, op)
            IN  /\ pos' = a.pos
                /\ hist' = Append(hist, [op |-> op.op, n |-> op.n, res |-> a.res, pos |-> a.pos])
                /\ UNCHANGED <<sid, done>>

\* a behaviour ends with one Finish step, so that in simulation mode (where TLC evaluates invariants on every
\* candidate successor) exactly one scenario is printed per generated behaviour
Finish == Len(hist) = Depth /\ ~done /\ done' = TRUE /\ UNCHANGED <<sid, pos, hist>>

\* exhaustive generation offers every operation; random generation (GEN_PICK = "random", used with -simulate)
\* offers one operation drawn by TLC's seeded RandomElement, so that a behaviour costs one successor per step
Offered == LET all == StaticOps \cup RelOps(Remaining(Stream(sid), pos))
           IN  IF IOEnv.GEN_PICK = "random" THEN {RandomElement(all)} ELSE all

Next == \/ /\ Len(hist) < Depth
           /\ \E op \in Offered : Step(op)
        \/ Finish

Spec == Init /\ [][Next]_vars

\* contract-level sanity of the generator itself (checked on every generated state)
PosInRange   == pos <= Len(Stream(sid))
NonConsumingOK == \A i \in DOMAIN hist : hist[i].op \in NonConsuming =>
                      hist[i].pos = (IF i = 1 THEN 0 ELSE hist[i - 1].pos)

Emit == done => PrintT(ToJson([sid |-> sid, steps |-> hist]))

ASSUME PrintT(ToJson([streams |-> [i \in 1..NStreams |-> Stream(i)]]))
=============================================================================
