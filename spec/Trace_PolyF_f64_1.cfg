CONSTANT FieldName = "f64"
CONSTANT Deg = 1
INIT Init
NEXT Next
POSTCONDITION Accepted
