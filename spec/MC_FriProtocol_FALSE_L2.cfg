CONSTANT L = 2
CONSTANT CheckRemCommit = FALSE
SPECIFICATION Spec
INVARIANT Sound
INVARIANT Complete
INVARIANT Order
INVARIANT Emit
