INIT Init
NEXT Next
INVARIANT Inv
