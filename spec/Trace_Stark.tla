----------------------------- MODULE Trace_Stark -----------------------------
(* R3 for C04: the Fiat-Shamir transcript of the real prover and the real verifier, observed through a recording
   public coin, validated against the protocol's message schedule.

   For each proof the harness writes: "begin" with the statement t (Stark.tla), the list of expected messages recomputed
   from the proof through public API (context and public-input elements; trace root; constraint root; hash of the
   out-of-domain trace frame; hash of the out-of-domain evaluations; FRI layer roots; remainder commitment), the nonce;
   then every coin operation of the prover ("P") and of the verifier ("V").

   Absorb:  the k-th absorbed value of either role must be exactly the k-th expected message (values carried in the proof,
            same order for both roles).
   Draw:    between message k and message k+1 at least Required(t, k) challenges are drawn (none missing, none early);
            surplus draws are allowed.
   Agree:   the verifier's j-th challenge after message k equals the prover's, for every challenge that is used.
   Queries: the proof-of-work check and the query draw happen after ALL messages are absorbed, with the proof's nonce, the
            configured number of queries and the LDE domain size; both roles obtain the same positions.        *)
EXTENDS Stark, Json, IOUtils, TLCExt

Rec == ndJsonDeserialize(IOEnv.TRACE)

VARIABLES l, t, exp, nonce, lde, role, absorbed, k, pdraws, pints, vdone, grindOK
E == Rec[l]
vars == <<l, t, exp, nonce, lde, role, absorbed, k, pdraws, pints, vdone, grindOK>>

L(s) == NumFriLayers(s)
A(s) == IF AuxW(s) > 0 THEN 1 ELSE 0                             \* one more trace commitment with an auxiliary segment
NumMsgs(s) == 6 + A(s) + L(s)
\* challenges that must be drawn after the i-th message and before the next one.  Messages: 1 context and public inputs,
\* 2 main trace root, [3 auxiliary trace root], then constraint root, out-of-domain trace frame, out-of-domain
\* evaluations, FRI layer roots, remainder
Required(s, i) ==
    CASE i = 2 /\ A(s) = 1 -> s.lag * s.ln + s.auxr              \* Lagrange (GKR) randomness, auxiliary random elements
      [] i = 2 + A(s) -> (s.width + NAux(s)) + (s.nasserts + s.nauxa) + s.lag * (s.ln + 1)   \* composition coefficients
      [] i = 3 + A(s) -> 1                                       \* out-of-domain point
      [] i = 5 + A(s) -> TotalWidth(s) + NumCompositionCols(s) + s.lag                      \* DEEP coefficients
      [] i >= 6 + A(s) /\ i <= 5 + A(s) + L(s) -> 1              \* FRI folding challenge per layer
      [] OTHER -> 0

Init == /\ l = 1 /\ t = [ln |-> 0] /\ exp = <<>> /\ nonce = <<>> /\ lde = 0 /\ role = "" /\ absorbed = 0 /\ k = 0
        /\ pdraws = <<>> /\ pints = <<>> /\ vdone = FALSE /\ grindOK = FALSE

\* the statement as instantiated by the harness (Stark.tla, Effective)
Begin == /\ E.ev = "begin"
         /\ t' = Effective(E.t) /\ exp' = E.expected /\ nonce' = E.nonce /\ lde' = E.lde
         \* the seed binds the context: changing any one parameter of the context (trace length, widths, auxiliary random
         \* elements, metadata, field modulus, each option) changes the elements the coin is seeded with (measured on the code)
         /\ \A b \in DOMAIN E.binding : E.binding[b].differs
         \* the documented layout of the seed (Context::to_elements, then the public inputs) is the model's reading of the
         \* code, not part of the property: a difference is reported as a note
         /\ IF E.expected[1] = SeedCtx(E.t, E.meta) \o E.pub THEN TRUE
                                                            ELSE PrintT(<<"SPEC-DRIFT seed layout differs from Stark.tla SeedCtx, statement", E.id>>)
         /\ Len(E.expected) = NumMsgs(E.t)                       \* layer count of the model = commitments in the proof
         /\ E.lde = Lde(E.t)
         /\ E.unique >= 1 /\ E.unique <= E.t.q
         /\ role' = "" /\ absorbed' = 0 /\ k' = 0 /\ pdraws' = [i \in 1..NumMsgs(E.t) |-> <<>>] /\ pints' = <<>>
         /\ vdone' = FALSE /\ grindOK' = FALSE

CoinNew == /\ E.ev = "coin" /\ E.op = "new"
           /\ (role = "" /\ E.role = "P") \/ (role = "P" /\ E.role = "V" /\ pints # <<>> /\ absorbed = NumMsgs(t))
           /\ E.data = exp[1]                                    \* seeded with context and public inputs
           /\ role' = E.role /\ absorbed' = 1 /\ k' = 0 /\ grindOK' = FALSE
           /\ UNCHANGED <<t, exp, nonce, lde, pdraws, pints, vdone>>

Absorb == /\ E.ev = "coin" /\ E.op = "reseed" /\ E.role = role
          /\ absorbed < NumMsgs(t)
          /\ k >= Required(t, absorbed)                          \* every challenge of the previous phase was drawn
          /\ E.data = exp[absorbed + 1]                          \* exactly the next prover message, as carried in the proof
          /\ absorbed' = absorbed + 1 /\ k' = 0
          /\ UNCHANGED <<t, exp, nonce, lde, role, pdraws, pints, vdone, grindOK>>

Draw == /\ E.ev = "coin" /\ E.op = "draw" /\ E.role = role
        /\ absorbed >= 2                                         \* no challenge before the first commitment
        /\ Len(E.data) > 0
        /\ E.args[1] = t.ext                                     \* challenges live in the extension field
        \* a challenge that is used depends on the message absorbed before it: with another digest absorbed in its place (the
        \* history replayed on the real coin by the harness) the value drawn here is different
        /\ (k + 1 <= Required(t, absorbed) => E.dep)
        /\ IF role = "P" THEN pdraws' = [pdraws EXCEPT ![absorbed] = Append(@, E.data)]
           ELSE /\ (k + 1 <= Required(t, absorbed) => (k + 1 <= Len(pdraws[absorbed]) /\ E.data = pdraws[absorbed][k + 1]))
                /\ pdraws' = pdraws
        /\ k' = k + 1
        /\ UNCHANGED <<t, exp, nonce, lde, role, absorbed, pints, vdone, grindOK>>

Grind == /\ E.ev = "coin" /\ E.op = "clz" /\ E.role = role
         /\ absorbed = NumMsgs(t) /\ k >= Required(t, absorbed)
         /\ E.data = nonce                                       \* the measure is taken for the proof's nonce
         /\ E.ints[1] >= t.grind
         /\ grindOK' = TRUE
         /\ UNCHANGED <<t, exp, nonce, lde, role, absorbed, k, pdraws, pints, vdone>>

Queries == /\ E.ev = "coin" /\ E.op = "ints" /\ E.role = role
           /\ absorbed = NumMsgs(t)                              \* after every prover message
           /\ grindOK                                            \* proof of work checked first
           /\ E.data = nonce
           /\ E.args = <<t.q, lde>>
           /\ Len(E.ints) = t.q
           /\ E.dep                                              \* the positions depend on the last absorbed message
           /\ IF role = "P" THEN pints' = E.ints /\ vdone' = vdone
              ELSE E.ints = pints /\ pints' = pints /\ vdone' = TRUE
           /\ UNCHANGED <<t, exp, nonce, lde, role, absorbed, k, pdraws, grindOK>>

End == /\ E.ev = "end"
       /\ vdone                                                  \* the verifier reached the query phase
       /\ E.verdict = "ok"
       /\ UNCHANGED <<t, exp, nonce, lde, role, absorbed, k, pdraws, pints, vdone, grindOK>>

Next == l <= Len(Rec) /\ (Begin \/ CoinNew \/ Absorb \/ Draw \/ Grind \/ Queries \/ End) /\ l' = l + 1

Accepted ==
    LET d == TLCGet("stats").diameter
    IN  IF d = Len(Rec) + 1 THEN TRUE
        ELSE PrintT(<<"TRACE-REJECTED at line", d>>) /\ PrintT(Rec[d]) /\ FALSE
=============================================================================
