------------------------------ MODULE Trace_Comp ------------------------------
(* R3 for C17: the constraint composition polynomial the real prover builds (DefaultConstraintEvaluator -> CompositionPoly),
   evaluated at out-of-domain points, must equal its definition:

       H(x) = sum_i  cct[i] * C_i(T(x), T(g x), P(x)) / Z_T(x)   +   sum_a  ccb[a] * (T_col(a)(x) - V_a(x)) / Z_a(x)

   T_c     the polynomial of degree < n through column c on the trace domain {g^s}
   P_k     the periodic column k: its interpolant over the cycle, composed with x^(n/cycle)
   C_i     the transition constraint of column i of the ShapeAir family
   Z_T     the vanishing polynomial of the non-exempt steps:  (x^n - 1) / prod_{last `exempt` steps s} (x - g^s)
   V_a,Z_a the polynomial through the asserted values on the steps an assertion names, and their vanishing polynomial
   Coefficients are assigned to the assertions in the canonical order (stride, first step, column).  The prover delivers H split
   into columns:  H(x) = sum_j x^(j n) H_j(x).

   With an auxiliary segment (columns A_j, random elements r) the sums continue with the auxiliary transition constraints
   (running sum:  A_j(g x) - (A_j(x) + r_j T_c(x));  running product:  A_j(g x) - A_j(x) (T_c(x) + r_j);  c = j mod width) over
   Z_T, the auxiliary assertions (value r_j * prefix sum of T_c up to the step, or 1 for a product column; coefficients follow
   those of the main assertions), and for a Lagrange kernel column L with random elements r'_1..r'_v (v = log2 n):
       sum_{k=1..v} lct[k] * ( r'_{v-k+1} L(x) - (1 - r'_{v-k+1}) L(g^(2^(v-k)) x) ) / (x^(2^(k-1)) - 1)
       + lcb * ( L(x) - prod_i (1 - r'_i) ) / (x - 1)                                                        *)
EXTENDS ToyMath, Json, IOUtils, Naturals, FiniteSets

Rec == ndJsonDeserialize(IOEnv.TRACE)
VARIABLE l
E == Rec[l]
Init == l = 1

SumM(S, f(_)) == FoldLeft(LAMBDA acc, s : AddM(acc, f(s)), 0, SetToSeq(S))
ProdM(S, f(_)) == FoldLeft(LAMBDA acc, s : MulM(acc, f(s)), 1, SetToSeq(S))
DivM(a, b) == MulM(a, InvM(b))

\* Lagrange interpolation through the points (xs[j], ys[j]) evaluated at x (x differs from all nodes)
LagrangeAt(xs, ys, x) ==
    SumM(DOMAIN xs, LAMBDA j : MulM(ys[j], ProdM(DOMAIN xs \ {j}, LAMBDA m : DivM(SubM(x, xs[m]), SubM(xs[j], xs[m])))))

\* value of trace column c (1-based) at x
TraceAt(c, x) == LET n == E.n IN LagrangeAt([s \in 1..n |-> PowM(E.g, s - 1)], E.trace[c], x)
\* periodic column k at x: interpolant over the cycle domain, evaluated at x^(n/cycle)
PeriodicAt(k, x) == LET vals == E.periodic[k]  cyc == Len(vals)  gc == PowM(E.g, E.n \div cyc)
                    IN  LagrangeAt([j \in 1..cyc |-> PowM(gc, j - 1)], vals, PowM(x, E.n \div cyc))

\* transition constraint of column i (1-based), ShapeAir family
Constraint(i, x) ==
    LET w == E.width
        cur(c) == TraceAt(c, x)
        nxt(c) == TraceAt(c, MulM(E.g, x))
    IN  IF E.mode = "copy" THEN SubM(nxt(i), cur(i))
        ELSE IF \E k \in DOMAIN E.neg : E.neg[k] = i - 1 THEN SubM(nxt(i), SubM(i, cur(i)))
        ELSE LET p == IF E.pcol[i] >= 0 THEN PeriodicAt(E.pcol[i] + 1, x) ELSE 1
             IN  SubM(nxt(i), AddM(AddM(MulM(PowM(cur(i), E.degs[i]), p), cur((i % w) + 1)), i))

ZT(x) == DivM(SubM(PowM(x, E.n), 1), ProdM((E.n - E.exempt)..(E.n - 1), LAMBDA s : SubM(x, PowM(E.g, s))))

StepsOfA(a) == CASE a.kind = "single"   -> <<a.first>>
                 [] a.kind = "periodic" -> [j \in 1..(E.n \div a.stride) |-> a.first + a.stride * (j - 1)]
                 [] a.kind = "sequence" -> [j \in 1..a.count |-> a.first + a.stride * (j - 1)]
\* canonical order of assertions: (stride, first step, column); single assertions have stride 0
Key(a) == <<IF a.kind = "single" THEN 0 ELSE a.stride, a.first, a.col>>
LessKey(p, q) == \/ p[1] < q[1] \/ (p[1] = q[1] /\ p[2] < q[2]) \/ (p[1] = q[1] /\ p[2] = q[2] /\ p[3] < q[3])
Rank(k) == Cardinality({m \in DOMAIN E.asserts : LessKey(Key(E.asserts[m]), Key(E.asserts[k]))}) + 1

Boundary(k, x) ==
    LET a  == E.asserts[k]
        st == StepsOfA(a)
        xs == [j \in DOMAIN st |-> PowM(E.g, st[j])]
        ys == [j \in DOMAIN st |-> IF Len(E.avalues[k]) = 1 THEN E.avalues[k][1] ELSE E.avalues[k][j]]
        V  == LagrangeAt(xs, ys, x)
        Z  == ProdM(DOMAIN xs, LAMBDA j : SubM(x, xs[j]))
    IN  MulM(E.ccb[Rank(k)], DivM(SubM(TraceAt(a.col + 1, x), V), Z))

\* ---- auxiliary segment ------------------------------------------------------------------------------------------
NAux == Len(E.aux_degs)
TracePts == [s \in 1..E.n |-> PowM(E.g, s - 1)]
AuxAt(j, x) == LagrangeAt(TracePts, E.aux[j], x)
RandOf(j) == IF Len(E.rands) = 0 THEN 1 ELSE E.rands[((j - 1) % Len(E.rands)) + 1]
MainOf(j) == ((j - 1) % E.width) + 1
AuxConstraint(j, x) ==
    LET m == TraceAt(MainOf(j), x)  r == RandOf(j)  cur == AuxAt(j, x)  nxt == AuxAt(j, MulM(E.g, x))
    IN  IF E.aux_degs[j] = 1 THEN SubM(nxt, AddM(cur, MulM(r, m))) ELSE SubM(nxt, MulM(cur, PowM(AddM(m, r), E.aux_degs[j] - 1)))
\* value an auxiliary assertion claims for column j (1-based) at step s: r_j * (sum of the main column over steps 0..s-1), or 1
PrefixSum(c, s) == FoldLeft(LAMBDA acc, i : AddM(acc, E.trace[c][i]), 0, [i \in 1..s |-> i])
AuxValue(j, s) == IF E.aux_degs[j] = 1 THEN MulM(RandOf(j), PrefixSum(MainOf(j), s)) ELSE 1
AuxRank(k) == Cardinality({m \in DOMAIN E.aux_asserts : LessKey(Key(E.aux_asserts[m]), Key(E.aux_asserts[k]))}) + 1
AuxBoundary(k, x) ==
    LET a  == E.aux_asserts[k]
        st == StepsOfA(a)
        xs == [j \in DOMAIN st |-> PowM(E.g, st[j])]
        ys == [j \in DOMAIN st |-> AuxValue(a.col + 1, st[j])]
        V  == LagrangeAt(xs, ys, x)
        Z  == ProdM(DOMAIN xs, LAMBDA j : SubM(x, xs[j]))
    IN  MulM(E.ccb[E.nmain_asserts + AuxRank(k)], DivM(SubM(AuxAt(a.col + 1, x), V), Z))
LagAt(x) == AuxAt(NAux + 1, x)
LagrangeTerms(x) ==
    LET v == Len(E.lrands)  r == E.lrands
    IN  AddM(SumM(1..v, LAMBDA k : MulM(E.lct[k],
                     DivM(SubM(MulM(r[v - k + 1], LagAt(x)), MulM(SubM(1, r[v - k + 1]), LagAt(MulM(PowM(E.g, 2 ^ (v - k)), x)))),
                          SubM(PowM(x, 2 ^ (k - 1)), 1)))),
             MulM(E.lcb, DivM(SubM(LagAt(x), ProdM(1..v, LAMBDA i : SubM(1, r[i]))), SubM(x, 1))))

H(x) == AddM(AddM(DivM(AddM(SumM(1..E.width, LAMBDA i : MulM(E.cct[i], Constraint(i, x))),
                            SumM(1..NAux, LAMBDA j : MulM(E.cct[E.width + j], AuxConstraint(j, x)))), ZT(x)),
                  AddM(SumM(DOMAIN E.asserts, LAMBDA k : Boundary(k, x)), SumM(DOMAIN E.aux_asserts, LAMBDA k : AuxBoundary(k, x)))),
             IF E.lagrange THEN LagrangeTerms(x) ELSE 0)

Comp == /\ E.ev = "comp"
        /\ \A pi \in DOMAIN E.points :
              LET pt == E.points[pi]
                  got == SumM(DOMAIN pt.h, LAMBDA j : MulM(PowM(pt.x, (j - 1) * E.n), pt.h[j]))
              IN  Len(pt.h) = E.ccols /\ got = H(pt.x)

Next == l <= Len(Rec) /\ Comp /\ l' = l + 1
Accepted ==
    LET d == TLCGet("stats").diameter
    IN  IF d = Len(Rec) + 1 THEN TRUE
        ELSE PrintT(<<"TRACE-REJECTED at line", d, Rec[d].id>>) /\ FALSE
=============================================================================
