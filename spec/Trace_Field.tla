----------------------------- MODULE Trace_Field -----------------------------
(* R3 for C07: every operation executed on the real field type must return the element that integer arithmetic modulo the
   prime gives (PrimeField.tla on BigNat), in canonical form: the integer below the modulus, serialized as exactly those
   little-endian bytes; an element must compare equal to, serialize and hash like a freshly constructed element of the same
   residue, and two registers compare equal exactly when they hold the same residue.  The published constants must satisfy
   their defining equations (modulus, two-adicity, root of unity of exact order 2^s, generator of the full group).  *)
EXTENDS PrimeField, Json, IOUtils, TLCExt

Rec == ndJsonDeserialize(IOEnv.TRACE)
VARIABLE l
E == Rec[l]
Init == l = 1

R64 == Pow2N(64)                      \* the Montgomery radix of the 64-bit field

\* generator of the whole multiplicative group: g^(M-1) = 1 and g^((M-1)/q) # 1 for every prime factor q (Lucas)
GeneratorOK(g) == /\ ExpF(g, MMinus1) = OneN
                  /\ \A i \in DOMAIN PrimeFactors :
                        LET dm == DivModN(MMinus1, PrimeFactors[i]) IN dm.r = <<>> /\ ExpF(g, dm.q) # OneN
Consts == /\ E.ev = "field" /\ E.name = FieldName
          /\ NormN(E.modulus) = Modulus /\ E.elem_bytes = ElemBytes /\ E.two_adicity = TwoAdicity
          /\ E.modulus_bits = 8 * (Len(Modulus) - 1) + (CHOOSE k \in 1..8 : Modulus[Len(Modulus)] < 2 ^ k /\ Modulus[Len(Modulus)] >= 2 ^ (k - 1))
          /\ NormN(E.zero) = <<>> /\ NormN(E.one) = OneN
          /\ DivModN(MMinus1, Pow2N(TwoAdicity)).r = <<>>                         \* 2^s divides M - 1 ...
          /\ IsOddN(DivModN(MMinus1, Pow2N(TwoAdicity)).q)                        \* ... and 2^(s+1) does not
          /\ SqrTimes(NormN(E.root), TwoAdicity) = OneN                           \* root^(2^s) = 1
          /\ SqrTimes(NormN(E.root), TwoAdicity - 1) # OneN                       \* root has order exactly 2^s
          /\ GeneratorOK(NormN(E.generator))

InitEv == /\ E.ev = "init"
          /\ LET r == NormN(E.r) IN
             /\ IsCanonical(r)
             /\ IF E.kind = "mont" THEN MulF(r, R64) = RedF(E.v)                  \* r is the residue whose image is v
                ELSE r = RedF(E.v)
          \* decoding E.v from bytes (TryFrom<&[u8]>, Randomizable::from_random_bytes, Deserializable): accepted exactly when the
          \* integer is below the modulus, and then it is that residue - never a silent reduction of a larger value
          /\ \A f \in {"try_from", "random", "read"} :
                /\ E.dec[f].ok = LessN(NormN(E.v), Modulus)
                /\ (E.dec[f].ok => NormN(E.dec[f].r) = NormN(E.v))

Expected(op, a, b, e) ==
    CASE op \in {"add", "add_assign"} -> AddF(a, b)
      [] op \in {"sub", "sub_assign"} -> SubF(a, b)
      [] op \in {"mul", "mul_assign"} -> MulF(a, b)
      [] op = "neg"    -> NegF(a)
      [] op = "double" -> AddF(a, a)
      [] op = "square" -> MulF(a, a)
      [] op = "cube"   -> MulF(MulF(a, a), a)
      [] op \in {"exp", "exp_vartime"} -> ExpF(a, e)
      [] op = "mul_small" -> MulF(a, e)
      [] op \in {"conj", "bytes_roundtrip"} -> RedF(a)

OpEv == /\ E.ev = "op"
        /\ LET a == NormN(E.a)  b == NormN(E.b)  r == NormN(E.r) IN
           /\ IsCanonical(r)
           /\ CASE E.op = "inv" -> IsInvF(a, r)
                [] E.op = "div" -> IF RedF(b) = <<>> THEN r = <<>> ELSE MulF(r, b) = RedF(a)
                [] OTHER -> r = Expected(E.op, a, b, NormN(E.e))
           /\ E.ser = ToBytes(r, ElemBytes)                                       \* canonical serialization
           /\ E.fresh_eq /\ E.ser_eq /\ E.hash_eq /\ E.bytes_eq                   \* representation independence
           /\ \A i, j \in DOMAIN E.regs : E.eqm[i][j] = (NormN(E.regs[i]) = NormN(E.regs[j]))

\* integer <-> element conversions.  To the field: an infallible conversion (From<uN>, the reducing constructor) gives the residue of
\* the integer; a fallible one (TryFrom) succeeds for every integer below the modulus, and whenever it succeeds the element is the
\* residue of the integer (never that of a truncated integer).  From the field: a conversion that succeeds gives the canonical
\* integer of the element, and it succeeds whenever that integer fits the target type.
ConvEv == /\ E.ev = "conv"
          /\ LET v == NormN(E.v) IN
             \A k \in DOMAIN E.to :
                LET c == E.to[k]  r == NormN(c.r) IN
                /\ (c.ok => IsCanonical(r) /\ r = RedF(v))
                /\ (~c.fallible => c.ok)
                /\ (LessN(v, Modulus) => c.ok)
          /\ LET e == NormN(E.elem) IN
             /\ e = RedF(NormN(E.src))
             /\ \A k \in DOMAIN E.from :
                   LET c == E.from[k] IN
                   /\ (c.ok => NormN(c.r) = e)
                   /\ (LessN(e, Pow2N(c.bits)) => c.ok)

Next == l <= Len(Rec) /\ (Consts \/ InitEv \/ OpEv \/ ConvEv) /\ l' = l + 1

Accepted ==
    LET d == TLCGet("stats").diameter
    IN  IF d = Len(Rec) + 1 THEN TRUE
        ELSE PrintT(<<"TRACE-REJECTED at line", d>>) /\ PrintT(Rec[d]) /\ FALSE
=============================================================================
