INIT Init
NEXT Next
INVARIANT GrammarOK
INVARIANT Emit
