------------------------------ MODULE Gen_Stark ------------------------------
(* R1 + R2 for C01 (and the scenario family shared by C02/C03/C04/C06): a walk over admissible statements.
   Init is a set of base statements; a step changes ONE parameter to another of its boundary values and keeps the
   statement admissible, so breadth-first search to depth 2 enumerates every pairwise combination of boundary values
   around each base statement.  Invariant HonestOK is the design-level completeness statement; Emit prints each
   statement as a scenario for the harness.                                                              *)
EXTENDS Stark, Json, IOUtils, TLC

MaxLn   == atoi(IOEnv.ST_MAXLN)
Fixed   == IOEnv.ST_FIXED = "1"
Depth   == atoi(IOEnv.ST_DEPTH)

VARIABLES t, d
vars == <<t, d>>

Base(ln, w, lb, fold, rem, q) ==
    [ln |-> ln, width |-> w, degs |-> [i \in 1..w |-> IF i % 2 = 0 /\ lb >= 1 THEN 2 ELSE 1], cycles |-> <<4>>,
     pcol |-> [i \in 1..w |-> 0], k |-> 1, nasserts |-> 1, q |-> q, lb |-> lb, grind |-> 0,
     fold |-> fold, rem |-> rem, ext |-> 1, bits |-> 64, auxd |-> <<>>, auxr |-> 0, lag |-> 0, nauxa |-> 0, meta |-> 0]

\* a base statement whose highest-degree constraint also carries a periodic factor (degree 3, one cycle => blowup 4)
BaseP == [Base(4, 2, 2, 2, 3, 10) EXCEPT !.degs = <<1, 3>>, !.pcol = <<0, 1>>, !.cycles = <<8>>]

\* two periodic columns of different cycle lengths (4 and 8; the trace is longer than both), used by different constraints
BaseP2 == [Base(4, 3, 2, 2, 3, 10) EXCEPT !.pcol = <<1, 2, 0>>, !.cycles = <<4, 8>>]

\* a base statement with every assertion template and four exemptions: the last steps of the periodic and sequence assertions
\* are reached by no enforced transition, so only the boundary constraints protect them
BaseA == [Base(4, 3, 2, 2, 3, 10) EXCEPT !.k = 4, !.nasserts = 6]

\* base statements with an auxiliary segment: running sum and product columns with all auxiliary assertion templates; the
\* smallest trace with a Lagrange kernel column; fewer random elements than columns, product column first, two exemptions,
\* cubic extension of the 62-bit field
BaseX1 == [Base(4, 2, 2, 2, 3, 10) EXCEPT !.auxd = <<1, 2>>, !.auxr = 2, !.nauxa = 3, !.nasserts = 7]
BaseX2 == [Base(3, 1, 1, 2, 0, 3) EXCEPT !.auxd = <<1>>, !.auxr = 1, !.lag = 1, !.nauxa = 2]
BaseX3 == [Base(5, 3, 3, 2, 3, 20) EXCEPT !.auxd = <<2, 1, 1>>, !.auxr = 1, !.lag = 1, !.nauxa = 3, !.k = 2, !.ext = 3, !.bits = 62]

\* auxiliary constraints of a higher degree than every main constraint: the number of composition columns and the evaluation
\* domain are then decided by the auxiliary segment alone
BaseX4 == [Base(4, 2, 3, 2, 3, 10) EXCEPT !.degs = <<1, 1>>, !.auxd = <<4, 1>>, !.auxr = 2, !.nauxa = 2]
Init == /\ t \in {Base(3, 1, 1, 2, 0, 3), Base(4, 2, 2, 4, 7, 8), Base(5, 3, 3, 2, 3, 20), Base(6, 8, 3, 8, 31, 12), BaseP, BaseP2, BaseA,
                  BaseX1, BaseX2, BaseX3, BaseX4}
        /\ Admissible(t) /\ d = 0

\* change the auxiliary columns, keeping the other auxiliary parameters meaningful for the new columns
WithAux(s, x) == LET s1 == [s EXCEPT !.auxd = x]
                 IN  IF Len(x) = 0 THEN [s1 EXCEPT !.auxr = 0, !.lag = 0, !.nauxa = 0]
                     ELSE [s1 EXCEPT !.nauxa = Max2(1, Min2(s.nauxa, MaxAuxAsserts(s1)))]
DegsFor(w, lb, v) == [i \in 1..w |-> IF i = w THEN Min2(v, 2 ^ lb + 1) ELSE 1 + (i % 2)]
Variants(s) ==
    {[s EXCEPT !.ln = x] : x \in 3..MaxLn}
    \cup {[s EXCEPT !.width = x, !.degs = DegsFor(x, s.lb, 2), !.pcol = [i \in 1..x |-> 0]] : x \in {1, 2, 7, 8, 9, 16, 64, 254, 255}}
    \cup {[s EXCEPT !.degs = DegsFor(s.width, s.lb, x)] : x \in {1, 2, 3, 4, 5, 8, 9}}
    \cup {[s EXCEPT !.pcol = [i \in 1..s.width |-> IF i = 1 THEN 1 ELSE 0], !.cycles = <<x>>] : x \in {2, 4, 8, 2 ^ s.ln}}
    \cup {[s EXCEPT !.pcol = [i \in 1..s.width |-> IF i = s.width THEN 1 ELSE 0], !.cycles = <<x>>] : x \in {2, 2 ^ (s.ln - 1)}}
    \cup {[s EXCEPT !.k = x] : x \in {1, 2, 3, 2 ^ s.ln \div 2, 2 ^ s.ln \div 2 + 1, MaxExemptions(s)}}
    \cup {[s EXCEPT !.nasserts = x] : x \in {1, 2, 3, 5, 6, 7}}
    \cup {[s EXCEPT !.q = x] : x \in {1, 2, 27, 64, 128, 254, 255}}
    \cup {[s EXCEPT !.lb = x] : x \in 1..7}
    \cup {[s EXCEPT !.grind = x] : x \in {0, 1, 8, 16}}
    \cup {[s EXCEPT !.fold = x] : x \in {2, 4, 8, 16}}
    \cup {[s EXCEPT !.rem = x] : x \in {0, 1, 3, 7, 15, 31, 63, 127, 255}}
    \cup {[s EXCEPT !.ext = x] : x \in 1..3}
    \cup {[s EXCEPT !.bits = x] : x \in {62, 64, 128}}
    \cup {WithAux(s, x) : x \in {<<>>, <<1>>, <<2>>, <<1, 2>>, <<2, 1>>, <<1, 1, 2, 2, 1>>, <<3>>, <<1, 5>>, <<2 ^ s.lb + 1, 1>>}}
    \cup {[s EXCEPT !.auxr = x] : x \in {0, 1, 2, 5}}
    \cup {[s EXCEPT !.lag = x] : x \in {0, 1}}
    \cup {[s EXCEPT !.nauxa = x] : x \in 1..3}
    \cup {[s EXCEPT !.meta = x] : x \in {0, 1, 7, 8, 65535}}      \* trace metadata: none, below / at / above one seed element of the 64-bit field

Next == /\ d < Depth
        /\ \E s \in Variants(t) : s # t /\ Admissible(s) /\ t' = s
        /\ d' = d + 1

\* every possible number of unique query positions
HonestOK == \A u \in {1, Min2(t.q, 254), t.q} : HonestPathOK(t, u, Fixed) /\ HonestPathOK(Effective(t), u, Fixed)
StaysAdmissible == Admissible(t) /\ Admissible(Effective(t))
\* corrupted-cell positions for the soundness scenarios: first step, around the exemption boundary, last step, every
\* kind of asserted step, an interior step; in the first, an assertion-carrying and the last column
\* the last step an assertion names
LastStepOf(a) == CHOOSE m \in StepsOfA(a, N(t)) : \A x \in StepsOfA(a, N(t)) : x <= m
CorruptCols  == {0, t.width - 1} \cup {Asserts(t)[x].col : x \in 1..t.nasserts}
CorruptSteps == ({0, 1, N(t) \div 2, N(t) - t.k - 1, N(t) - t.k, N(t) - t.k + 1, N(t) - 1}
                 \cup UNION {{a.first, a.first + a.stride} : a \in {Asserts(t)[x] : x \in 1..t.nasserts}}
                 \cup {LastStepOf(Asserts(t)[x]) : x \in 1..t.nasserts})
                \cap (0..(N(t) - 1))
Corruptions  == IF IOEnv.ST_SOUND = "1"
                THEN SetToSeq({[c |-> c, i |-> i, violated |-> ViolatedMain(t, c, i)] : c \in CorruptCols, i \in CorruptSteps})
                ELSE <<>>
AuxCorruptCols == IF AuxW(t) = 0 THEN {} ELSE {0, AuxW(t) - 1} \cup {AuxAsserts(t)[x].col : x \in 1..t.nauxa}
AuxCorruptSteps == ({0, 1, N(t) \div 2, N(t) - t.k - 1, N(t) - t.k, N(t) - t.k + 1, N(t) - 1}
                    \cup UNION {{a.first, a.first + a.stride} : a \in {AuxAsserts(t)[x] : x \in 1..t.nauxa}}
                    \cup {LastStepOf(AuxAsserts(t)[x]) : x \in 1..t.nauxa})
                   \cap (0..(N(t) - 1))
AuxCorruptions == IF IOEnv.ST_SOUND = "1"
                  THEN SetToSeq({[c |-> c, i |-> i, violated |-> ViolatedAux(t, c, i)] : c \in AuxCorruptCols, i \in AuxCorruptSteps})
                  ELSE <<>>
\* commit to a segment that is not the one the proof is about (the openings belong to another polynomial than the out-of-domain
\* frame): the DEEP composition ties every column of both segments to the frame, so each of these must be rejected
LdeCheats == IF IOEnv.ST_SOUND = "1"
             THEN SetToSeq({[aux |-> FALSE, c |-> c, i |-> N(t) \div 2] : c \in {0, t.width - 1}}
                           \cup {[aux |-> TRUE, c |-> c, i |-> 1] : c \in (IF AuxW(t) = 0 THEN {} ELSE {0, AuxW(t) - 1})})
             ELSE <<>>
Emit == PrintT(ToJson([t |-> t, asserts |-> Asserts(t), corruptions |-> Corruptions, ldecheats |-> LdeCheats,
                        auxasserts |-> AuxAsserts(t), auxcorruptions |-> AuxCorruptions,
                        ccols |-> NumCompositionCols(Effective(t)), layers |-> NumFriLayers(t),
                        layout |-> [u \in {1} |-> Layout(Effective(t), 1)][1]]))
View == t
=============================================================================
