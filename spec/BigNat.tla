------------------------------- MODULE BigNat -------------------------------
(* Natural numbers of arbitrary size as little-endian sequences of base-256 digits - the same bytes the library
   serializes.  TLC integers are 32-bit, so all arithmetic of the 62-, 64- and 128-bit fields is done on these.
   A number is normalised when it has no trailing (most significant) zero digit; zero is the empty sequence.
   All operators accept unnormalised arguments and return normalised results.                              *)
EXTENDS Naturals, Sequences, SequencesExt

Dg(a, i) == IF i <= Len(a) THEN a[i] ELSE 0

RECURSIVE NormN(_)
NormN(a) == IF a # <<>> /\ a[Len(a)] = 0 THEN NormN(SubSeq(a, 1, Len(a) - 1)) ELSE a

IsZeroN(a) == NormN(a) = <<>>
OneN == <<1>>
FromInt(v) == NormN(<<v % 256, (v \div 256) % 256, (v \div 65536) % 256, (v \div 16777216) % 256>>)   \* v < 2^31

\* comparison of normalised numbers: -1, 0, 1 encoded as 0 (less), 1 (equal), 2 (greater)
RECURSIVE CmpTop(_, _, _)
CmpTop(a, b, i) == IF i = 0 THEN 1 ELSE IF a[i] < b[i] THEN 0 ELSE IF a[i] > b[i] THEN 2 ELSE CmpTop(a, b, i - 1)
CmpN(a0, b0) == LET a == NormN(a0)  b == NormN(b0)
                IN  IF Len(a) < Len(b) THEN 0 ELSE IF Len(a) > Len(b) THEN 2 ELSE CmpTop(a, b, Len(a))
LessN(a, b)   == CmpN(a, b) = 0
LeqN(a, b)    == CmpN(a, b) # 2
EqN(a, b)     == CmpN(a, b) = 1

RECURSIVE AddC(_, _, _, _, _)
AddC(a, b, i, carry, acc) ==
    IF i > Len(a) /\ i > Len(b) THEN (IF carry = 0 THEN acc ELSE Append(acc, carry))
    ELSE LET s == Dg(a, i) + Dg(b, i) + carry IN AddC(a, b, i + 1, s \div 256, Append(acc, s % 256))
AddN(a, b) == NormN(AddC(a, b, 1, 0, <<>>))

\* a - b for a >= b
RECURSIVE SubC(_, _, _, _, _)
SubC(a, b, i, borrow, acc) ==
    IF i > Len(a) THEN acc
    ELSE LET s == Dg(a, i) - Dg(b, i) - borrow
         IN  IF s < 0 THEN SubC(a, b, i + 1, 1, Append(acc, s + 256)) ELSE SubC(a, b, i + 1, 0, Append(acc, s))
SubN(a, b) == NormN(SubC(a, b, 1, 0, <<>>))

\* a * k for a small k (k <= 2^16)
RECURSIVE MulSC(_, _, _, _, _)
MulSC(a, k, i, carry, acc) ==
    IF i > Len(a) THEN (IF carry = 0 THEN acc ELSE MulSC(<<>>, k, 1, carry \div 256, Append(acc, carry % 256)))
    ELSE LET s == a[i] * k + carry IN MulSC(a, k, i + 1, s \div 256, Append(acc, s % 256))
MulSmallN(a, k) == NormN(MulSC(a, k, 1, 0, <<>>))

ShiftDigits(a, n) == IF a = <<>> THEN <<>> ELSE [i \in 1..n |-> 0] \o a      \* a * 256^n

RECURSIVE MulAcc(_, _, _, _)
MulAcc(a, b, j, acc) == IF j > Len(b) THEN acc
                        ELSE MulAcc(a, b, j + 1, IF b[j] = 0 THEN acc ELSE AddN(acc, ShiftDigits(MulSmallN(a, b[j]), j - 1)))
MulN(a, b) == MulAcc(NormN(a), NormN(b), 1, <<>>)

(* a mod m by long division in base 256: the remainder is extended digit by digit from the most significant end; the
   quotient digit is the largest K with K*m <= r, found by bisection over the table of multiples of m.      *)
Multiples(m) == [K \in 0..255 |-> MulSmallN(m, K)]
RECURSIVE Bisect(_, _, _, _)
Bisect(tab, r, lo, hi) ==          \* largest K in lo..hi with tab[K] <= r   (tab[lo] <= r holds)
    IF lo = hi THEN lo
    ELSE LET mid == (lo + hi + 1) \div 2 IN IF LeqN(tab[mid], r) THEN Bisect(tab, r, mid, hi) ELSE Bisect(tab, r, lo, mid - 1)
RECURSIVE ModStep(_, _, _, _)
ModStep(a, tab, i, r) ==
    IF i = 0 THEN r
    ELSE LET r1 == NormN(<<a[i]>> \o r)                  \* r * 256 + next digit
             K  == Bisect(tab, r1, 0, 255)
         IN  ModStep(a, tab, i - 1, SubN(r1, tab[K]))
ModTab(a, tab) == LET x == NormN(a) IN ModStep(x, tab, Len(x), <<>>)
ModN(a, m) == ModTab(a, Multiples(m))

\* quotient and remainder of long division in base 256
RECURSIVE DivStep(_, _, _, _, _)
DivStep(a, tab, i, r, q) ==
    IF i = 0 THEN [q |-> NormN(q), r |-> r]
    ELSE LET r1 == NormN(<<a[i]>> \o r)
             K  == Bisect(tab, r1, 0, 255)
         IN  DivStep(a, tab, i - 1, SubN(r1, tab[K]), <<K>> \o q)
DivModN(a, m) == LET x == NormN(a) IN DivStep(x, Multiples(m), Len(x), <<>>, <<>>)

\* 2^k
RECURSIVE Pow2N(_)
Pow2N(k) == IF k < 8 THEN <<2 ^ k>> ELSE <<0>> \o Pow2N(k - 8)

\* a \div 2 (used for halving of exponents)
RECURSIVE Half(_, _, _, _)
Half(a, i, rem, acc) == IF i = 0 THEN acc
                        ELSE LET v == rem * 256 + a[i] IN Half(a, i - 1, v % 2, <<v \div 2>> \o acc)
HalfN(a) == NormN(Half(NormN(a), Len(NormN(a)), 0, <<>>))
IsOddN(a) == a # <<>> /\ a[1] % 2 = 1

\* fixed-width little-endian rendering (what the library serializes)
ToBytes(a, n) == [i \in 1..n |-> Dg(a, i)]
=============================================================================
