INIT Init
NEXT Next
INVARIANT GateSound
INVARIANT Emit
