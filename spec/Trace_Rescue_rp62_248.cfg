CONSTANT FieldName = "f62"
CONSTANT Hasher = "rp62_248"
INIT Init
NEXT Next
POSTCONDITION Accepted
