---------------------------- MODULE ReadAdapter ----------------------------
(* Implementation-shaped model of winter-utils' ReadAdapter (utils/core/src/serde/byte_reader.rs):
   a std BufReader of capacity Cap over a source that delivers the stream in chunks, plus the
   adapter's own spill buffer `buf` with read position `bpos` and the latched `geof` flag.  One
   operator per method of the implementation, with the same case analysis (pop, read_exact and its
   five branches, buffer_at_least, read_slice with storage compaction, peek_u8, check_eor,
   has_more_bytes).  The refinement theorem checked by TLC (MC_ReadAdapter) is: for every stream,
   chunking and operation sequence, every operation returns what Bytes!Apply returns at the abstract
   position  pos = |stream| - |src| - |rbuf| - (|buf| - bpos),  and moves the abstract position to
   Bytes!Apply(..).pos  (CheckEor may be optimistic).  Out-of-bounds copies are made visible through
   the `oob` flag.                                                                                  *)
EXTENDS Bytes

CONSTANTS Cap,        \* BufReader capacity (256 in the code)
          CompactAt,  \* read position from which read_slice may compact its buffer (16 in the code)
          Bug         \* "none" = the code as it is; the other values re-introduce the defects that the
                      \* 'fix:' commit 144a7e9 removed ("noadvance", "buflen", "shorteof", "stalepos"),
                      \* used by the self-test to show that the refinement check refutes each of them

\* adapter state: src remaining source bytes, chunks/ck chunk-size schedule, rbuf BufReader content,
\* buf/bpos spill buffer and its read position, geof latched end-of-file, oob an out-of-bounds access
St(src, chunks, ck, rbuf, buf, bpos, geof, oob) ==
    [src |-> src, chunks |-> chunks, ck |-> ck, rbuf |-> rbuf, buf |-> buf, bpos |-> bpos, geof |-> geof, oob |-> oob]

Buffer(st) == IF st.bpos <= Len(st.buf) THEN SubSeq(st.buf, st.bpos + 1, Len(st.buf)) ELSE <<>>

\* BufReader::fill_buf: reads from the source only when its buffer is empty; one read() call
FillBuf(st) ==
    IF st.rbuf # <<>> THEN st
    ELSE LET n == Min2(Min2(st.chunks[st.ck], Cap), Len(st.src))
         IN  [st EXCEPT !.rbuf = SubSeq(st.src, 1, n), !.src = Drop(st.src, n),
                        !.ck = (st.ck % Len(st.chunks)) + 1]

RS(st, res) == [st |-> st, res |-> res]

\* non_empty_reader_buffer_mut: latches geof when the reader has nothing
NERBM(st) == LET s1 == FillBuf(st)
             IN  IF s1.rbuf = <<>> THEN RS([s1 EXCEPT !.geof = TRUE], Err("eof")) ELSE RS(s1, Ok(<<>>))
\* non_empty_reader_buffer (through the RefCell, &self): same, but cannot latch geof
NERB(st)  == LET s1 == FillBuf(st)
             IN  IF s1.rbuf = <<>> THEN RS(s1, Err("eof")) ELSE RS(s1, Ok(<<>>))

Pop(st) ==
    IF Buffer(st) # <<>> THEN RS([st EXCEPT !.bpos = @ + 1], Ok(<<st.buf[st.bpos + 1]>>))
    ELSE LET r == NERBM(st)
         IN  IF r.res.ok THEN RS([r.st EXCEPT !.rbuf = Tail(@)], Ok(<<r.st.rbuf[1]>>))
             ELSE RS([r.st EXCEPT !.geof = TRUE], Err("eof"))

RECURSIVE BufferAtLeast(_, _)
BufferAtLeast(st, count) ==
    IF (IF Bug = "buflen" THEN Len(st.buf) ELSE Len(Buffer(st))) >= count THEN RS(st, Ok(<<>>))
    ELSE LET r == NERBM(st)
         IN  IF ~r.res.ok THEN r
             ELSE BufferAtLeast([r.st EXCEPT !.buf = @ \o r.st.rbuf, !.rbuf = <<>>], count)

ResetIfDrained(st) == IF Buffer(st) = <<>> /\ st.bpos > 0
                      THEN [st EXCEPT !.buf = <<>>, !.bpos = IF Bug = "stalepos" THEN @ ELSE 0] ELSE st

\* copy N bytes from the start of the unread part of `buf` (flagging an out-of-bounds copy)
TakeBuf(st, N) == IF Len(Buffer(st)) >= N THEN RS([st EXCEPT !.bpos = @ + N], Ok(SubSeq(Buffer(st), 1, N)))
                  ELSE RS([st EXCEPT !.oob = TRUE], Ok(Buffer(st)))

ReadExact(st, N) ==
    LET n == Len(Buffer(st))
    IN  IF n = 0 THEN
            LET r == NERBM(st)
            IN  IF ~r.res.ok THEN r
                ELSE IF Len(r.st.rbuf) < N /\ Bug = "shorteof" THEN RS(r.st, Err("eof"))
                ELSE IF Len(r.st.rbuf) < N
                THEN LET b == BufferAtLeast(r.st, N)                  \* short chunk: spill and retry
                     IN  IF ~b.res.ok THEN b ELSE TakeBuf(b.st, N)
                ELSE RS(ResetIfDrained([r.st EXCEPT !.rbuf = Drop(@, N)]), Ok(SubSeq(r.st.rbuf, 1, N)))
        ELSE IF n >= N THEN
            LET t == TakeBuf(st, N) IN RS(ResetIfDrained(t.st), t.res)
        ELSE
            LET r == NERBM(st)
            IN  IF ~r.res.ok THEN r
                ELSE IF Len(r.st.rbuf) + n >= N
                THEN RS(ResetIfDrained([r.st EXCEPT !.bpos = @ + n, !.rbuf = Drop(@, N - n)]),
                        Ok(Buffer(r.st) \o SubSeq(r.st.rbuf, 1, N - n)))
                ELSE LET b == BufferAtLeast(r.st, N)
                     IN  IF ~b.res.ok THEN b ELSE TakeBuf(b.st, N)

ReadArray(st, N) == IF N = 0 THEN RS(st, Ok(<<>>)) ELSE ReadExact(st, N)

\* read_slice; `compact` resolves the allocator-dependent has_remaining_capacity test
ReadSlice(st, len, compact) ==
    IF len = 0 THEN RS(st, Ok(<<>>))
    ELSE LET s1 == IF st.bpos >= CompactAt /\ compact THEN [st EXCEPT !.buf = Buffer(st), !.bpos = 0] ELSE st
             b  == BufferAtLeast(s1, len)
         IN  IF ~b.res.ok THEN b
             ELSE IF Bug = "noadvance" THEN RS(b.st, Ok(SubSeq(Buffer(b.st) \o <<0, 0, 0, 0, 0>>, 1, len)))
             ELSE TakeBuf(b.st, len)

PeekU8A(st) == IF Buffer(st) # <<>> THEN RS(st, Ok(<<st.buf[st.bpos + 1]>>))
               ELSE LET r == NERB(st) IN IF r.res.ok THEN RS(r.st, Ok(<<r.st.rbuf[1]>>)) ELSE r

CheckEorA(st, n) ==
    IF Len(Buffer(st)) >= n THEN RS(st, Ok(<<>>))
    ELSE LET r == NERB(st)
         IN  IF ~r.res.ok THEN r
             ELSE IF Len(Buffer(st)) + Len(r.st.rbuf) >= n THEN RS(r.st, Ok(<<>>))
             ELSE IF r.st.geof THEN RS(r.st, Err("eof"))
             ELSE RS(r.st, Ok(<<>>))                       \* optimistic

HasMoreA(st) == IF Buffer(st) # <<>> THEN RS(st, Ok(<<1>>))
                ELSE LET r == NERB(st) IN RS(r.st, Ok(<<IF r.res.ok THEN 1 ELSE 0>>))

\* provided (trait default) methods, composed exactly as in the trait
ReadBoolA(st) == LET r == Pop(st)
                 IN  IF ~r.res.ok THEN r ELSE IF r.res.val[1] \in {0, 1} THEN r ELSE RS(r.st, Err("invalid"))

ReadUsizeA(st, compact) ==
    LET p == PeekU8A(st)
    IN  IF ~p.res.ok THEN p
        ELSE LET len == TZ8(p.res.val[1]) + 1
             IN  IF len = 9
                 THEN LET q == Pop(p.st) IN IF ~q.res.ok THEN q ELSE ReadArray(q.st, 8)
                 ELSE LET r == ReadSlice(p.st, len, compact)
                      IN  IF r.res.ok THEN RS(r.st, Ok(ShiftRBytes(r.res.val, len, 8))) ELSE r

ReadStringA(st, n, compact) ==
    LET r == ReadSlice(st, n, compact)
    IN  IF ~r.res.ok THEN r ELSE IF Utf8Valid(r.res.val) THEN r ELSE RS(r.st, Err("invalid"))

RECURSIVE ReadManyA(_, _, _, _)
ReadManyA(st, w, n, acc) ==
    IF n = 0 THEN RS(st, Ok(acc))
    ELSE LET r == IF w = 1 THEN Pop(st) ELSE ReadArray(st, w)
         IN  IF ~r.res.ok THEN r ELSE ReadManyA(r.st, w, n - 1, acc \o r.res.val)

ApplyA(st, op, compact) ==
    CASE op.op = "read_u8"      -> Pop(st)
      [] op.op = "peek_u8"      -> PeekU8A(st)
      [] op.op = "read_bool"    -> ReadBoolA(st)
      [] op.op = "read_u16"     -> ReadArray(st, 2)
      [] op.op = "read_u32"     -> ReadArray(st, 4)
      [] op.op = "read_u64"     -> ReadArray(st, 8)
      [] op.op = "read_u128"    -> ReadArray(st, 16)
      [] op.op = "read_usize"   -> ReadUsizeA(st, compact)
      [] op.op = "read_slice"   -> ReadSlice(st, op.n, compact)
      [] op.op = "read_array"   -> ReadArray(st, op.n)
      [] op.op = "read_vec"     -> ReadSlice(st, op.n, compact)
      [] op.op = "read_string"  -> ReadStringA(st, op.n, compact)
      [] op.op = "read_many_u16"-> ReadManyA(st, 2, op.n, <<>>)
      [] op.op = "read_many_u8" -> ReadManyA(st, 1, op.n, <<>>)
      [] op.op = "check_eor"    -> CheckEorA(st, op.n)
      [] op.op = "has_more_bytes" -> HasMoreA(st)

\* refinement mapping
AbsPos(stream, st) == Len(stream) - Len(st.src) - Len(st.rbuf) - Len(Buffer(st))

\* the refinement condition for one step
StepRefines(stream, st, op, compact) ==
    LET a   == ApplyA(st, op, compact)
        pos == AbsPos(stream, st)
        e   == Apply(stream, pos, op)
    IN  /\ ~a.st.oob
        /\ a.st.bpos <= Len(a.st.buf)
        /\ AbsPos(stream, a.st) = e.pos
        /\ IF op.op = "check_eor" THEN (e.res.ok => a.res.ok)          \* optimism one way only
           ELSE a.res = e.res
=============================================================================
