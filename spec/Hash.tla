-------------------------------- MODULE Hash --------------------------------
(* Hash functions at the level where they are uninterpreted (property C11, part A): a hasher is a function of its logical
   input, and the derived operations are defined by equations over it.
       H(bytes)                       the digest of a byte string; total; H(x) # H(x \o <<0>>), H(x) # H(prefix of x)
       HE(elements) = H(CanonBytes)   byte-oriented hashers (Blake3, SHA3): hashing field elements is hashing their canonical
                                      serialization, whatever their internal representation and whether they are presented as
                                      base or as extension elements
       Merge(a, b)  = H(a \o b)       byte-oriented hashers; for the Rescue sponges Merge(a, b) = HE(elements of a, of b)
       MergeInt(s, v)                 injective in the integer v (for byte hashers = H(s \o LE64(v)))
   Collision freedom is the modelling assumption: observed digests of different logical inputs must differ.       *)
EXTENDS Naturals, Sequences, FiniteSets

AllDistinct(s) == \A i, j \in DOMAIN s : i # j => s[i] # s[j]
=============================================================================
