INIT Init
NEXT Next
INVARIANT BoundCompleteInv
