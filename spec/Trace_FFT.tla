------------------------------ MODULE Trace_FFT ------------------------------
(* R3 for C09: the fast transforms, interpolation, degree inference and the column-batched matrix variants executed by
   the real code over ToyField, checked against direct evaluation (Horner) at offset * w^i in natural order.
   An event lists the inputs, the outputs and the indices `chk` at which the output is recomputed (all of them unless
   the transform is large).                                                                               *)
EXTENDS ToyMath, Json, IOUtils, Naturals

Rec == ndJsonDeserialize(IOEnv.TRACE)
VARIABLE l
E == Rec[l]
Init == l = 1

\* point i (0-based) of the coset offset * <w> of size N
Pt(offset, N, i) == MulM(offset, PowM(RootOfOrder(N), i))

\* out[i] = poly(offset * w^i) for the listed indices
EvalOK(poly, out, offset, N, chk) ==
    LET rp == Reverse(poly) IN \A k \in DOMAIN chk : out[chk[k] + 1] = EvalR(rp, Pt(offset, N, chk[k]))

Fwd == /\ E.ev = "evaluate"                     \* evaluate_poly / evaluate_poly_with_offset
       /\ Len(E.out) = E.n * E.blowup
       /\ EvalOK(E.poly, E.out, E.offset, E.n * E.blowup, E.chk)

Inv == /\ E.ev = "interpolate"                  \* interpolate_poly / interpolate_poly_with_offset
       /\ Len(E.out) = E.n                      \* exactly n coefficients ...
       /\ EvalOK(E.out, E.vals, E.offset, E.n, E.chk)    \* ... of the polynomial through the given values

Deg == /\ E.ev = "infer_degree"
       /\ E.got = DegreeOf(E.poly)              \* the evaluations were made from this polynomial

\* column-batched: out[row][col] = poly_col(offset * w^row); chk lists <<row, col>> pairs
Mat == /\ E.ev = "matrix"
       /\ E.rows = E.n * E.blowup /\ E.cols = Len(E.polys)
       /\ \A k \in DOMAIN E.chk :
             LET r == E.chk[k][1]  c == E.chk[k][2]
             IN  E.vals[k] = Eval(E.polys[c + 1], Pt(E.offset, E.n * E.blowup, r))

Next == l <= Len(Rec) /\ (Fwd \/ Inv \/ Deg \/ Mat) /\ l' = l + 1
Accepted ==
    LET d == TLCGet("stats").diameter
    IN  IF d = Len(Rec) + 1 THEN TRUE
        ELSE PrintT(<<"TRACE-REJECTED at line", d, Rec[d].ev, Rec[d].fn>>) /\ FALSE
=============================================================================
