CONSTANT TransposeCapped = TRUE
CONSTANT TransposeMinBatchCells = 1024
INIT Init
NEXT Next
INVARIANT Inv
