------------------------------ MODULE Gen_Field ------------------------------
(* R2 for C07: operation sequences over four registers for one base field.  The initial operands are drawn from the
   boundary classes of the property, materialised here as integers (little-endian bytes): 0, 1, 2, p-1, p-2, (p-1)/2,
   (p+1)/2, 2^32-1, 2^32, 2^32+1, 2^62-1, 2^62, 2^63, 2^63-1, p, p+1, the all-ones word - both as residues ("new") and, for
   the Montgomery field with a public from_mont, as internal images ("mont", canonical images only).  Exhaustive part:
   every binary operation on every ordered pair of boundary operands and every unary operation on every boundary operand;
   random part: sequences of the given length with TLC's seeded RandomElement.                                *)
EXTENDS PrimeField, Json, IOUtils, TLC

Mode  == IOEnv.GF_MODE            \* "pairs" | "random"
Depth == atoi(IOEnv.GF_DEPTH)

P == Modulus
Word == IF FieldName = "f128" THEN 128 ELSE 64
Classes ==
    << <<>>, <<1>>, <<2>>, SubN(P, <<1>>), SubN(P, <<2>>), HalfN(SubN(P, <<1>>)), HalfN(AddN(P, <<1>>)),
       SubN(Pow2N(32), <<1>>), Pow2N(32), AddN(Pow2N(32), <<1>>), SubN(Pow2N(62), <<1>>), Pow2N(62), Pow2N(63), SubN(Pow2N(63), <<1>>),
       P, AddN(P, <<1>>), SubN(Pow2N(Word), <<1>>), SubN(Pow2N(Word), Pow2N(32)), FromInt(65537), FromInt(1234567) >>
    \* the 128-bit field multiplies 64-bit limbs: operands at the limb boundary
    \o (IF Word = 128 THEN << Pow2N(64), AddN(Pow2N(64), <<1>>), SubN(Pow2N(64), <<1>>), AddN(Pow2N(96), <<1>>), SubN(Pow2N(127), <<1>>) >> ELSE << >>)
NC == Len(Classes)
Pad(v) == ToBytes(v, Word \div 8)

Binary == {"add", "sub", "mul", "div", "add_assign", "sub_assign", "mul_assign"}
Unary  == {"neg", "double", "square", "cube", "inv", "conj", "bytes_roundtrip"}
\* exponents: small ones, around the modulus, at and above every power of two near the modulus size (an exponent is an integer of
\* the field's word size, not a residue: 2^62 and 2^63 exceed the 62-bit modulus), the largest of the word size
Exps   == << <<>>, <<1>>, <<2>>, <<3>>, <<7>>, SubN(P, <<2>>), SubN(P, <<1>>), SubN(Pow2N(64), <<1>>), Pow2N(32), FromInt(65537),
             Pow2N(62) >>
\* the variable-time exponentiation (the trait's default method, which the fields do not all override): the exponents above the
\* modulus size and a few of the others
VExps  == << <<3>>, Pow2N(62), Pow2N(63), AddN(Pow2N(62), <<5>>) >>
          \o (IF Word = 128 THEN << Pow2N(127) >> ELSE << >>)
Smalls == << <<>>, <<1>>, <<2>>, SubN(Pow2N(32), <<1>>), Pow2N(31), FromInt(65536) >>

O(op, d, a, b, e) == [op |-> op, d |-> d, a |-> a, b |-> b, e |-> e]
\* an internal (Montgomery) image is only meaningful below the modulus: from_mont assumes a Montgomery representation
MontKind(kind, v) == IF kind = "mont" /\ LessN(v, P) THEN "mont" ELSE "new"
Init2(i, j, kind) == << [kind |-> MontKind(kind, Classes[i]), v |-> Pad(Classes[i])], [kind |-> "new", v |-> Pad(Classes[j])],
                        [kind |-> "new", v |-> Pad(<<3>>)], [kind |-> MontKind("mont", Classes[j]), v |-> Pad(Classes[j])] >>

\* integers for the integer <-> element conversions (Mode "convs"): up to 128 bits whatever the field, around every source /
\* target type width, around the modulus and its multiples, and integers whose low word alone is a canonical value
ConvInts ==
    Classes \o << <<255>>, FromInt(256), FromInt(65535), FromInt(65536), SubN(Pow2N(64), <<1>>), Pow2N(64), AddN(Pow2N(64), <<5>>),
                  AddN(Pow2N(64), SubN(Pow2N(32), <<1>>)), AddN(Pow2N(64), P), AddN(P, P), AddN(AddN(P, P), <<1>>), AddN(Pow2N(65), <<3>>),
                  AddN(Pow2N(96), <<1>>), Pow2N(127), SubN(Pow2N(128), <<1>>), SubN(Pow2N(128), Pow2N(64)), AddN(Pow2N(100), FromInt(1234567)) >>
    \o (IF Word = 64 THEN << MulN(P, P), AddN(MulN(P, FromInt(65537)), <<2>>), MulN(P, Pow2N(32)) >> ELSE << >>)
VARIABLES scn, done
vars == <<scn, done>>

\* exhaustive: one scenario per ordered pair of classes, performing every operation on (r0, r1) into r2 / r3
PairOps == SetToSeq({O(op, 2, 0, 1, <<>>) : op \in Binary}) \o SetToSeq({O(op, 3, 0, 0, <<>>) : op \in Unary})
           \o [k \in 1..Len(Exps) |-> O("exp", 3, 0, 0, Pad(Exps[k]))]
           \o [k \in 1..Len(VExps) |-> O("exp_vartime", 3, 0, 0, Pad(VExps[k]))]
           \o [k \in 1..Len(Smalls) |-> O("mul_small", 3, 0, 0, Pad(Smalls[k]))]
           \o << O("add", 2, 3, 2, <<>>), O("inv", 3, 2, 2, <<>>), O("mul", 2, 2, 3, <<>>) >>

RandOp == LET op == RandomElement(Binary \cup Unary \cup {"exp", "exp_vartime", "mul_small"})
              d == RandomElement(0..3)  a == RandomElement(0..3)  b == RandomElement(0..3)
          IN  O(op, d, a, b, IF op = "exp" THEN Pad(Exps[RandomElement(1..Len(Exps))])
                             ELSE IF op = "exp_vartime" THEN Pad(VExps[RandomElement(1..Len(VExps))])
                             ELSE IF op = "mul_small" THEN Pad(Smalls[RandomElement(1..Len(Smalls))]) ELSE <<>>)

Init == /\ done = FALSE
        /\ IF Mode = "convs" THEN scn = [convs |-> [k \in 1..Len(ConvInts) |-> ToBytes(ConvInts[k], 16)], ops |-> <<>>] ELSE
           IF Mode = "pairs"
           THEN \E i \in 1..NC, j \in 1..NC, kind \in {"new", "mont"} : scn = [inits |-> Init2(i, j, kind), ops |-> PairOps]
           ELSE \E i \in 1..NC, j \in 1..NC : scn = [inits |-> Init2(i, j, IF (i + j) % 2 = 0 THEN "new" ELSE "mont"), ops |-> <<>>]
Next == \/ Mode = "random" /\ ~done /\ Len(scn.ops) < Depth /\ scn' = [scn EXCEPT !.ops = Append(@, RandOp)] /\ UNCHANGED done
        \/ ~done /\ (Mode \in {"pairs", "convs"} \/ Len(scn.ops) = Depth) /\ done' = TRUE /\ UNCHANGED scn
Emit == done => PrintT(ToJson(scn))
=============================================================================
