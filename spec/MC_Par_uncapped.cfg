CONSTANT TransposeCapped = FALSE
INIT Init
NEXT Next
INVARIANT Inv
