CONSTANT TransposeCapped = FALSE
CONSTANT TransposeMinBatchCells = 0
INIT Init
NEXT Next
INVARIANT Inv
