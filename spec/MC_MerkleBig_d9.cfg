CONSTANT Depth = 9
INIT Init
NEXT Next
INVARIANT CompleteInv
INVARIANT PathInv
INVARIANT SoundInv
INVARIANT Emit
