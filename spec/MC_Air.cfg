INIT Init
NEXT Next
INVARIANT DivisorInv
INVARIANT OverlapInv
INVARIANT PrepareInv
INVARIANT Emit
