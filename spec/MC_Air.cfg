INIT Init
NEXT Next
INVARIANT DivisorInv
INVARIANT OverlapInv
INVARIANT Emit
