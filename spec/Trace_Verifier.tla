---------------------------- MODULE Trace_Verifier ----------------------------
(* The verifier's algebra as a specification, evaluated by TLC on the contents of real proofs over F_40961.

   An event is one proof taken apart through the library's public parsing API, together with the challenges recorded where the
   real verifier obtained them and the real verdict.  The specification recomputes, from their definitions, the relations an
   accepting verifier must have established on the values it consumed:

   OOD    H(z) reduced from the columns H_j(z) sent by the prover  =  the composition of all constraints evaluated on the
          out-of-domain frame:   sum_i cct[i] C_i(frame, P(z)) / Z_T(z)  +  sum_a ccb[a] (T_col(a)(z) - V_a(z)) / Z_a(z)
          (+ auxiliary transition / boundary terms, + the Lagrange kernel terms), coefficients in the canonical order.
   DEEP   for every queried position p, x = offset * w^p, the value the first FRI layer opens at p is
            sum_c dt[c] ( (T_c(x) - T_c(z))/(x - z) + (T_c(x) - T_c(g z))/(x - g z) )  +  sum_j dc[j] (H_j(x) - H_j(z))/(x - z)
            (+ dl (L(x) - p_S(x)) / prod_{s in S} (x - s) for the Lagrange kernel column, S = {z, g z, g^2 z, g^4 z, ...}),
          T_c(x), H_j(x) being the opened rows and T_c(z), T_c(g z), H_j(z) the out-of-domain values.
   FOLD   for every FRI layer d and every folded position r: the value layer d+1 opens at r equals the polynomial of degree < N
          through the N values layer d opens on the coset of r, evaluated at the layer's challenge; positions fold by
          p mod (size/N) without duplicates in order of first occurrence.
   REM    the remainder polynomial evaluated at the last folded positions equals the last folded values, and its coefficients
          above the degree bound n / N^layers are zero.

   An event is consistent when the real verdict is "accept" exactly when all relations hold.  Used by C17 (OOD: "the verifier's
   evaluation of the same expression from an opened trace frame agrees with it") and C02 (acceptance implies the relations).     *)
EXTENDS ToyMath, MerkleChain, Json, IOUtils, Naturals, FiniteSets, TLC

Rec == ndJsonDeserialize(IOEnv.TRACE)
VARIABLE l
E == Rec[l]
Init == l = 1

SumM(S, f(_)) == FoldLeft(LAMBDA acc, s : AddM(acc, f(s)), 0, SetToSeq(S))
ProdM(S, f(_)) == FoldLeft(LAMBDA acc, s : MulM(acc, f(s)), 1, SetToSeq(S))
DivM(a, b) == MulM(a, InvM(b))
\* Lagrange interpolation through (xs[j], ys[j]) evaluated at x (exact also when x is a node)
LagrangeAt(xs, ys, x) ==
    SumM(DOMAIN xs, LAMBDA j : MulM(ys[j], ProdM(DOMAIN xs \ {j}, LAMBDA m : DivM(SubM(x, xs[m]), SubM(xs[j], xs[m])))))

W == E.width
NAux == Len(E.aux_degs)
NCols == W + NAux                     \* columns of the out-of-domain frame (the Lagrange kernel column has its own frame)
Z == E.z
GZ == MulM(E.g, Z)
V == Len(E.lrands)                    \* log2 n when there is a Lagrange kernel column
Cur(c) == E.cur[c]
Nxt(c) == E.nxt[c]

\* ---- the composition of the constraints at a point pt, on the frame (cur, nxt) and the Lagrange column values lagv ----------
\* (the out-of-domain stage instantiates it with the frame the proof sends, the prover stage with the trace polynomials)
PeriodicAtP(k, pt) == LET vals == E.periodic[k]  cyc == Len(vals)  gc == PowM(E.g, E.n \div cyc)
                      IN  LagrangeAt([j \in 1..cyc |-> PowM(gc, j - 1)], vals, PowM(pt, E.n \div cyc))
ConstraintP(i, pt, cur, nxt) ==
    IF E.mode = "copy" THEN SubM(nxt[i], cur[i])
    ELSE IF \E k \in DOMAIN E.neg : E.neg[k] = i - 1 THEN SubM(nxt[i], SubM(i, cur[i]))
    ELSE LET p == IF E.pcol[i] >= 0 THEN PeriodicAtP(E.pcol[i] + 1, pt) ELSE 1
         IN  SubM(nxt[i], AddM(AddM(MulM(PowM(cur[i], E.degs[i]), p), cur[(i % W) + 1]), i))
RandOf(j) == IF Len(E.rands) = 0 THEN 1 ELSE E.rands[((j - 1) % Len(E.rands)) + 1]
\* next value of auxiliary column j from its current value and the main value m (the functional reading of its constraint)
AuxStep(j, cur, m) == LET r == RandOf(j)
                      IN  IF E.aux_degs[j] = 1 THEN AddM(cur, MulM(r, m)) ELSE MulM(cur, PowM(AddM(m, r), E.aux_degs[j] - 1))
AuxConstraintP(j, cur, nxt) == SubM(nxt[W + j], AuxStep(j, cur[W + j], cur[((j - 1) % W) + 1]))
ZTAt(pt) == DivM(SubM(PowM(pt, E.n), 1), ProdM((E.n - E.exempt)..(E.n - 1), LAMBDA s : SubM(pt, PowM(E.g, s))))

StepsOfA(a) == [j \in 1..a.steps |-> a.first + a.stride * (j - 1)]
Key(a) == <<a.stride, a.first, a.col>>
LessKey(p, q) == \/ p[1] < q[1] \/ (p[1] = q[1] /\ p[2] < q[2]) \/ (p[1] = q[1] /\ p[2] = q[2] /\ p[3] < q[3])
RankIn(as, k) == Cardinality({m \in DOMAIN as : LessKey(Key(as[m]), Key(as[k]))}) + 1
BoundaryTermP(a, off, cc, pt, cur) ==
    LET st == StepsOfA(a)
        xs == [j \in DOMAIN st |-> PowM(E.g, st[j])]
        ys == [j \in DOMAIN st |-> IF Len(a.values) = 1 THEN a.values[1] ELSE a.values[j]]
        Va == LagrangeAt(xs, ys, pt)
        Za == ProdM(DOMAIN xs, LAMBDA j : SubM(pt, xs[j]))
    IN  MulM(cc, DivM(SubM(cur[off + a.col + 1], Va), Za))
NMainA == Len(E.asserts)
LagrangeTermsP(pt, lagv) ==
    LET r == E.lrands
    IN  AddM(SumM(1..V, LAMBDA k : MulM(E.lct[k],
                     DivM(SubM(MulM(r[V - k + 1], lagv[1]), MulM(SubM(1, r[V - k + 1]), lagv[(V - k) + 2])),
                          SubM(PowM(pt, 2 ^ (k - 1)), 1)))),
             MulM(E.lcb, DivM(SubM(lagv[1], ProdM(1..V, LAMBDA i : SubM(1, r[i]))), SubM(pt, 1))))
HDefAt(pt, cur, nxt, lagv) ==
        AddM(AddM(DivM(AddM(SumM(1..W, LAMBDA i : MulM(E.cct[i], ConstraintP(i, pt, cur, nxt))),
                            SumM(1..NAux, LAMBDA j : MulM(E.cct[W + j], AuxConstraintP(j, cur, nxt)))), ZTAt(pt)),
                  AddM(SumM(DOMAIN E.asserts, LAMBDA k : BoundaryTermP(E.asserts[k], 0, E.ccb[RankIn(E.asserts, k)], pt, cur)),
                       SumM(DOMAIN E.aux_asserts, LAMBDA k : BoundaryTermP(E.aux_asserts[k], W, E.ccb[NMainA + RankIn(E.aux_asserts, k)], pt, cur)))),
             IF E.lagrange THEN LagrangeTermsP(pt, lagv) ELSE 0)
HDef == HDefAt(Z, E.cur, E.nxt, E.lag)
HSent == SumM(DOMAIN E.hz, LAMBDA j : MulM(PowM(Z, (j - 1) * E.n), E.hz[j]))
ShapeOK == /\ Len(E.hz) = E.ccols /\ Len(E.cur) = NCols /\ Len(E.nxt) = NCols
           /\ Len(E.alphas) = E.layers /\ Len(E.fri) = E.layers /\ (E.lagrange => Len(E.lag) = V + 1)
\* every constraint, every column and every composition column has a coefficient of its own
CoeffsOK == Len(E.cct) = W + NAux /\ Len(E.ccb) = NMainA + Len(E.aux_asserts) /\ (E.lagrange => Len(E.lct) = V)
DeepCoeffsOK == Len(E.dt) >= NCols /\ Len(E.dc) = E.ccols
OodOK == HSent = HDef

\* ---- DEEP composition at the queried positions -----------------------------------------------------------------------
X(k) == MulM(E.offset, PowM(E.glde, E.positions[k]))
Row(k) == IF Len(E.aux_rows) = 0 THEN E.main_rows[k] ELSE E.main_rows[k] \o E.aux_rows[k]
LagPts == [i \in 1..(V + 1) |-> IF i = 1 THEN Z ELSE MulM(Z, PowM(E.g, 2 ^ (i - 2)))]
LagDeep(k) == LET x == X(k)
              IN  MulM(E.dl, DivM(SubM(Row(k)[NCols + 1], LagrangeAt(LagPts, E.lag, x)), ProdM(1..(V + 1), LAMBDA i : SubM(x, LagPts[i]))))
DeepAt(k) ==
    LET x == X(k)  row == Row(k)
    IN  AddM(AddM(SumM(1..NCols, LAMBDA c : MulM(E.dt[c], AddM(DivM(SubM(row[c], Cur(c)), SubM(x, Z)), DivM(SubM(row[c], Nxt(c)), SubM(x, GZ))))),
                  SumM(1..E.ccols, LAMBDA j : MulM(E.dc[j], DivM(SubM(E.comp_rows[k][j], E.hz[j]), SubM(x, Z))))),
             IF E.lagrange THEN LagDeep(k) ELSE 0)

\* ---- FRI ---------------------------------------------------------------------------------------------------------------
N == E.fold
Rho == PowM(E.glde, E.lde \div N)                   \* primitive N-th root of unity: the coset of a folded position
RECURSIVE Dedup(_, _)
Dedup(s, acc) == IF s = <<>> THEN acc
                 ELSE IF \E k \in DOMAIN acc : acc[k] = Head(s) THEN Dedup(Tail(s), acc) ELSE Dedup(Tail(s), Append(acc, Head(s)))
FriStep(st, d) ==
    IF st.stage # "ok" THEN st
    ELSE LET rowlen == st.size \div N
             fp   == Dedup([k \in DOMAIN st.pos |-> st.pos[k] % rowlen], <<>>)
             rows == E.fri[d]
             idx(p) == CHOOSE i \in DOMAIN fp : fp[i] = p % rowlen
             opened == [k \in DOMAIN st.pos |-> rows[idx(st.pos[k])][(st.pos[k] \div rowlen) + 1]]
             folded == [i \in DOMAIN fp |->
                          LagrangeAt([c \in 1..N |-> MulM(MulM(E.offset, PowM(st.gen, fp[i])), PowM(Rho, c - 1))], rows[i], E.alphas[d])]
         IN  IF Len(rows) # Len(fp) \/ \E i \in DOMAIN rows : Len(rows[i]) # N THEN [st EXCEPT !.stage = "layer-shape"]
             ELSE IF opened # st.vals THEN [st EXCEPT !.stage = IF d = 1 THEN "deep" ELSE "fold"]
             ELSE IF st.bound % N # 0 THEN [st EXCEPT !.stage = "truncation"]
             ELSE [pos |-> fp, vals |-> folded, gen |-> PowM(st.gen, N), size |-> rowlen, bound |-> st.bound \div N, stage |-> "ok"]
FriEnd == LET st0 == [pos |-> E.positions, vals |-> [k \in DOMAIN E.positions |-> DeepAt(k)], gen |-> E.glde, size |-> E.lde,
                      bound |-> E.n, stage |-> "ok"]
              st == FoldLeft(FriStep, st0, [d \in 1..E.layers |-> d])
          IN  IF st.stage # "ok" THEN st.stage
              ELSE IF \E i \in DOMAIN E.rem : i > st.bound /\ E.rem[i] # 0 THEN "remainder-degree"
              ELSE IF \E i \in DOMAIN st.pos : Eval(E.rem, MulM(E.offset, PowM(st.gen, st.pos[i]))) # st.vals[i]
                   THEN (IF E.layers = 0 THEN "deep" ELSE "remainder")
              ELSE "accept"

\* ---- PROVER: the proof is the proof of the trace the prover was given -----------------------------------------------------
\* The event of an honest run carries the main columns the prover received (tcols).  The auxiliary columns follow from them and the
\* recorded random elements by the functional reading of the auxiliary constraints, the Lagrange kernel column from its definition.
\* Each column is interpolated over the trace domain from the definition of the inverse transform (coefficient k =
\* 1/n sum_j T[j] g^(-jk)); then
\*   prover-ood    the out-of-domain frame the proof sends = the trace polynomials at z, g z (Lagrange column: z, g z, g^2 z, g^4 z, ..)
\*   prover-lde    every opened row of both trace segments = the trace polynomials at the queried point offset * w^p
\*   prover-comp   at every queried point x: sum_j x^((j-1) n) H_j(x), H_j(x) being the opened composition columns, = the composition
\*                 of all constraints evaluated on the trace polynomials at x and g x (the same HDefAt as the out-of-domain stage)
HasTrace == "tcols" \in DOMAIN E /\ Len(E.tcols) = W
LagPtsAt(pt) == [i \in 1..(V + 1) |-> IF i = 1 THEN pt ELSE MulM(pt, PowM(E.g, 2 ^ (i - 2)))]
ProverStage ==
    LET n    == E.n
        idx  == [j \in 1..n |-> j]
        ninv == InvM(n)
        tab  == TLCEval(LET gi == InvM(E.g) IN [i \in 1..n |-> PowM(gi, i - 1)])
        Interp(col) == TLCEval([k \in 1..n |-> MulM(ninv, FoldLeft(LAMBDA acc, j : (acc + col[j] * tab[(((j - 1) * (k - 1)) % n) + 1]) % P, 0, idx))])
        main == E.tcols
        AuxCol(j) == FoldLeft(LAMBDA acc, i : Append(acc, AuxStep(j, acc[i], main[((j - 1) % W) + 1][i])),
                              <<IF E.aux_degs[j] = 1 THEN 0 ELSE 1>>, [i \in 1..(n - 1) |-> i])
        Bit(row, b) == (row \div (2 ^ b)) % 2
        LagCol == [row \in 1..n |-> ProdM(1..V, LAMBDA b : IF Bit(row - 1, b - 1) = 1 THEN E.lrands[b] ELSE SubM(1, E.lrands[b]))]
        cols == main \o [j \in 1..NAux |-> AuxCol(j)] \o (IF E.lagrange THEN <<LagCol>> ELSE <<>>)
        rc   == TLCEval([c \in DOMAIN cols |-> Reverse(Interp(cols[c]))])
        At(c, x) == EvalR(rc[c], x)
        FrameAt(x) == [c \in 1..NCols |-> At(c, x)]
        LagAt(x) == IF E.lagrange THEN LET pts == LagPtsAt(x) IN [i \in 1..(V + 1) |-> At(NCols + 1, pts[i])] ELSE <<>>
        OodP  == /\ \A c \in 1..NCols : E.cur[c] = At(c, Z) /\ E.nxt[c] = At(c, GZ)
                 /\ E.lagrange => E.lag = LagAt(Z)
        LdeP  == \A k \in DOMAIN E.positions : \A c \in DOMAIN cols : Row(k)[c] = At(c, X(k))
        CompP == \A k \in DOMAIN E.positions :
                    LET x == X(k)
                    IN  SumM(DOMAIN E.comp_rows[k], LAMBDA j : MulM(PowM(x, (j - 1) * n), E.comp_rows[k][j]))
                          = HDefAt(x, FrameAt(x), FrameAt(MulM(E.g, x)), LagAt(x))
    IN  IF ~OodP THEN "prover-ood" ELSE IF ~LdeP THEN "prover-lde" ELSE IF ~CompP THEN "prover-comp" ELSE "ok"

\* a point of the protocol at which division by zero would occur (possible only because the field is tiny): not judged
Degenerate == \/ Z = 0 \/ PowM(Z, E.lde) = 1 \/ PowM(DivM(Z, E.offset), E.lde) = 1 \/ PowM(DivM(GZ, E.offset), E.lde) = 1
              \/ (E.lagrange /\ \E i \in 1..(V + 1) : PowM(DivM(LagPts[i], E.offset), E.lde) = 1)
\* COMMIT: every opened row - main and auxiliary segment, composition columns, every FRI layer - is tied to its commitment by merges
\* the verifier performed (MerkleChain.tla); judged when the algebra holds
CommitOK == /\ Len(E.trees) = (IF Len(E.aux_rows) > 0 THEN 3 ELSE 2) + E.layers
            /\ \A i \in DOMAIN E.trees : TreeOK(E.merges, E.trees[i])
\* the real verifier found H(z) inconsistent with its own evaluation of the constraints on the frame.  When the specification finds the
\* relation to hold this is a disagreement about the expression itself (not a rejection to be explained by a later stage: a verifier
\* that stops here draws no DEEP coefficients, which must not be read as "coefficients missing")
VerifierRejectsOod == E.verdict = "InconsistentOodConstraintEvaluations"
Algebra == IF ~ShapeOK THEN "shape" ELSE IF ~CoeffsOK THEN "coefficients" ELSE IF Degenerate THEN "degenerate"
           ELSE IF ~OodOK THEN "ood" ELSE IF VerifierRejectsOod THEN "ood-verifier-disagrees"
           ELSE IF ~DeepCoeffsOK THEN "coefficients" ELSE FriEnd
\* the prover stage is judged on honest runs that the verifier's stages accept
ModelStage == IF Algebra = "accept" /\ ~CommitOK THEN "commitment"
              ELSE IF Algebra = "accept" /\ HasTrace /\ ~E.cheat /\ ProverStage # "ok" THEN ProverStage
              ELSE Algebra

Proof == /\ E.ev = "proof"
         /\ LET ms == ModelStage
            IN  /\ PrintT(<<"VM", E.id, ms, E.verdict>>)
                /\ (ms = "degenerate" \/ ((E.verdict = "accept") <=> (ms = "accept")))
                /\ ms # "ood-verifier-disagrees"

Next == l <= Len(Rec) /\ Proof /\ l' = l + 1
Accepted ==
    LET d == TLCGet("stats").diameter
    IN  IF d = Len(Rec) + 1 THEN TRUE
        ELSE PrintT(<<"TRACE-REJECTED at line", d, Rec[d].id>>) /\ FALSE
=============================================================================
