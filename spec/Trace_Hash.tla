------------------------------ MODULE Trace_Hash ------------------------------
(* R3 for C11 part A: observations of the six real hash functions validated against the equations of Hash.tla.    *)
EXTENDS Hash, Json, IOUtils, TLC, TLCExt
Rec == ndJsonDeserialize(IOEnv.TRACE)
VARIABLES l, byteHasher, seenBytes
E == Rec[l]
Init == l = 1 /\ byteHasher = FALSE /\ seenBytes = {}

Hdr == E.ev = "hasher" /\ byteHasher' = E.byte_hasher /\ seenBytes' = {}

Bytes_ == /\ E.ev = "bytes"
          /\ E.d0 = E.again                                 \* deterministic
          /\ E.d0 # E.d1                                    \* a trailing zero byte changes the digest
          /\ (E.len > 0 => E.d0 # E.shorter)                \* so does dropping the last byte
          /\ E.d0 \notin seenBytes                          \* inputs of different length never collide
          /\ seenBytes' = seenBytes \cup {E.d0}
          /\ UNCHANGED byteHasher

Elems == /\ E.ev = "elements"
         /\ E.as_base = E.as_ext                            \* base versus extension typing
         /\ E.as_base = E.as_other                          \* residues, not internal representation
         /\ (byteHasher => E.as_base = E.of_bytes)          \* documented bytes definition
         /\ UNCHANGED <<byteHasher, seenBytes>>

Merge_ == /\ E.ev = "merge"
          /\ (byteHasher => E.out = E.of_concat)            \* merging = hashing the concatenation
          /\ E.out # E.swapped                              \* order matters
          /\ UNCHANGED <<byteHasher, seenBytes>>

\* merge_with_int: distinct 64-bit integers give distinct digests (below, at and above the modulus)
MergeInt == /\ E.ev = "merge_int"
            /\ \A i, j \in DOMAIN E.ints : (E.ints[i] # E.ints[j]) => (E.outs[i] # E.outs[j])
            /\ \A i, j \in DOMAIN E.ints : (E.ints[i] = E.ints[j]) => (E.outs[i] = E.outs[j])
            /\ (byteHasher => E.outs[4] = E.of_concat3)
            /\ UNCHANGED <<byteHasher, seenBytes>>

Next == l <= Len(Rec) /\ (Hdr \/ Bytes_ \/ Elems \/ Merge_ \/ MergeInt) /\ l' = l + 1
Accepted ==
    LET dd == TLCGet("stats").diameter
    IN  IF dd = Len(Rec) + 1 THEN TRUE
        ELSE PrintT(<<"TRACE-REJECTED at line", dd>>) /\ PrintT(Rec[dd]) /\ FALSE
=============================================================================
