---------------------------- MODULE Trace_VerifierX ----------------------------
(* Trace_Verifier.tla over the extensions of the harness field (ToyExt.tla, Deg = 2, 3): the verifier's algebra recomputed by TLC
   on the contents of real proofs produced with FieldExtension::Quadratic / Cubic.

   Base-field values: the opened rows of the main segment, the periodic columns, the values of the main assertions, the trace and
   LDE generators, the domain offset and hence every queried point x.  Extension elements (coefficient tuples): all challenges,
   the out-of-domain point and frames, the auxiliary rows and assertion values, the composition rows, every FRI layer value and
   the remainder.  The relations are those of Trace_Verifier.tla:

   OOD   sum_j z^(j n) H_j(z)  =  composition of all constraints on the out-of-domain frame
   DEEP  first FRI layer at p  =  sum_c dt[c] ((T_c(x) - T_c(z))/(x - z) + (T_c(x) - T_c(g z))/(x - g z)) + sum_j dc[j] (H_j(x) - H_j(z))/(x - z)
                                  (+ the Lagrange kernel term)
   FOLD  layer d+1 at r        =  the interpolant of layer d on the coset of r, evaluated at the layer's challenge
   REM   remainder at the last folded points = last folded values; coefficients above n / N^layers are zero                    *)
EXTENDS ToyExt, MerkleChain, Json, IOUtils, Naturals, FiniteSets, TLC

Rec == ndJsonDeserialize(IOEnv.TRACE)
VARIABLE l
E == Rec[l]
Init == l = 1

SumX(S, f(_)) == FoldLeft(LAMBDA acc, s : AddX(acc, f(s)), ZeroX, SetToSeq(S))
ProdX(S, f(_)) == FoldLeft(LAMBDA acc, s : MulX(acc, f(s)), OneX, SetToSeq(S))
X(v) == [i \in 1..Deg |-> v[i]]                 \* JSON coefficient list -> element
XS(v) == [j \in DOMAIN v |-> X(v[j])]
\* interpolation through extension nodes xs[j] with extension values ys[j], evaluated at the extension point x
LagrangeAt(xs, ys, x) ==
    SumX(DOMAIN xs, LAMBDA j : MulX(ys[j], ProdX(DOMAIN xs \ {j}, LAMBDA m : DivX(SubX(x, xs[m]), SubX(xs[j], xs[m])))))
EvalX(p, x) == FoldLeft(LAMBDA acc, c : AddX(MulX(acc, x), c), ZeroX, Reverse(p))

W == E.width
NAux == Len(E.aux_degs)
NCols == W + NAux
Z == X(E.z)
GZ == ScaleX(Z, E.g)
V == Len(E.lrands)
Cur(c) == X(E.cur[c])
Nxt(c) == X(E.nxt[c])
Lag(i) == X(E.lag[i])

\* the composition at a point pt on the frame (cur, nxt) and the Lagrange column values lagv, as in Trace_Verifier.tla
PeriodicAtP(k, pt) == LET vals == E.periodic[k]  cyc == Len(vals)  gc == PowM(E.g, E.n \div cyc)
                      IN  LagrangeAt([j \in 1..cyc |-> Emb(PowM(gc, j - 1))], [j \in 1..cyc |-> Emb(vals[j])], PowX(pt, E.n \div cyc))
ConstraintP(i, pt, cur, nxt) ==
    IF E.mode = "copy" THEN SubX(nxt[i], cur[i])
    ELSE IF \E k \in DOMAIN E.neg : E.neg[k] = i - 1 THEN SubX(nxt[i], SubX(Emb(i), cur[i]))
    ELSE LET p == IF E.pcol[i] >= 0 THEN PeriodicAtP(E.pcol[i] + 1, pt) ELSE OneX
         IN  SubX(nxt[i], AddX(AddX(MulX(PowX(cur[i], E.degs[i]), p), cur[(i % W) + 1]), Emb(i)))
RandOf(j) == IF Len(E.rands) = 0 THEN OneX ELSE X(E.rands[((j - 1) % Len(E.rands)) + 1])
AuxConstraintP(j, cur, nxt) ==
    LET m == cur[((j - 1) % W) + 1]  r == RandOf(j)  c == cur[W + j]  n == nxt[W + j]
    IN  IF E.aux_degs[j] = 1 THEN SubX(n, AddX(c, MulX(r, m))) ELSE SubX(n, MulX(c, PowX(AddX(m, r), E.aux_degs[j] - 1)))
ZTAt(pt) == DivX(SubX(PowX(pt, E.n), OneX), ProdX((E.n - E.exempt)..(E.n - 1), LAMBDA s : SubX(pt, Emb(PowM(E.g, s)))))

StepsOfA(a) == [j \in 1..a.steps |-> a.first + a.stride * (j - 1)]
Key(a) == <<a.stride, a.first, a.col>>
LessKey(p, q) == \/ p[1] < q[1] \/ (p[1] = q[1] /\ p[2] < q[2]) \/ (p[1] = q[1] /\ p[2] = q[2] /\ p[3] < q[3])
RankIn(as, k) == Cardinality({m \in DOMAIN as : LessKey(Key(as[m]), Key(as[k]))}) + 1
\* val(v): the asserted value as an element (main assertions carry base-field integers, auxiliary ones coefficient lists)
BoundaryTermP(a, off, cc, val(_), pt, cur) ==
    LET st == StepsOfA(a)
        xs == [j \in DOMAIN st |-> Emb(PowM(E.g, st[j]))]
        ys == [j \in DOMAIN st |-> IF Len(a.values) = 1 THEN val(a.values[1]) ELSE val(a.values[j])]
        Va == LagrangeAt(xs, ys, pt)
        Za == ProdX(DOMAIN xs, LAMBDA j : SubX(pt, xs[j]))
    IN  MulX(cc, DivX(SubX(cur[off + a.col + 1], Va), Za))
NMainA == Len(E.asserts)
LagrangeTermsP(pt, lagv) ==
    LET r == XS(E.lrands)
    IN  AddX(SumX(1..V, LAMBDA k : MulX(X(E.lct[k]),
                     DivX(SubX(MulX(r[V - k + 1], lagv[1]), MulX(SubX(OneX, r[V - k + 1]), lagv[(V - k) + 2])),
                          SubX(PowX(pt, 2 ^ (k - 1)), OneX)))),
             MulX(X(E.lcb), DivX(SubX(lagv[1], ProdX(1..V, LAMBDA i : SubX(OneX, r[i]))), SubX(pt, OneX))))
HDefAt(pt, cur, nxt, lagv) ==
        AddX(AddX(DivX(AddX(SumX(1..W, LAMBDA i : MulX(X(E.cct[i]), ConstraintP(i, pt, cur, nxt))),
                            SumX(1..NAux, LAMBDA j : MulX(X(E.cct[W + j]), AuxConstraintP(j, cur, nxt)))), ZTAt(pt)),
                  AddX(SumX(DOMAIN E.asserts, LAMBDA k : BoundaryTermP(E.asserts[k], 0, X(E.ccb[RankIn(E.asserts, k)]), Emb, pt, cur)),
                       SumX(DOMAIN E.aux_asserts, LAMBDA k : BoundaryTermP(E.aux_asserts[k], W, X(E.ccb[NMainA + RankIn(E.aux_asserts, k)]), X, pt, cur)))),
             IF E.lagrange THEN LagrangeTermsP(pt, lagv) ELSE ZeroX)
HDef == HDefAt(Z, [c \in 1..NCols |-> Cur(c)], [c \in 1..NCols |-> Nxt(c)], [i \in 1..(IF E.lagrange THEN V + 1 ELSE 0) |-> Lag(i)])
HSent == SumX(DOMAIN E.hz, LAMBDA j : MulX(PowX(Z, (j - 1) * E.n), X(E.hz[j])))
ShapeOK == /\ E.deg = Deg /\ Len(E.hz) = E.ccols /\ Len(E.cur) = NCols /\ Len(E.nxt) = NCols
           /\ Len(E.alphas) = E.layers /\ Len(E.fri) = E.layers /\ (E.lagrange => Len(E.lag) = V + 1)
CoeffsOK == Len(E.cct) = W + NAux /\ Len(E.ccb) = NMainA + Len(E.aux_asserts) /\ (E.lagrange => Len(E.lct) = V)
DeepCoeffsOK == Len(E.dt) >= NCols /\ Len(E.dc) = E.ccols
OodOK == HSent = HDef

\* ---- DEEP ------------------------------------------------------------------------------------------------------------
Xq(k) == Emb(MulM(E.offset, PowM(E.glde, E.positions[k])))
\* opened row k as elements: main columns embedded, auxiliary columns as they are
RowAt(k, c) == IF c <= W THEN Emb(E.main_rows[k][c]) ELSE X(E.aux_rows[k][c - W])
LagPts == [i \in 1..(V + 1) |-> IF i = 1 THEN Z ELSE ScaleX(Z, PowM(E.g, 2 ^ (i - 2)))]
LagDeep(k) == LET x == Xq(k)
              IN  MulX(X(E.dl), DivX(SubX(RowAt(k, NCols + 1), LagrangeAt(LagPts, XS(E.lag), x)), ProdX(1..(V + 1), LAMBDA i : SubX(x, LagPts[i]))))
DeepAt(k) ==
    LET x == Xq(k)
    IN  AddX(AddX(SumX(1..NCols, LAMBDA c : MulX(X(E.dt[c]), AddX(DivX(SubX(RowAt(k, c), Cur(c)), SubX(x, Z)), DivX(SubX(RowAt(k, c), Nxt(c)), SubX(x, GZ))))),
                  SumX(1..E.ccols, LAMBDA j : MulX(X(E.dc[j]), DivX(SubX(X(E.comp_rows[k][j]), X(E.hz[j])), SubX(x, Z))))),
             IF E.lagrange THEN LagDeep(k) ELSE ZeroX)

\* ---- FRI -------------------------------------------------------------------------------------------------------------
N == E.fold
Rho == PowM(E.glde, E.lde \div N)
RECURSIVE Dedup(_, _)
Dedup(s, acc) == IF s = <<>> THEN acc
                 ELSE IF \E k \in DOMAIN acc : acc[k] = Head(s) THEN Dedup(Tail(s), acc) ELSE Dedup(Tail(s), Append(acc, Head(s)))
FriStep(st, d) ==
    IF st.stage # "ok" THEN st
    ELSE LET rowlen == st.size \div N
             fp   == Dedup([k \in DOMAIN st.pos |-> st.pos[k] % rowlen], <<>>)
             rows == E.fri[d]
             idx(p) == CHOOSE i \in DOMAIN fp : fp[i] = p % rowlen
             opened == [k \in DOMAIN st.pos |-> X(rows[idx(st.pos[k])][(st.pos[k] \div rowlen) + 1])]
             folded == [i \in DOMAIN fp |->
                          LagrangeAt([c \in 1..N |-> Emb(MulM(MulM(E.offset, PowM(st.gen, fp[i])), PowM(Rho, c - 1)))], XS(rows[i]), X(E.alphas[d]))]
         IN  IF Len(rows) # Len(fp) \/ \E i \in DOMAIN rows : Len(rows[i]) # N THEN [st EXCEPT !.stage = "layer-shape"]
             ELSE IF opened # st.vals THEN [st EXCEPT !.stage = IF d = 1 THEN "deep" ELSE "fold"]
             ELSE IF st.bound % N # 0 THEN [st EXCEPT !.stage = "truncation"]
             ELSE [pos |-> fp, vals |-> folded, gen |-> PowM(st.gen, N), size |-> rowlen, bound |-> st.bound \div N, stage |-> "ok"]
FriEnd == LET st0 == [pos |-> E.positions, vals |-> [k \in DOMAIN E.positions |-> DeepAt(k)], gen |-> E.glde, size |-> E.lde,
                      bound |-> E.n, stage |-> "ok"]
              st == FoldLeft(FriStep, st0, [d \in 1..E.layers |-> d])
              rem == XS(E.rem)
          IN  IF st.stage # "ok" THEN st.stage
              ELSE IF \E i \in DOMAIN rem : i > st.bound /\ rem[i] # ZeroX THEN "remainder-degree"
              ELSE IF \E i \in DOMAIN st.pos : EvalX(rem, Emb(MulM(E.offset, PowM(st.gen, st.pos[i])))) # st.vals[i]
                   THEN (IF E.layers = 0 THEN "deep" ELSE "remainder")
              ELSE "accept"

\* ---- PROVER: the proof is the proof of the trace the prover was given (as in Trace_Verifier.tla; stages prover-ood, prover-lde, prover-comp) ----
\* main columns are base-field columns interpolated with native integers, auxiliary columns (extension elements) follow from the
\* main columns and the recorded random elements and are interpolated coefficient by coefficient
HasTrace == "tcols" \in DOMAIN E /\ Len(E.tcols) = W
AuxStepX(j, cur, m) == LET r == RandOf(j)
                       IN  IF E.aux_degs[j] = 1 THEN AddX(cur, ScaleX(r, m)) ELSE MulX(cur, PowX(AddX(Emb(m), r), E.aux_degs[j] - 1))
ProverStage ==
    LET n    == E.n
        idx  == [j \in 1..n |-> j]
        ninv == InvM(n)
        tab  == TLCEval(LET gi == InvM(E.g) IN [i \in 1..n |-> PowM(gi, i - 1)])
        Interp(col) == TLCEval([k \in 1..n |-> MulM(ninv, FoldLeft(LAMBDA acc, j : (acc + col[j] * tab[(((j - 1) * (k - 1)) % n) + 1]) % P, 0, idx))])
        InterpX(col) == LET co == TLCEval([d \in 1..Deg |-> Interp([j \in 1..n |-> col[j][d]])])
                        IN  [k \in 1..n |-> [d \in 1..Deg |-> co[d][k]]]
        main == E.tcols
        AuxCol(j) == FoldLeft(LAMBDA acc, i : Append(acc, AuxStepX(j, acc[i], main[((j - 1) % W) + 1][i])),
                              <<IF E.aux_degs[j] = 1 THEN ZeroX ELSE OneX>>, [i \in 1..(n - 1) |-> i])
        Bit(row, b) == (row \div (2 ^ b)) % 2
        lr == XS(E.lrands)
        LagCol == [row \in 1..n |-> ProdX(1..V, LAMBDA b : IF Bit(row - 1, b - 1) = 1 THEN lr[b] ELSE SubX(OneX, lr[b]))]
        mcoef == TLCEval([c \in 1..W |-> LET co == Interp(main[c]) IN [k \in 1..n |-> Emb(co[k])]])
        xcols == [j \in 1..NAux |-> AuxCol(j)] \o (IF E.lagrange THEN <<LagCol>> ELSE <<>>)
        xcoef == TLCEval([c \in DOMAIN xcols |-> InterpX(xcols[c])])
        AtX(c, x) == IF c <= W THEN EvalX(mcoef[c], x) ELSE EvalX(xcoef[c - W], x)
        OodP == /\ \A c \in 1..NCols : Cur(c) = AtX(c, Z) /\ Nxt(c) = AtX(c, GZ)
                /\ E.lagrange => \A i \in 1..(V + 1) : Lag(i) = AtX(NCols + 1, LagPts[i])
        LdeP == \A k \in DOMAIN E.positions : \A c \in 1..(W + Len(xcols)) : RowAt(k, c) = AtX(c, Xq(k))
        FrameAt(x) == [c \in 1..NCols |-> AtX(c, x)]
        LagAtP(x) == IF E.lagrange THEN [i \in 1..(V + 1) |-> AtX(NCols + 1, IF i = 1 THEN x ELSE ScaleX(x, PowM(E.g, 2 ^ (i - 2))))] ELSE <<>>
        CompP == \A k \in DOMAIN E.positions :
                    LET x == Xq(k)
                    IN  SumX(DOMAIN E.comp_rows[k], LAMBDA j : MulX(PowX(x, (j - 1) * n), X(E.comp_rows[k][j])))
                          = HDefAt(x, FrameAt(x), FrameAt(ScaleX(x, E.g)), LagAtP(x))
    IN  IF ~OodP THEN "prover-ood" ELSE IF ~LdeP THEN "prover-lde" ELSE IF ~CompP THEN "prover-comp" ELSE "ok"

\* with a proper extension element as out-of-domain point no division by zero can occur; a point in the base field (possible,
\* probability 1/p per coefficient) may hit the domains: not judged
InBase(a) == \A i \in 2..Deg : a[i] = 0
Degenerate == InBase(Z)
\* COMMIT: every opened row - main and auxiliary segment, composition columns, every FRI layer - is tied to its commitment by merges
\* the verifier performed (MerkleChain.tla); judged when the algebra holds
CommitOK == /\ Len(E.trees) = (IF Len(E.aux_rows) > 0 THEN 3 ELSE 2) + E.layers
            /\ \A i \in DOMAIN E.trees : TreeOK(E.merges, E.trees[i])
\* the real verifier found H(z) inconsistent with its own evaluation of the constraints on the frame.  When the specification finds the
\* relation to hold this is a disagreement about the expression itself (not a rejection to be explained by a later stage: a verifier
\* that stops here draws no DEEP coefficients, which must not be read as "coefficients missing")
VerifierRejectsOod == E.verdict = "InconsistentOodConstraintEvaluations"
Algebra == IF ~ShapeOK THEN "shape" ELSE IF ~CoeffsOK THEN "coefficients" ELSE IF Degenerate THEN "degenerate"
           ELSE IF ~OodOK THEN "ood" ELSE IF VerifierRejectsOod THEN "ood-verifier-disagrees"
           ELSE IF ~DeepCoeffsOK THEN "coefficients" ELSE FriEnd
ModelStage == IF Algebra = "accept" /\ ~CommitOK THEN "commitment"
              ELSE IF Algebra = "accept" /\ HasTrace /\ ~E.cheat /\ ProverStage # "ok" THEN ProverStage
              ELSE Algebra

Proof == /\ E.ev = "proof"
         /\ LET ms == ModelStage
            IN  /\ PrintT(<<"VM", E.id, ms, E.verdict>>)
                /\ (ms = "degenerate" \/ ((E.verdict = "accept") <=> (ms = "accept")))
                /\ ms # "ood-verifier-disagrees"

Next == l <= Len(Rec) /\ Proof /\ l' = l + 1
Accepted ==
    LET d == TLCGet("stats").diameter
    IN  IF d = Len(Rec) + 1 THEN TRUE
        ELSE PrintT(<<"TRACE-REJECTED at line", d, Rec[d].id>>) /\ FALSE
=============================================================================
