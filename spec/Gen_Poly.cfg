INIT Init
NEXT Next
INVARIANT Emit
