---------------------------- MODULE Trace_FFTBig ----------------------------
(* R3 for C09 at sizes the toy field cannot reach (its two-adicity is 13): transforms of 2^14 .. 2^18 elements executed by the
   real code over the 62-, 64- and 128-bit fields.  The polynomials are sparse, so every output is recomputed from the
   definition  p(offset * w^i) = sum_j c_j * (offset * w^i)^(e_j)  by modular exponentiation on BigNat (PrimeField.tla):
     bigeval    - the listed output positions of a forward transform / low-degree extension / matrix column
     biginterp  - the complete result of an interpolation: exactly the non-zero coefficients of the polynomial whose
                  evaluations were interpolated (the forward transform that produced them is validated by its own bigeval event)
     bigdegree  - infer_degree of the extended evaluations
   w is the library's root of unity of the stated order; it is checked to have exactly that order.                    *)
EXTENDS PrimeField, Json, IOUtils, TLC, SequencesExt

Rec == ndJsonDeserialize(IOEnv.TRACE)
VARIABLE l
E == Rec[l]
Init == l = 1

\* w has order exactly 2^logN
RootOK(w, logN) == /\ SqrTimes(RedF(w), logN) = OneN
                   /\ logN >= 1 => SqrTimes(RedF(w), logN - 1) = MMinus1
Pt(i) == MulF(E.offset, ExpF(E.w, FromInt(i)))
\* value of the sparse polynomial at x
Val(terms, x) == FoldLeft(LAMBDA acc, t : AddF(acc, MulF(t[2], ExpF(x, FromInt(t[1])))), <<>>, terms)
\* the terms with a non-zero coefficient, as a set of <<index, residue>>
TermSet(terms) == {<<terms[k][1], RedF(terms[k][2])>> : k \in {j \in DOMAIN terms : RedF(terms[j][2]) # <<>>}}

Eval == /\ E.ev = "bigeval" /\ E.field = FieldName
        /\ E.len = 2 ^ E.logN
        /\ RootOK(E.w, E.logN)
        /\ \A k \in DOMAIN E.samples :
              /\ E.samples[k][1] < E.len
              /\ IsCanonical(NormN(E.samples[k][2]))
              /\ NormN(E.samples[k][2]) = Val(E.terms, Pt(E.samples[k][1]))
Interp == /\ E.ev = "biginterp" /\ E.field = FieldName
          /\ E.len = 2 ^ E.logn
          /\ TermSet(E.nonzero) = TermSet(E.terms)
          /\ Len(E.nonzero) = Cardinality(TermSet(E.terms))
Deg == /\ E.ev = "bigdegree" /\ E.field = FieldName
       /\ E.got = Max({t[1] : t \in TermSet(E.terms)})

Next == l <= Len(Rec) /\ (Eval \/ Interp \/ Deg) /\ l' = l + 1
Accepted ==
    LET d == TLCGet("stats").diameter
    IN  IF d = Len(Rec) + 1 THEN TRUE
        ELSE PrintT(<<"TRACE-REJECTED at line", d, Rec[d].ev, Rec[d].fn>>) /\ FALSE
=============================================================================
