INIT Init
NEXT Next
INVARIANT Bound
INVARIANT TiedToCommitment
INVARIANT ChallengesBound
INVARIANT Emit
