------------------------------ MODULE Gen_Poly ------------------------------
(* R2 for C20: operand sets for the polynomial utilities: all pairs (thinned by a stride) of polynomials with up to four
   coefficients over {0, 1, p-1, 7, 12345} - which includes zero leading and trailing coefficients - with a scalar, a
   divisor x^a - b (b = 1 and b # 1, a = 1..3) and a point set; plus the lengths around the batching threshold for the
   vector utilities.                                                                                       *)
EXTENDS ToyMath, Json, IOUtils, TLC, FiniteSets
Stride == atoi(IOEnv.GP_STRIDE)
Alpha == <<0, 1, P - 1, 7, 12345>>
\* k = 0: the polynomial without coefficients, the library's own representation of the zero polynomial (what interpolation of
\* zeros and remove_leading_zeros return)
Polys == UNION {[1..k -> 1..5] : k \in 0..4}
Code(f) == FoldLeft(LAMBDA acc, i : acc * 5 + (f[i] - 1), Len(f), [i \in 1..Len(f) |-> i])
ToPoly(f) == [i \in 1..Len(f) |-> Alpha[f[i]]]
VARIABLE cs
Init == \/ \E f \in Polys, g \in Polys :
              /\ (Code(f) * 31 + Code(g) * 17) % Stride = 0
              /\ cs = [kind |-> "polys", a |-> ToPoly(f), b |-> ToPoly(g), k |-> Alpha[((Code(f) + Code(g)) % 5) + 1],
                      da |-> (Code(f) % 3) + 1, db |-> IF Code(g) % 2 = 0 THEN 1 ELSE Alpha[(Code(g) % 3) + 3],
                      npts |-> ((Code(f) + Code(g)) % 8) + 1,
                      \* position of the point x = 0 in the point set (0 = absent): every position of every set size occurs
                      zx |-> (Code(f) * 7 + Code(g) * 3) % (((Code(f) + Code(g)) % 8) + 2)]
        \* longer dividends (5..13 coefficients) against every divisor x^a - b with a = 1..4, so that lengths that are and are
        \* not multiples of a, and more than two blocks of a coefficients, occur
        \/ \E n \in 5..13, sd \in 1..3, a \in 1..4, bsel \in 1..2 :
              cs = [kind |-> "polys", a |-> [i \in 1..n |-> Alpha[((i * sd + i * i) % 5) + 1]], b |-> <<Alpha[4], Alpha[2 + sd]>>,
                      k |-> Alpha[((n + a) % 5) + 1], da |-> a, db |-> IF bsel = 1 THEN 1 ELSE Alpha[3 + (n % 3)],
                      npts |-> (n % 8) + 1, zx |-> (n + a + sd) % ((n % 8) + 2)]
        \* every point-set size 1..8 with the point x = 0 at every position (and absent)
        \/ \E np \in 1..8, z \in 0..8 :
              /\ z <= np
              /\ cs = [kind |-> "polys", a |-> <<Alpha[4], Alpha[2], Alpha[5]>>, b |-> <<Alpha[3], Alpha[2]>>, k |-> Alpha[(np % 5) + 1],
                       da |-> 1, db |-> 1, npts |-> np, zx |-> z]
        \* long operands: 14..65 coefficients (even and odd lengths on both sides of 16 / 32 / 64, non-zero leading coefficient
        \* and with zero leading coefficients), evaluated at the scalar and at as many points as coefficients (sd = 1) or at
        \* about half as many (sd = 2); interpolation through that many points
        \/ \E n \in {14, 15, 16, 17, 18, 24, 31, 32, 33, 40, 63, 64, 65}, sd \in 1..2, lz \in 0..1 :
              cs = [kind |-> "polys", a |-> [i \in 1..n |-> IF lz = 1 /\ i > n - 2 THEN 0 ELSE Alpha[((i * sd + i * i) % 4) + 2]],
                      b |-> [i \in 1..(3 + (n % 5)) |-> Alpha[((i + n) % 4) + 2]],
                      k |-> Alpha[(n % 4) + 2], da |-> (n % 4) + 1, db |-> IF sd = 1 THEN 1 ELSE Alpha[3 + (n % 3)],
                      npts |-> IF sd = 1 THEN n ELSE (n \div 2) + 1, zx |-> (n + lz) % 3]
        \/ \E len \in {0, 1, 2, 3, 16, 1023, 1024, 1025, 2048}, zpos \in {0, 1, 2} :
              cs = [kind |-> "vectors", len |-> len, zeros |-> zpos]
Next == UNCHANGED cs
Emit == PrintT(ToJson(cs))
=============================================================================
