CONSTANT Deg = 2
INIT Init
NEXT Next
POSTCONDITION Accepted
