"""The verifier's algebra recomputed by TLC (Trace_Verifier.tla) on real proofs over ToyField: shared by C17 (out-of-domain
consistency against the definition of the composition) and C02 (acceptance implies the DEEP, folding and remainder relations).

Scenarios: statements of Gen_Stark.tla instantiated over the harness field (base field, Blake3), proved and verified by the real
prover / verifier; for a part of them the prover cheats with consistent commitments (a corrupted cell proved against the original
claim, a committed segment or composition columns other than the ones behind the out-of-domain frame), so that the real verdict
is a rejection for an algebraic reason the specification must find too."""
import json, os, re
import vlib, starkgen
from vlib import log

PROVER = ("prover-ood", "prover-lde", "prover-comp")
OODX = ("ood-verifier-disagrees",)
ALGEBRAIC = ("InconsistentOodConstraintEvaluations", "FriVerificationFailed")


def scenarios(stmts, tier, seed):
    scs = []
    sel = [s for s in stmts if s["t"]["width"] <= 9 and s["t"]["ln"] + s["t"]["lb"] <= 12 and s["t"]["ln"] <= (5 if tier == "quick" else 6)
           and s["t"]["q"] <= 48]
    cap = 420 if tier == "quick" else 6000
    if len(sel) > cap:
        k = -(-len(sel) // cap)
        sel = sel[seed % k::k]
    for i, rec in enumerate(sel):
        sc = starkgen.scenario(rec, i * 4, seed)
        if starkgen.low_degree(sc):
            continue
        sc["field"], sc["hasher"], sc["ext"] = "toy", "blake3_256", 1
        sc["free_tail"] = False
        sh = sc["shape"]
        # a second periodic column of another cycle length on a free degree-1 column (as in C17)
        if sh["width"] >= 3 and i % 2 == 0:
            for c in range(sh["width"]):
                if sh["degs"][c] == 1 and sh["pcol"][c] < 0 and c not in sh["neg"]:
                    cand = [x for x in (4, 8, 2, sh["n"], 16) if x <= sh["n"] and x not in sh["periodic"]]
                    sh["periodic"] = list(sh["periodic"]) + [cand[(i // 2) % len(cand)]]
                    sh["pcol"][c] = len(sh["periodic"]) - 1
                    break
        scs.append(sc)
        # cheating provers with consistent commitments (every third statement, rotating kinds)
        if i % 3 == 0:
            kind = (i // 3) % 4
            ch = json.loads(json.dumps(sc))
            ch["id"] = sc["id"] + 1
            if kind == 0:
                ch["comp_cheat"] = True
            elif kind == 1:
                ch["lde_cheat"] = [False, i % sh["width"], 1]
            elif kind == 2 and sh.get("aux_degs"):
                ch["lde_cheat"] = [True, 0, 1]
            else:
                ch["corrupt"] = [i % sh["width"], 1 + (i % max(1, sh["n"] - sh["exempt"] - 1))]
            scs.append(ch)
    # the same over the quadratic and the cubic extension of the harness field (Trace_VerifierX.tla): statements of at most 16 steps
    small = [sc for sc in scs if sc["shape"]["n"] <= 16 and sc["opts"]["q"] <= 24]
    nx = 160 if tier == "quick" else 1500
    step = max(1, len(small) // nx)
    base = max([sc["id"] for sc in scs] + [0]) + 1
    for j, sc in enumerate(small[::step][:nx]):
        x = json.loads(json.dumps(sc))
        x["ext"] = 2 + j % 2
        x["id"] = base + j
        scs.append(x)
    return scs


def run(tier, seed, stmts, wd, name="vm"):
    """returns dict(scs, lines=[(id, model stage, real verdict)], rejected=[(id, stage, verdict)], states, transitions, shards)"""
    exe = vlib.build_harness("rel")
    scs = scenarios(stmts, tier, seed)
    jobs, skipped = [], []
    for ext, nsh in ((1, 10), (2, 3), (3, 3)):
        sub = [sc for sc in scs if sc["ext"] == ext]
        for k in range(nsh):
            part = sub[k::nsh]
            if not part:
                continue
            sp = os.path.join(wd, "%s_scs_%d_%d.ndjson" % (name, ext, k))
            vlib.write_ndjson(sp, part)
            tp = os.path.join(wd, "%s_trace_%d_%d.ndjson" % (name, ext, k))
            jobs.append((sp, tp, ext))

    def harness(j):
        rc, out, err = vlib.run_harness(exe, ["vmodel", "--scenarios", j[0], "--out", j[1]], timeout=1800)
        if rc != 0:
            raise vlib.ToolError("vmodel harness rc=%s: %s" % (rc, err[-400:]))
        return json.loads(out)["skipped"]

    for sk in vlib.parallel(harness, jobs, max_workers=16):
        skipped += sk

    def validate(j):
        if j[2] > 1:
            return j, vlib.tlc_validate("Trace_VerifierX", "Trace_VerifierX_%d" % j[2], j[1], tag="Trace_VerifierX_" + os.path.basename(j[1]), timeout=3300, xmx="3g")
        return j, vlib.tlc_validate("Trace_Verifier", "Trace_Verifier", j[1], tag="Trace_Verifier_" + os.path.basename(j[1]), timeout=3300, xmx="3g")

    byid_ext = {sc["id"]: sc["ext"] for sc in scs}
    cheat = {sc["id"]: bool(sc.get("comp_cheat") or sc.get("lde_cheat") or sc.get("corrupt") or sc.get("aux_corrupt")) for sc in scs}
    lines, rejected, states, trans, accepted = [], [], 0, 0, 0
    for j, rt in vlib.parallel(validate, [j for j in jobs if os.path.getsize(j[1]) > 0], max_workers=16):
        states += rt.distinct
        trans += rt.generated
        vm = [(int(a), b, c) for a, b, c in re.findall(r'<<"VM",\s*(\d+),\s*"([^"]*)",\s*"((?:[^"\\]|\\.)*)">>', rt.out)]
        lines += vm
        if rt.ok:
            accepted += 1
            continue
        m = re.search(r'TRACE-REJECTED at line",\s*(\d+),\s*(\d+)', rt.out)
        if not m:
            raise vlib.ToolError("Trace_Verifier: TLC failed without a rejection line: %s" % rt.out[-1500:])
        sid = int(m.group(2))
        last = [x for x in vm if x[0] == sid]
        if not last:
            raise vlib.ToolError("Trace_Verifier: rejected event %d without its evaluation line" % sid)
        rejected.append(last[-1])
    # binding test of the prover stage: one honest accepted event with one cell of the recorded input trace changed (and, separately,
    # one opened trace value / one opened composition value changed) must be rejected at the stage that owns the value
    bind = {}
    okids = {x[0] for x in lines if x[1] == "accept" and x[2] == "accept"}
    src = next((j for j in jobs if j[2] == 1 and os.path.getsize(j[1]) > 0), None)
    if src is not None:
        ev = None
        for ln in open(src[1]):
            e = json.loads(ln)
            if e["id"] in okids and e.get("tcols") and not e["cheat"] and e["positions"]:
                ev = e
                break
        if ev is not None:
            def variant(name, edit):
                e2 = json.loads(json.dumps(ev))
                edit(e2)
                tp = os.path.join(wd, "%s_bind_%s.ndjson" % (name, "x"))
                tp = tp.replace("_x.", "_%s." % edit.__name__)
                vlib.write_ndjson(tp, [e2])
                rt = vlib.tlc_validate("Trace_Verifier", "Trace_Verifier", tp, tag="Trace_Verifier_bind_" + edit.__name__, timeout=600, xmx="2g")
                m = re.findall(r'<<"VM",\s*(\d+),\s*"([^"]*)"', rt.out)
                return (not rt.ok) and m and m[-1][1]

            def cell(e):
                e["tcols"][0][1] = (e["tcols"][0][1] + 1) % 40961

            def comprow(e):
                e["comp_rows"][0][0] = (e["comp_rows"][0][0] + 1) % 40961
                # keep the verifier's stages satisfied: the change is outside what they relate only if the DEEP value is adapted too;
                # here it is not, so the verifier stage `deep` owns it
            bind = {"tcols-cell": variant(name, cell), "comp-row": variant(name, comprow)}
            if bind["tcols-cell"] not in ("prover-ood", "prover-lde", "prover-comp"):
                raise vlib.ToolError("Trace_Verifier: the prover stage does not reject a changed input trace (binding test): %s" % bind)
            if bind["comp-row"] not in ("deep", "prover-comp"):
                raise vlib.ToolError("Trace_Verifier: a changed opened composition value is not rejected (binding test): %s" % bind)
    log("[trace] Trace_Verifier / Trace_VerifierX: %d proofs taken apart (%d over the quadratic / cubic extension; %d skipped by the harness), %d evaluated, %d/%d shards accepted, stages %s" % (
        len(scs), sum(1 for sc in scs if sc["ext"] > 1), len(skipped), len(lines), accepted, len(jobs), _hist(lines)))
    return {"scs": scs, "byid": {sc["id"]: sc for sc in scs}, "lines": lines, "rejected": rejected, "states": states, "transitions": trans,
            "shards": len(jobs), "accepted": accepted, "skipped": skipped, "binding_test": bind,
            "prover_stage_judged": sum(1 for x in lines if x[1] == "accept" and x[2] == "accept" and not cheat.get(x[0]))}


def _hist(lines):
    h = {}
    for _, st, vd in lines:
        k = st + ("/accepted" if vd == "accept" else "/rejected")
        h[k] = h.get(k, 0) + 1
    return h


def describe(sc):
    sh = sc.get("shape", {})
    cheat = "comp_cheat" if sc.get("comp_cheat") else "lde_cheat %s" % sc["lde_cheat"] if sc.get("lde_cheat") else "corrupt %s" % sc["corrupt"] if sc.get("corrupt") else "honest"
    return "extension degree %s n=%s width=%s degrees=%s periodic=%s exemptions=%s assertions=%s aux=%s lagrange=%s options=%s prover=%s" % (
        sc.get("ext"), sh.get("n"), sh.get("width"), sh.get("degs"), sh.get("periodic"), sh.get("exempt"), [a["kind"] for a in sh.get("asserts", [])],
        sh.get("aux_degs"), sh.get("lagrange"), sc.get("opts"), cheat)


def judge(v, res, stages, pid):
    """records violations for the rejected events whose model stage is in `stages` (None = all others)"""
    for sid, stage, verdict in res["rejected"]:
        sc = res["byid"].get(sid, {})
        if stage == "shape":
            raise vlib.ToolError("Trace_Verifier: the recorded proof does not have the shape the specification expects (%s)" % describe(sc))
        mine = (stage in stages) if stages is not None else stage not in ("ood", "coefficients") + PROVER + OODX
        if not mine:
            continue
        if stage == "ood-verifier-disagrees":
            v.violation("vmodel/verifier-ood-disagrees",
                        "verify() rejects a proof as InconsistentOodConstraintEvaluations although the composition of all constraints on the out-of-domain frame, "
                        "evaluated from its definition with the coefficients the verifier drew, equals the H(z) the proof sends: the verifier's evaluation of the "
                        "expression differs from the definition (%s)" % describe(sc), sc)
        elif verdict == "accept" and stage in PROVER:
            what = {"prover-ood": "the out-of-domain frame it sends is not the evaluation of the trace polynomials (interpolants of the columns the prover was given) at z and g z",
                    "prover-lde": "a trace row it opens is not the evaluation of the trace polynomials at the queried point of the LDE domain",
                    "prover-comp": "at a queried point x the opened composition columns do not add up to the composition of all constraints evaluated on the trace "
                                   "polynomials at x and g x"}[stage]
            v.violation("vmodel/prover/%s" % stage,
                        "an honest run of the prover gives a proof that verify() accepts, but %s (prover stage of Trace_Verifier.tla) (%s)" % (what, describe(sc)), sc)
        elif verdict == "accept" and stage == "commitment":
            v.violation("vmodel/accepted-without/commitment",
                        "verify() ACCEPTS a proof although for some opened row (trace segment, composition columns or a FRI layer) the verifier performed no "
                        "chain of merges from the row's hash to the commitment (MerkleChain.tla): the value is consumed without being tied to a commitment (%s)" % describe(sc), sc)
        elif verdict == "accept":
            v.violation("vmodel/accepted-without/%s" % stage,
                        "verify() ACCEPTS a proof whose consumed values do not satisfy the protocol's relation '%s' as the specification defines it "
                        "(Trace_Verifier.tla) (%s)" % (stage, describe(sc)), sc)
        elif any(a in verdict for a in ALGEBRAIC):
            v.violation("vmodel/rejected-although-relations-hold",
                        "verify() rejects (%s) a proof on which every relation of the protocol holds by the specification (%s)" % (verdict[:80], describe(sc)), sc)
        else:
            v.note("vmodel: event %d rejected by the library for a non-algebraic reason (%s) while the relations hold" % (sid, verdict[:80]))
