"""Shared plumbing for the winterfell TLA+ model-based checks.

Roles (DESIGN.md section 2.1):
  R1  model checking      -> tlc_check()
  R2  behaviour generation-> tlc_generate()  (TLC prints one JSON scenario per behaviour)
  R3  trace validation    -> tlc_validate()  (TLC consumes an ndjson trace recorded from the real code)
Exit codes of a check: 0 held / 1 VIOLATION printed / 2 tool error.
"""
import json, os, re, subprocess, sys, time, shutil, hashlib

VERIF = os.path.dirname(os.path.dirname(os.path.abspath(__file__)))
SPEC = os.path.join(VERIF, "spec")
HARNESS = os.path.join(VERIF, "harness")
WORK = os.environ.get("VERIF_WORK", os.path.join(VERIF, "work"))                # parallel development runs use their own
OUT = os.environ.get("VERIF_OUT", os.path.join(VERIF, "out"))
# Development aid only (seeded changes evaluated in their own worktree, several at a time): the registered commands never
# set it, so they always build from /repo's working tree.
ALT_REPO = os.environ.get("VERIF_REPO", "/repo").rstrip("/")
EVID = os.environ.get("VERIF_EVIDENCE_DIR", os.path.join(VERIF, "evidence"))   # mutant runs write elsewhere
JAR = "/opt/veriftools/tla/tla2tools.jar:/opt/veriftools/tla/CommunityModules-deps.jar"


class ToolError(Exception):
    pass


class LibraryAbort(ToolError):
    """the harness process died from a panic raised inside the code under test (source file of /repo), outside any step the harness
    guards: a panic of the code under test is data, not a tool error (bin/check reports it as a violation of the running check)"""

    def __init__(self, where, msg, args, stderr):
        ToolError.__init__(self, "panic inside the code under test at %s: %s" % (where, msg))
        self.where, self.msg, self.args_, self.stderr = where, msg, args, stderr


def log(*a):
    print(*a, flush=True)


def seed_from_env():
    try:
        return int(os.environ.get("VERIF_SEED", "20260924"))
    except ValueError:
        return 20260924


# ---------------------------------------------------------------------------------------------
# harness build / run
# ---------------------------------------------------------------------------------------------
_built = {}


def build_harness(profile="dbg", features=None):
    """Build the Rust harness against /repo's current working tree. profile: dbg | rel."""
    key = (profile, tuple(features or ()))
    if key in _built:
        return _built[key]
    if ALT_REPO != "/repo":
        return _build_alt(profile, features, key)
    if os.environ.get("VERIF_COV"):
        return _build_cov(profile, features, key)
    lock = os.path.join(HARNESS, "Cargo.lock")
    if not os.path.exists(lock):
        shutil.copy("/repo/Cargo.lock", lock)
    cmd = ["cargo", "build", "--offline", "--quiet"]
    tdir = "target"
    if features:
        cmd += ["--features", ",".join(features)]
        tdir = "target-" + "-".join(features)
        cmd += ["--target-dir", tdir]
    if profile == "rel":
        cmd.append("--release")
    env = dict(os.environ, CARGO_NET_OFFLINE="true", RUSTFLAGS_NOTE="")
    t0 = time.time()
    p = subprocess.run(cmd, cwd=HARNESS, env=env, stdout=subprocess.PIPE, stderr=subprocess.STDOUT, text=True)
    if p.returncode != 0:
        sys.stdout.write(p.stdout[-6000:])
        raise ToolError("harness build failed (profile %s)" % profile)
    exe = os.path.join(HARNESS, tdir, "release" if profile == "rel" else "debug", "wfh")
    log("[build] wfh %s %s %.1fs" % (profile, features or "", time.time() - t0))
    _built[key] = exe
    return exe


def _build_cov(profile, features, key):
    """Development aid only (bin/coverage): the same harness built by the nightly toolchain with source-based coverage
    instrumentation, into VERIF_COV/target-*; the registered commands never set VERIF_COV."""
    base = os.environ["VERIF_COV"]
    tdir = os.path.join(base, "target-%s-%s" % (profile, "-".join(features or ()) or "plain"))
    cmd = ["cargo", "+nightly", "build", "--offline", "--quiet", "--target-dir", tdir]
    if features:
        cmd += ["--features", ",".join(features)]
    if profile == "rel":
        cmd.append("--release")
    env = dict(os.environ, CARGO_NET_OFFLINE="true",
               RUSTFLAGS="-C instrument-coverage --cfg winterfell_verif --check-cfg cfg(winterfell_verif)")
    p = subprocess.run(cmd, cwd=HARNESS, env=env, stdout=subprocess.PIPE, stderr=subprocess.STDOUT, text=True)
    if p.returncode != 0:
        sys.stdout.write(p.stdout[-6000:])
        raise ToolError("coverage harness build failed (profile %s)" % profile)
    exe = os.path.join(tdir, "release" if profile == "rel" else "debug", "wfh")
    _built[key] = exe
    return exe


def _build_alt(profile, features, key):
    """Same harness sources, path dependencies rewritten to another checkout of the repository, own target directory."""
    d = os.path.join(WORK, "alt-harness")
    os.makedirs(os.path.join(d, ".cargo"), exist_ok=True)
    toml = open(os.path.join(HARNESS, "Cargo.toml")).read().replace('"/repo/', '"%s/' % ALT_REPO)
    open(os.path.join(d, "Cargo.toml"), "w").write(toml)
    shutil.copy(os.path.join(ALT_REPO, "Cargo.lock"), os.path.join(d, "Cargo.lock"))
    shutil.copy(os.path.join(HARNESS, ".cargo", "config.toml"), os.path.join(d, ".cargo", "config.toml"))
    if not os.path.islink(os.path.join(d, "src")):
        os.symlink(os.path.join(HARNESS, "src"), os.path.join(d, "src"))
    cmd = ["cargo", "build", "--offline", "--quiet"]
    tdir = "target"
    if features:
        cmd += ["--features", ",".join(features)]
        tdir = "target-" + "-".join(features)
        cmd += ["--target-dir", tdir]
    if profile == "rel":
        cmd.append("--release")
    t0 = time.time()
    p = subprocess.run(cmd, cwd=d, env=dict(os.environ, CARGO_NET_OFFLINE="true"), stdout=subprocess.PIPE, stderr=subprocess.STDOUT, text=True)
    if p.returncode != 0:
        sys.stdout.write(p.stdout[-6000:])
        raise ToolError("harness build failed (profile %s, repo %s)" % (profile, ALT_REPO))
    exe = os.path.join(d, tdir, "release" if profile == "rel" else "debug", "wfh")
    log("[build] wfh %s %s against %s %.1fs" % (profile, features or "", ALT_REPO, time.time() - t0))
    _built[key] = exe
    return exe


def run_harness(exe, args, stdin_path=None, stdout_path=None, timeout=3600, env=None):
    """Run the harness; returns (returncode, stdout-text-or-None, stderr-tail)."""
    e = dict(os.environ)
    if env:
        e.update(env)
    fin = open(stdin_path, "rb") if stdin_path else subprocess.DEVNULL
    fout = open(stdout_path, "wb") if stdout_path else subprocess.PIPE
    try:
        p = subprocess.run([exe] + args, stdin=fin, stdout=fout, stderr=subprocess.PIPE, timeout=timeout, env=e)
    except subprocess.TimeoutExpired:
        raise ToolError("harness timeout: %s" % " ".join(args))
    finally:
        if stdin_path:
            fin.close()
        if stdout_path:
            fout.close()
    out = None if stdout_path else p.stdout.decode("utf-8", "replace")
    err = p.stderr.decode("utf-8", "replace")
    if p.returncode != 0:
        import re as _re
        m = _re.search(r"panicked at (%s/[^\s:]+):\d+:\d+:\n([^\n]*)" % _re.escape(ALT_REPO), err)
        if m:
            raise LibraryAbort(m.group(1)[len(ALT_REPO) + 1:], m.group(2).strip()[:200], args, err[-3000:])
    return p.returncode, out, err[-4000:]


# ---------------------------------------------------------------------------------------------
# TLC
# ---------------------------------------------------------------------------------------------
class TlcResult:
    def __init__(self):
        self.rc = None
        self.out = ""
        self.generated = 0
        self.distinct = 0
        self.depth = 0
        self.violation = None  # name of violated invariant/property, or "assumption"/"deadlock"
        self.coverage = {}  # action name -> (distinct, total)
        self.printed = []  # values printed with PrintT that look like JSON strings
        self.wall = 0.0

    @property
    def ok(self):
        return self.rc == 0


_RE_STATES = re.compile(r"(\d+) states generated, (\d+) distinct states found")
_RE_DEPTH = re.compile(r"The depth of the complete state graph search is (\d+)")
_RE_INV = re.compile(r"Invariant (\S+) is violated")
_RE_PROP = re.compile(r"(?:Action|Temporal) propert(?:y|ies) (\S+)? ?(?:is|were) violated")
_RE_COV = re.compile(r"^<(\w+) line \d+, col \d+ to line \d+, col \d+ of module (\w+)>: (\d+):(\d+)")


def _tla_unescape(line):
    """A TLA+ string printed by PrintT: "...." with \\" and \\\\ escapes -> python str."""
    s = line[1:-1]
    out = []
    i = 0
    while i < len(s):
        c = s[i]
        if c == "\\" and i + 1 < len(s):
            n = s[i + 1]
            out.append({"n": "\n", "t": "\t", '"': '"', "\\": "\\"}.get(n, n))
            i += 2
        else:
            out.append(c)
            i += 1
    return "".join(out)


def run_tlc(module, cfg=None, workers=4, simulate=None, depth=None, seed=None, env=None, timeout=1800,
            coverage=False, xmx="6g", tag=None, extra=None, dfs=False, keep_out_lines=200000):
    """Run TLC on spec/<module>.tla with spec/<cfg>. Returns TlcResult. Never raises on violations."""
    tag = tag or module
    meta = os.path.join(WORK, tag + "." + str(os.getpid()))
    shutil.rmtree(meta, ignore_errors=True)
    os.makedirs(meta, exist_ok=True)
    jopts = "-Xss1g"
    if dfs:
        jopts += " -Dtlc2.tool.queue.IStateQueue=StateDeque"
    e = dict(os.environ, JAVA_TOOL_OPTIONS=jopts)
    if env:
        e.update({k: str(v) for k, v in env.items()})
    # -Xss on the command line sizes the main thread (constants, ASSUMEs, initial states); JAVA_TOOL_OPTIONS only the workers
    cmd = ["timeout", str(timeout), "java", "-Xss1g", "-XX:+UseParallelGC", "-Xmx" + xmx, "-cp", JAR, "tlc2.TLC",
           "-workers", str(workers), "-metadir", meta, "-cleanup", "-noGenerateSpecTE", "-deadlock", "-checkpoint", "0"]
    if coverage:
        cmd += ["-coverage", "1"]
    if simulate is not None:
        cmd += ["-simulate", "num=%d" % simulate]
        if depth:
            cmd += ["-depth", str(depth)]
    if seed is not None:
        cmd += ["-seed", str(seed)]
    if extra:
        cmd += extra
    cmd += ["-config", (cfg or module) + ".cfg", module + ".tla"]
    t0 = time.time()
    p = subprocess.run(cmd, cwd=SPEC, env=e, stdout=subprocess.PIPE, stderr=subprocess.STDOUT, text=True)
    r = TlcResult()
    r.wall = time.time() - t0
    r.rc = p.returncode
    shutil.rmtree(meta, ignore_errors=True)
    lines = p.stdout.splitlines()
    for ln in lines:
        if ln.startswith('"{') or ln.startswith('"['):
            try:
                r.printed.append(json.loads(_tla_unescape(ln)))
            except Exception:
                pass
            continue
        m = _RE_STATES.search(ln)
        if m:
            r.generated, r.distinct = int(m.group(1)), int(m.group(2))
        m = _RE_DEPTH.search(ln)
        if m:
            r.depth = int(m.group(1))
        m = _RE_INV.search(ln)
        if m:
            r.violation = m.group(1)
        if "Assumption" in ln and "is false" in ln:
            r.violation = "assumption: " + ln.strip()
        if "Deadlock reached" in ln:
            r.violation = "deadlock"
        m = _RE_PROP.search(ln)
        if m and not r.violation:
            r.violation = m.group(1) or "property"
        m = _RE_COV.match(ln)
        if m:
            r.coverage[m.group(1)] = (int(m.group(3)), int(m.group(4)))
    keep = [ln for ln in lines if not (ln.startswith('"{') or ln.startswith('"['))]
    r.out = "\n".join(keep[-keep_out_lines:])
    if r.rc == 124:
        raise ToolError("TLC timeout on %s/%s" % (module, cfg))
    if r.rc not in (0, 10, 11, 12, 13) :
        sys.stdout.write(r.out[-5000:] + "\n")
        raise ToolError("TLC failed rc=%s on %s/%s" % (r.rc, module, cfg))
    return r


def tlc_check(module, cfg=None, **kw):
    """R1: exhaustive model check; returns TlcResult (ok or violation)."""
    r = run_tlc(module, cfg, **kw)
    log("[tlc] %s/%s: %d generated, %d distinct, depth %d, %.1fs%s" % (
        module, cfg or module, r.generated, r.distinct, r.depth, r.wall,
        "" if r.ok else "  ** " + str(r.violation)))
    return r


def tlc_validate(module, cfg, trace_path, env=None, **kw):
    """R3: trace validation. The trace spec must print a line 'TRACE-REJECTED at <n>' or hit POSTCONDITION
    failure; accepted iff rc == 0."""
    e = {"TRACE": trace_path}
    if env:
        e.update(env)
    kw.setdefault("workers", 1)
    kw.setdefault("dfs", True)
    kw.setdefault("xmx", "3g")
    r = run_tlc(module, cfg, env=e, **kw)
    return r


# ---------------------------------------------------------------------------------------------
# findings + evidence
# ---------------------------------------------------------------------------------------------
def load_known(pid):
    path = os.path.join(VERIF, "known_findings.json")
    if not os.path.exists(path):
        return []
    with open(path) as f:
        data = json.load(f)
    return [e for e in data.get("findings", []) if e.get("property") == pid]


class Verdict:
    """Collects violations (each with a stable key) and sorts them into known findings and new violations."""

    def __init__(self, pid):
        self.pid = pid
        self.viol = []  # (key, what, replay-object)
        self.notes = []

    def violation(self, key, what, replay=None):
        self.viol.append((key, what, replay))

    def note(self, s):
        self.notes.append(s)
        log("[note] " + s)

    def finish(self):
        known = [e for e in load_known(self.pid) if e.get("status") == "known"]
        new = []
        seen_known = {}
        for key, what, replay in self.viol:
            hit = None
            for e in known:
                if re.fullmatch(e["key"], key):
                    hit = e
                    break
            if hit:
                seen_known.setdefault(hit["key"], [hit, 0])[1] += 1
            else:
                new.append((key, what, replay))
        for k, (e, n) in seen_known.items():
            log("KNOWN-FINDING: property=%s %s [%s] (%d occurrences)" % (self.pid, e["what"], e["key"], n))
        os.makedirs(OUT, exist_ok=True)
        shown = {}
        for key, what, replay in new:
            if key in shown:
                shown[key] += 1
                continue
            shown[key] = 1
            h = hashlib.sha1(key.encode()).hexdigest()[:10]
            path = os.path.join(OUT, "%s-%s.replay.json" % (self.pid, h))
            with open(path, "w") as f:
                json.dump({"property": self.pid, "key": key, "what": what, "replay": replay}, f, indent=1, default=str)
            if len(shown) <= 12:
                log("VIOLATION property=%s replay=%s" % (self.pid, path))
                log("  key=%s :: %s" % (key, str(what)[:600]))
        if len(shown) > 12:
            log("  ... %d further distinct violation keys (replay files written under %s)" % (len(shown) - 12, OUT))
        self.n_new = len(new)
        self.n_known = sum(n for _, n in seen_known.values())
        return 1 if new else 0


def write_evidence(pid, tier, seed, level, coverage, wall_s, violations=0, assumptions=None):
    os.makedirs(EVID, exist_ok=True)
    ev = {"property_id": pid, "tier": tier, "seed": int(seed), "level": level, "coverage": coverage,
          "assumptions": assumptions or [], "wall_s": round(wall_s, 2), "violations": int(violations)}
    tmp = os.path.join(EVID, pid + ".json.tmp")
    with open(tmp, "w") as f:
        json.dump(ev, f, indent=1, default=str)
    os.replace(tmp, os.path.join(EVID, pid + ".json"))


def read_ndjson(path):
    out = []
    with open(path) as f:
        for ln in f:
            ln = ln.strip()
            if ln:
                out.append(json.loads(ln))
    return out


def write_ndjson(path, recs):
    os.makedirs(os.path.dirname(path), exist_ok=True)
    with open(path, "w") as f:
        for r in recs:
            f.write(json.dumps(r, separators=(",", ":")) + "\n")


def workdir(pid):
    d = os.path.join(WORK, pid)
    os.makedirs(d, exist_ok=True)
    return d


def parallel(fn, items, max_workers=6):
    """Run fn(item) for all items on a thread pool (the work is done in subprocesses); returns results in order."""
    from concurrent.futures import ThreadPoolExecutor
    with ThreadPoolExecutor(max_workers=max_workers) as ex:
        return list(ex.map(fn, items))


def rejected_event(tlc_out):
    """Extracts (line number, event name) from a 'TRACE-REJECTED at line' message of a trace spec."""
    m = re.search(r'TRACE-REJECTED at line",\s*(\d+)', tlc_out)
    line = int(m.group(1)) if m else -1
    m2 = re.search(r'ev \|-> "(\w+)"', tlc_out[m.end():] if m else tlc_out)
    return line, (m2.group(1) if m2 else "?")
