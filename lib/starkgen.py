"""Turns a statement printed by Gen_Stark.tla (integer parameters) into a harness scenario (concrete shape)."""

HASHERS = {62: ["blake3_256", "rp62_248", "sha3_256", "blake3_192"],
           64: ["rp64_256", "blake3_256", "rpjive64_256", "sha3_256", "blake3_192"],
           128: ["blake3_256", "sha3_256", "blake3_192"]}


def assertions(n, w, count):
    tmpl = [
        dict(kind="single", col=0, first=0, stride=0, count=1),
        dict(kind="single", col=w - 1, first=n - 1, stride=0, count=1),
        dict(kind="periodic", col=0, first=1, stride=4, count=1),
        dict(kind="sequence", col=2 % w, first=2, stride=4, count=n // 4),
        (dict(kind="sequence", col=3, first=0, stride=2, count=n // 2) if w >= 4 else
         dict(kind="single", col=0, first=4, stride=0, count=1)),
    ]
    return tmpl[:count]


def scenario(rec, idx, seed=0):
    """rec = {"t": statement, "asserts": assertion list computed by Stark.tla, "corruptions": [...]}"""
    sc = _scenario(rec["t"], idx, seed, rec.get("asserts"))
    sc["stmt"] = rec["t"]
    t = rec["t"]
    if t.get("meta"):
        sc["shape"]["meta"] = [(i * 37) % 250 + 1 for i in range(t["meta"])]   # non-zero bytes
    if t.get("auxd"):
        sc["shape"].update(aux_degs=t["auxd"], aux_rands=t["auxr"], lagrange=bool(t["lag"]), aux_asserts=rec.get("auxasserts", []))
    elif t.get("lag"):
        sc["shape"].update(lagrange=True)
    sc["ccols"] = rec.get("ccols", 0)
    sc["layers"] = rec.get("layers", 0)
    sc["layout"] = rec.get("layout", {})
    return sc


def _scenario(t, idx, seed=0, asserts=None):
    n = 2 ** t["ln"]
    w = t["width"]
    bits = t["bits"]
    hs = HASHERS[bits]
    used = sorted({p for p in t["pcol"] if p > 0})
    sc = {
        "id": idx, "field": "f%d" % bits, "hasher": hs[idx % len(hs)], "ext": t["ext"],
        "shape": {"n": n, "width": w, "degs": t["degs"], "periodic": [t["cycles"][p - 1] for p in used],
                  "pcol": [used.index(p) if p > 0 else -1 for p in t["pcol"]],
                  "asserts": asserts if asserts is not None else assertions(n, w, t["nasserts"]), "exempt": t["k"], "mode": "std"},
        "opts": {"q": t["q"], "blowup": 2 ** t["lb"], "grind": t["grind"], "fold": t["fold"], "rem": t["rem"]},
        "seed": seed * 1000003 + idx, "free_tail": idx % 2 == 1,
    }
    # a periodic assertion needs a column that repeats: make its column a period-two column (degree 1)
    neg = sorted({a["col"] for a in sc["shape"]["asserts"] if a["kind"] == "periodic"})
    sc["shape"]["neg"] = neg
    for c in neg:
        sc["shape"]["degs"] = list(sc["shape"]["degs"])
        sc["shape"]["degs"][c] = 1
        sc["shape"]["pcol"][c] = -1
    # the statement's degrees are those of the scenario: if the highest degree sat on a neg column, the statement
    # is still admissible (lower degree), nothing else changes
    return sc


def low_degree(sc):
    """A running-product auxiliary column that reads a period-two main column while no tail row is free (one exemption): the
    main column is then a polynomial of degree n/2, the auxiliary constraint has a lower degree than declared, and the prover's
    debug-build degree validation (a developer aid) fires.  Such traces are judged in the build without debug assertions."""
    sh = sc["shape"]
    if sh["exempt"] != 1:
        return False
    return any(d >= 2 and (j % sh["width"]) in sh.get("neg", []) for j, d in enumerate(sh.get("aux_degs", [])))
